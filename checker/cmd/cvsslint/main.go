// cvsslint decides the go-cvss properties C01..C20 from /repo's source.
package main

import (
	"flag"
	"fmt"
	"golang.org/x/tools/go/ssa"
	"os"
	"path/filepath"
	"runtime"
	"runtime/debug"
	"strconv"
	"strings"
	"time"

	"go/types"

	"cvsslint/internal/facts"
	"cvsslint/internal/ir"
	"cvsslint/internal/load"
	"cvsslint/internal/report"
	"cvsslint/internal/rules"
)

func main() {
	prop := flag.String("prop", "", "property id (C01..C20)")
	tier := flag.String("tier", "quick", "quick | thorough")
	repo := flag.String("repo", "/repo", "repository working tree to analyse")
	verif := flag.String("verif", "/verif", "verification directory (evidence, known findings)")
	explain := flag.String("explain", "", "print a violations file in readable form")
	list := flag.Bool("list", false, "list implemented properties")
	dump := flag.String("dump", "", "developer aid: print the guarded leaves (with effects) of the named function, e.g. '(*v3/metric.Temporal).decodeOne'")
	flag.Parse()
	if *dump != "" {
		dumpLeaves(*repo, *dump)
		return
	}
	if *list {
		fmt.Println(strings.Join(rules.Props(), " "))
		return
	}
	if *explain != "" {
		b, err := os.ReadFile(*explain)
		if err != nil {
			fmt.Println(err)
			os.Exit(2)
		}
		os.Stdout.Write(b)
		return
	}
	if t := os.Getenv("VERIF_TIER"); t != "" && !flagSet("tier") {
		*tier = t
	}
	seed := 0
	if s := os.Getenv("VERIF_SEED"); s != "" {
		seed, _ = strconv.Atoi(s)
	}
	rf, ok := rules.Registry[*prop]
	if !ok {
		fmt.Printf("unknown property %q; implemented: %s\n", *prop, strings.Join(rules.Props(), " "))
		os.Exit(2)
	}
	t0 := time.Now()
	// a verdict must arrive: an analysis that does not finish within its budget (time or memory) is reported as
	// not decided - which fails the check - instead of hanging
	budget := 20 * time.Minute
	if *tier == "thorough" {
		budget = 4 * time.Hour
	}
	bail := func(why string) {
		replay := filepath.Join(*verif, "evidence", *prop+".violations.json")
		os.MkdirAll(filepath.Dir(replay), 0o755)
		os.WriteFile(replay, []byte(fmt.Sprintf("{\"property\": %q, \"undecided\": [{\"rule\": \"analysis-budget\", \"message\": %q}]}\n", *prop, why)), 0o644)
		fmt.Printf("  UNDECIDED analysis-budget [] %s: UNDECIDED: %s\n", *prop, why)
		fmt.Printf("VIOLATION property=%s replay=%s\n", *prop, replay)
		os.Exit(1)
	}
	time.AfterFunc(budget, func() { bail(fmt.Sprintf("the analysis did not finish within %s", budget)) })
	go func() {
		var ms runtime.MemStats
		for {
			time.Sleep(2 * time.Second)
			runtime.ReadMemStats(&ms)
			if ms.Sys > 24<<30 {
				bail("the analysis needs more than 24 GiB of memory")
			}
		}
	}()
	ctx := report.NewCtx(*prop, *tier)
	cmd := "bin/cvsslint " + strings.Join(os.Args[1:], " ")
	variants := []load.Variant{{Name: "default"}}
	if *tier == "thorough" {
		variants = append(variants,
			load.Variant{Name: "tags=run", Tags: "run"},
			load.Variant{Name: "GOARCH=386", GOARCH: "386"},
		)
	}
	var analysed []map[string]interface{}
	for _, v := range variants {
		ctx.Variant = v.Name
		runVariant(ctx, rf, *repo, v, &analysed)
	}
	ctx.Variant = ""
	ctx.Analysed["variants"] = analysed
	if *tier == "thorough" {
		rules.Thorough(ctx, *prop, *repo, *verif)
	}
	os.Exit(ctx.Finish(*verif, seed, time.Since(t0).Seconds(), cmd))
}

func flagSet(name string) bool {
	set := false
	flag.Visit(func(f *flag.Flag) {
		if f.Name == name {
			set = true
		}
	})
	return set
}

func runVariant(ctx *report.Ctx, rf rules.RuleFunc, repo string, v load.Variant, analysed *[]map[string]interface{}) {
	defer func() {
		if r := recover(); r != nil {
			ctx.Undecided("checker-panic", v.Name, "", fmt.Sprintf("%v\n%s", r, debug.Stack()))
		}
	}()
	_ = rf
	pkgs, nf, err := rules.RunOn(ctx, ctx.Prop, repo, v)
	if err != nil {
		return
	}
	want := 6
	if v.Tags == "run" {
		want = 13
	}
	if len(pkgs) < want {
		ctx.Undecided("load", v.Name, "", fmt.Sprintf("expected at least %d packages in this variant, loaded %d: %v", want, len(pkgs), pkgs))
	}
	*analysed = append(*analysed, map[string]interface{}{"variant": v.Name, "packages": pkgs, "functions": nf})
}

func dumpLeaves(repo, name string) {
	p, err := load.Load(repo, load.Variant{Name: "default"})
	if err != nil {
		fmt.Println(err)
		os.Exit(2)
	}
	f := facts.Build(p)
	for _, fn := range f.AllFunctions() {
		obj, _ := fn.Object().(*types.Func)
		if obj == nil || load.FuncName(obj) != name {
			continue
		}
		inl := func(c *ssa.Function) bool {
			o, _ := c.Object().(*types.Func)
			if o == nil || c.Pkg == nil || len(c.Blocks) == 0 || os.Getenv("NOINLINE") != "" {
				return false
			}
			if strings.Contains(c.Pkg.Pkg.Path(), "/internal/") && load.IsModule(c.Pkg.Pkg.Path()) {
				return true
			}
			return !o.Exported() && load.IsLib(c.Pkg.Pkg.Path())
		}
		ls, err := ir.Leaves(fn, ir.LeafOptions{Forward: true, Effects: true, MaxPaths: 100000, Inline: inl})
		if err != nil {
			fmt.Println("loop-free enumeration failed:", err, "-- cutting loops")
			ls, err = ir.Leaves(fn, ir.LeafOptions{Forward: true, Effects: true, MaxPaths: 100000, Inline: inl, CutLoops: true})
		}
		if err != nil {
			fmt.Println("error:", err)
			return
		}
		for i, l := range ls {
			fmt.Printf("leaf %d  (return at %s)\n", i, p.Pos(l.Pos))
			for _, c := range l.Cuts {
				fmt.Printf("   cut at header block %d after %d guards, %d effects\n", c.Header.Index, c.NG, c.NE)
			}
			for _, g := range l.Guards {
				fmt.Println("   guard ", g.Pretty())
			}
			if l.End != nil {
				fmt.Printf("   ARRIVES at header block %d (back edge: %v)\n", l.End.Header.Index, l.End.Back)
				for ph, t := range l.End.State {
					fmt.Printf("      %s := %s\n", ir.PhiVar(ph).Pretty(), t.Pretty())
				}
			}
			for _, e := range l.Effects {
				switch e.Kind {
				case "store":
					fmt.Println("   store ", e.Addr.Pretty(), "<-", e.Val.Pretty())
				case "map-update":
					fmt.Println("   mapupd", e.Addr.Pretty(), "[", e.Key.Pretty(), "] <-", e.Val.Pretty())
				default:
					fmt.Println("   call  ", e.Val.Pretty())
				}
			}
			for _, r := range l.Ret {
				fmt.Println("   ret   ", r.Pretty())
			}
		}
	}
}
