package ir

import (
	"golang.org/x/tools/go/ssa"
)

// DomConds returns the branch conditions (in positive form) that hold on
// every path from the function entry to block b: for each block d on b's
// dominator chain that has a single predecessor ending in an If, the
// condition (or its negation) selecting d. Sound but incomplete: conditions
// established by several converging edges are not reported.
func DomConds(bld *Builder, b *ssa.BasicBlock) []*Term {
	var out []*Term
	for d := b; d != nil; d = d.Idom() {
		if len(d.Preds) != 1 {
			continue
		}
		p := d.Preds[0]
		iff, ok := p.Instrs[len(p.Instrs)-1].(*ssa.If)
		if !ok {
			continue
		}
		if p.Succs[0] == p.Succs[1] {
			continue
		}
		c := bld.Term(iff.Cond)
		if p.Succs[1] == d {
			c = NotCond(c)
		}
		out = append(out, c)
	}
	return out
}

// Dominates reports whether a dominates b.
func Dominates(a, b *ssa.BasicBlock) bool { return a.Dominates(b) }

// HasCond reports whether the condition set contains g.
func HasCond(conds []*Term, g *Term) bool {
	k := g.Key()
	for _, c := range conds {
		if c.Key() == k {
			return true
		}
	}
	return false
}
