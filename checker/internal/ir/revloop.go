package ir

import (
	"go/token"
	"go/types"

	"golang.org/x/tools/go/ssa"
)

// A reverse look-up loop is the idiom
//
//	for k, v := range M { if v == X { ... return/leave with k ... } }
//
// over a map M, X computed outside the loop, the body doing nothing but the comparison. When it sits inside a
// larger function (a look-up helper inlined by hand), the path enumerator does not walk it as a loop: it forks
// into "some entry has the value X" - continuing where the match leads, k standing for rev(M, X), the key of
// that entry - and "no entry has it", continuing after the loop. Which entry is found first only matters when two
// entries carry the same value; the rules that read rev(M, X) evaluate it on the literal table and reject a
// table in which that happens.
type revLoop struct {
	header, body, match, done *ssa.BasicBlock
	next                      *ssa.Next
	m, x                      ssa.Value
	key, val                  *ssa.Extract // the extracts of k and v in the body (either may be nil)
}

func revLoopAt(h *ssa.BasicBlock) *revLoop {
	if len(h.Instrs) < 3 || len(h.Succs) != 2 {
		return nil
	}
	var nx *ssa.Next
	var okx *ssa.Extract
	for _, in := range h.Instrs[:len(h.Instrs)-1] {
		switch x := in.(type) {
		case *ssa.Next:
			if nx != nil {
				return nil
			}
			nx = x
		case *ssa.Extract:
			if nx == nil || x.Tuple != ssa.Value(nx) || x.Index != 0 || okx != nil {
				return nil
			}
			okx = x
		case *ssa.DebugRef:
		default:
			return nil
		}
	}
	iff, isIf := h.Instrs[len(h.Instrs)-1].(*ssa.If)
	if nx == nil || okx == nil || !isIf || iff.Cond != ssa.Value(okx) || nx.IsString {
		return nil
	}
	rg, ok := nx.Iter.(*ssa.Range)
	if !ok {
		return nil
	}
	if _, isMap := rg.X.Type().Underlying().(*types.Map); !isMap {
		return nil
	}
	lp := &revLoop{header: h, body: h.Succs[0], done: h.Succs[1], next: nx, m: rg.X}
	if len(lp.body.Preds) != 1 || len(lp.body.Succs) != 2 {
		return nil
	}
	var cmp *ssa.BinOp
	invariant := map[ssa.Value]bool{}
	for _, in := range lp.body.Instrs[:len(lp.body.Instrs)-1] {
		switch x := in.(type) {
		case *ssa.Extract:
			if x.Tuple != ssa.Value(nx) {
				return nil
			}
			switch x.Index {
			case 1:
				lp.key = x
			case 2:
				lp.val = x
			default:
				return nil
			}
		case *ssa.BinOp:
			if x.Op != token.EQL || cmp != nil {
				return nil
			}
			cmp = x
		case *ssa.DebugRef:
		case *ssa.IndexAddr, *ssa.FieldAddr, *ssa.UnOp, *ssa.Index, *ssa.Field, *ssa.ChangeType:
			// a loop-invariant read written inside the loop (v[1] of the split prefix): its operands come from
			// outside the loop or from such reads, never from the iteration
			for _, op := range in.Operands(nil) {
				if *op == nil {
					continue
				}
				if oi, isInstr := (*op).(ssa.Instruction); isInstr && oi.Block() != nil {
					if oi.Block() == lp.body {
						if ex, isEx := (*op).(*ssa.Extract); isEx && ex.Tuple == ssa.Value(nx) {
							return nil
						}
						continue
					}
					if h.Dominates(oi.Block()) {
						return nil
					}
				}
			}
			invariant[in.(ssa.Value)] = true
		default:
			return nil
		}
	}
	bif, isIf := lp.body.Instrs[len(lp.body.Instrs)-1].(*ssa.If)
	if !isIf || cmp == nil || bif.Cond != ssa.Value(cmp) || lp.val == nil {
		return nil
	}
	switch {
	case cmp.X == ssa.Value(lp.val):
		lp.x = cmp.Y
	case cmp.Y == ssa.Value(lp.val):
		lp.x = cmp.X
	default:
		return nil
	}
	if xi, isInstr := lp.x.(ssa.Instruction); isInstr && xi.Block() != nil && h.Dominates(xi.Block()) && !invariant[lp.x] {
		return nil // the value looked for is computed from the iteration
	}
	lp.match = lp.body.Succs[0]
	if lp.body.Succs[1] != h || lp.match == h || len(lp.match.Preds) != 1 {
		return nil
	}
	// the loop has no other way round: the header is reached from before the loop and from the body only
	if len(h.Preds) != 2 {
		return nil
	}
	// nothing of the iteration is used after the loop except through the match block
	for _, v := range []ssa.Value{lp.key, lp.val} {
		if v == nil {
			continue
		}
		ex := v.(*ssa.Extract)
		for _, r := range *ex.Referrers() {
			if r.Block() != lp.body && !lp.match.Dominates(r.Block()) {
				return nil
			}
		}
	}
	return lp
}
