package ir

import (
	"fmt"
	"go/constant"
	"go/token"
	"go/types"
	"os"
	"sort"
	"sync"

	"golang.org/x/tools/go/ssa"
)

// A literal global is an unexported package-level variable that holds a slice, an array or a struct spelled out
// by a composite literal - rows of constants, strings, other such rows and functions without free variables -,
// stored once by the package initialiser and only read afterwards (indexed, ranged over, measured, handed to
// library functions that only read it). A load of such a variable is the literal: the path enumerator binds the
// load to the spelled-out value (a list of struct terms ...), so that a loop over the rows unrolls, a field of a
// row folds to the constant or function written there, and a call through such a function is the static call of
// the literal (expanded in place like an element of a function table, functab.go).
//
// The content is read off the initialiser: the one store  *g = v  and the stores into the allocation v is made of.
// Anything the reading does not understand, and any use of the variable that is not a read, makes the variable an
// ordinary one (its load stays opaque).

var (
	globLitMu   sync.Mutex
	globLitProg *ssa.Program
	globLits    map[*ssa.Global]*globalLit
)

var lastLitWhy string

type globalLit struct {
	val *Term
	fns map[string]*ssa.Function // function literals / declared functions that occur in it, by name
}

// literalOf returns the value of a literal global, or nil.
func literalOf(g *ssa.Global) *globalLit {
	if g.Pkg == nil || token.IsExported(g.Name()) {
		return nil
	}
	switch g.Type().Underlying().(*types.Pointer).Elem().Underlying().(type) {
	case *types.Slice, *types.Array, *types.Struct:
	default:
		return nil
	}
	globLitMu.Lock()
	defer globLitMu.Unlock()
	if globLitProg != g.Pkg.Prog {
		globLitProg, globLits = g.Pkg.Prog, map[*ssa.Global]*globalLit{}
	}
	if l, ok := globLits[g]; ok {
		return l
	}
	l := readLiteral(g)
	if l == nil && debugInline {
		fmt.Fprintf(os.Stderr, "literal global %s: not read (%s)\n", g.Name(), lastLitWhy)
	}
	globLits[g] = l
	return l
}

func readLiteral(g *ssa.Global) *globalLit {
	init := g.Pkg.Func("init")
	if init == nil {
		return nil
	}
	funcTabMu.Lock()
	if funcTabProg != g.Pkg.Prog {
		funcTabProg, funcTabs, progFuncs = g.Pkg.Prog, map[*ssa.Global]*FuncTable{}, nil
	}
	fns := packageFuncs(g.Pkg.Prog)[g.Pkg]
	funcTabMu.Unlock()
	var stored ssa.Value
	for _, fn := range fns {
		for _, blk := range fn.Blocks {
			for _, in := range blk.Instrs {
				uses := false
				for _, op := range in.Operands(nil) {
					if *op == ssa.Value(g) {
						uses = true
					}
				}
				if !uses {
					continue
				}
				switch x := in.(type) {
				case *ssa.Store:
					if x.Addr != ssa.Value(g) || fn != init || stored != nil {
						lastLitWhy = "stored outside the initialiser or twice"
						return nil
					}
					stored = x.Val
				case *ssa.UnOp:
					if x.Op != token.MUL || !readOnly(x, 0, map[ssa.Value]bool{}) {
						lastLitWhy = "a loaded value is not only read, in " + fn.String()
						return nil
					}
				case *ssa.IndexAddr, *ssa.FieldAddr:
					// &g[i], &g.f of an array or struct variable: only loaded from
					if !readOnly(x.(ssa.Value), 0, map[ssa.Value]bool{}) {
						return nil
					}
				case *ssa.DebugRef:
				default:
					lastLitWhy = fmt.Sprintf("used by %T in %s", in, fn.String())
					return nil
				}
			}
		}
	}
	if stored == nil {
		lastLitWhy = "no store in the initialiser"
		return nil
	}
	r := &litReader{init: init, fns: map[string]*ssa.Function{}}
	v := r.value(stored, 0)
	if v == nil {
		lastLitWhy = "the initialiser's value is not a literal the reader understands"
		return nil
	}
	if len(r.fns) == 0 {
		// rows of plain data: the functions that read them stay calls, decided by their summaries over the table
		// model (facts); only a table that carries behaviour - function values - is opened up here
		lastLitWhy = "no function values in the literal"
		return nil
	}
	return &globalLit{val: v, fns: r.fns}
}

// readOnly: the value (a loaded aggregate, or an address into one) is only read: indexed, ranged over, measured,
// compared, its parts loaded, or handed to a function of the same package whose parameter is only read.
func readOnly(v ssa.Value, depth int, seen map[ssa.Value]bool) bool {
	if depth > 6 {
		return false
	}
	if seen[v] {
		return true
	}
	seen[v] = true
	refs := v.Referrers()
	if refs == nil {
		return false
	}
	for _, ref := range *refs {
		switch r := ref.(type) {
		case *ssa.DebugRef:
		case *ssa.Index:
			if r.X != v {
				return false
			}
			if !readOnlyElem(r, depth, seen) {
				return false
			}
		case *ssa.IndexAddr:
			if r.X != v || !readOnly(r, depth+1, seen) {
				return false
			}
		case *ssa.FieldAddr:
			if r.X != v || !readOnly(r, depth+1, seen) {
				return false
			}
		case *ssa.Field:
			if !readOnlyElem(r, depth, seen) {
				return false
			}
		case *ssa.UnOp:
			if r.Op != token.MUL {
				return false
			}
			if !readOnlyElem(r, depth, seen) {
				return false
			}
		case *ssa.Slice:
			if r.X != v || !readOnly(r, depth+1, seen) {
				return false
			}
		case *ssa.Range:
			// the iterator's elements are copies
		case *ssa.Lookup:
			if r.X != v {
				return false
			}
		case *ssa.BinOp:
			if r.Op != token.EQL && r.Op != token.NEQ {
				return false
			}
		case *ssa.Phi:
			if !readOnly(r, depth+1, seen) {
				return false
			}
		case *ssa.Extract:
			if !readOnlyElem(r, depth, seen) {
				return false
			}
		case *ssa.Return:
			// handed back to a caller of the same package: judged there when the caller is itself a reader (the
			// result of a helper that picks a row); conservatively allowed only for unexported functions
			fn := r.Parent()
			if fn == nil || fn.Object() == nil || fn.Object().Exported() {
				return false
			}
		case *ssa.Store:
			// a store into a local copy changes the copy only
			if r.Addr == v {
				if al, isAl := v.(*ssa.Alloc); isAl && !al.Heap {
					continue
				}
				return false
			}
			// a copy into a local variable (a row spilled by the compiler)
			if r.Val != v {
				return false
			}
			al, ok := r.Addr.(*ssa.Alloc)
			if !ok || al.Heap || !readOnly(al, depth+1, seen) {
				return false
			}
		case *ssa.Call:
			if b, ok := r.Call.Value.(*ssa.Builtin); ok {
				if b.Name() != "len" && b.Name() != "cap" {
					return false
				}
				continue
			}
			if r.Call.Value == v {
				continue // an element that is a function, called
			}
			callee := r.Call.StaticCallee()
			if callee == nil {
				return false
			}
			body := callee
			if o := callee.Origin(); o != nil {
				body = o
			}
			if FuncPackage(body) == nil || len(body.Blocks) == 0 || len(body.Params) != len(r.Call.Args) {
				return false
			}
			for i, a := range r.Call.Args {
				if a == v && !readOnly(body.Params[i], depth+1, seen) {
					return false
				}
			}
		case *ssa.MakeInterface, *ssa.ChangeType:
			if !readOnly(r.(ssa.Value), depth+1, seen) {
				return false
			}
		default:
			return false
		}
	}
	return true
}

// readOnlyElem: a part taken out of the aggregate by value: when it is itself an aggregate, a pointer or a
// function it must only be read (called) too; a number, string or boolean is a copy.
func readOnlyElem(v ssa.Value, depth int, seen map[ssa.Value]bool) bool {
	switch v.Type().Underlying().(type) {
	case *types.Basic:
		return true
	}
	return readOnly(v, depth+1, seen)
}

type litReader struct {
	init *ssa.Function
	fns  map[string]*ssa.Function
}

// value reads what the initialiser computes for v.
func (r *litReader) value(v ssa.Value, depth int) *Term {
	if depth > 8 {
		return nil
	}
	switch x := v.(type) {
	case *ssa.Const:
		if x.Value == nil {
			return &Term{Op: OConst, Typ: x.Type()}
		}
		return Const(x.Value, x.Type())
	case *ssa.Function, *ssa.MakeClosure:
		fn := tableFunc(v)
		if fn == nil {
			return nil
		}
		r.fns[fn.String()] = fn
		return &Term{Op: OFunc, Str: fn.String(), Obj: fn.Object()}
	case *ssa.ChangeType:
		return r.value(x.X, depth+1)
	case *ssa.MakeInterface:
		return r.value(x.X, depth+1)
	case *ssa.Slice:
		if x.Low != nil || x.High != nil || x.Max != nil {
			return nil
		}
		al, ok := x.X.(*ssa.Alloc)
		if !ok {
			return nil
		}
		return r.content(al, al.Type().Underlying().(*types.Pointer).Elem(), depth+1)
	case *ssa.UnOp:
		if x.Op != token.MUL {
			return nil
		}
		if al, ok := x.X.(*ssa.Alloc); ok {
			return r.content(al, x.Type(), depth+1)
		}
	}
	return nil
}

// content: the value held at addr (an allocation of the initialiser or a part of one) once the initialiser is
// done: what the stores into it put there. Every store must lie in the initialiser and address the location
// through constant indices and fields only.
func (r *litReader) content(addr ssa.Value, t types.Type, depth int) *Term {
	if depth > 10 {
		return nil
	}
	refs := addr.Referrers()
	if refs == nil {
		return nil
	}
	// a whole-value store wins (a row built elsewhere and copied in)
	var whole *ssa.Store
	for _, ref := range *refs {
		if st, ok := ref.(*ssa.Store); ok && st.Addr == addr {
			if whole != nil {
				return nil
			}
			whole = st
		}
	}
	if whole != nil {
		if whole.Parent() != r.init {
			return nil
		}
		return r.value(whole.Val, depth+1)
	}
	switch u := t.Underlying().(type) {
	case *types.Array:
		n := int(u.Len())
		if n > 256 {
			return nil
		}
		elems := make([]*Term, n)
		for _, ref := range *refs {
			ia, ok := ref.(*ssa.IndexAddr)
			if !ok {
				continue
			}
			c, ok := ia.Index.(*ssa.Const)
			if !ok || ia.X != addr {
				return nil
			}
			i := int(c.Int64())
			if i < 0 || i >= n || elems[i] != nil {
				return nil
			}
			elems[i] = r.content(ia, u.Elem(), depth+1)
			if elems[i] == nil {
				return nil
			}
		}
		for i := range elems {
			if elems[i] == nil {
				z := zeroTerm(u.Elem())
				if z == nil {
					return nil
				}
				elems[i] = z
			}
		}
		return &Term{Op: "list", Args: elems}
	case *types.Struct:
		args := make([]*Term, u.NumFields())
		for _, ref := range *refs {
			fa, ok := ref.(*ssa.FieldAddr)
			if !ok {
				continue
			}
			if fa.X != addr || args[fa.Field] != nil {
				return nil
			}
			args[fa.Field] = r.content(fa, u.Field(fa.Field).Type(), depth+1)
			if args[fa.Field] == nil {
				return nil
			}
		}
		for i := range args {
			if args[i] == nil {
				z := zeroTerm(u.Field(i).Type())
				if z == nil {
					return nil
				}
				args[i] = z
			}
		}
		return &Term{Op: "struct", Typ: t, Args: args}
	}
	return nil
}

// zeroTerm: the zero value of a type as a term (what a literal leaves out).
func zeroTerm(t types.Type) *Term {
	switch u := t.Underlying().(type) {
	case *types.Basic:
		switch {
		case u.Info()&types.IsString != 0, u.Info()&types.IsBoolean != 0, u.Info()&types.IsNumeric != 0:
			c := zeroConst(u)
			if c == nil {
				return nil
			}
			return Const(c, t)
		}
	case *types.Pointer, *types.Signature, *types.Slice, *types.Map, *types.Interface:
		return &Term{Op: OConst, Typ: t}
	case *types.Struct:
		args := make([]*Term, u.NumFields())
		for i := range args {
			if args[i] = zeroTerm(u.Field(i).Type()); args[i] == nil {
				return nil
			}
		}
		return &Term{Op: "struct", Typ: t, Args: args}
	}
	return nil
}

func zeroConst(u *types.Basic) constant.Value {
	switch {
	case u.Info()&types.IsString != 0:
		return constant.MakeString("")
	case u.Info()&types.IsBoolean != 0:
		return constant.MakeBool(false)
	case u.Info()&types.IsInteger != 0:
		return constant.MakeInt64(0)
	case u.Info()&types.IsFloat != 0:
		return constant.MakeFloat64(0)
	}
	return nil
}

// LiteralHolders: for a function literal that occurs in a literal global, the functions that can call it. A
// function value can only be called by code that holds it: the candidates are the functions of the package in
// which some value has a type containing a function type of the literal's shape (type parameters standing for
// anything) - the code that loads the table, and the helpers a row or its function is handed to. ok is false
// when fn is not such a literal.
func LiteralHolders(fn *ssa.Function) (holders []*ssa.Function, ok bool) {
	if !isTableLiteral(fn) {
		return nil, false
	}
	pkg := fn.Parent().Pkg
	found := false
	for _, m := range pkg.Members {
		g, isG := m.(*ssa.Global)
		if !isG {
			continue
		}
		if lit := literalOf(g); lit != nil && lit.fns[fn.String()] == fn {
			found = true
		}
	}
	if !found {
		return nil, false
	}
	funcTabMu.Lock()
	if funcTabProg != pkg.Prog {
		funcTabProg, funcTabs, progFuncs = pkg.Prog, map[*ssa.Global]*FuncTable{}, nil
	}
	fns := packageFuncs(pkg.Prog)[pkg]
	funcTabMu.Unlock()
	sig := fn.Signature
	for _, f := range fns {
		if f == fn.Parent() || isTableLiteral(f) {
			continue
		}
		switch {
		case f.TypeParams().Len() > 0 && len(f.TypeArgs()) == 0:
			// the body of a generic function: which functions it can be handed is decided per instance
			continue
		case f.Origin() != nil && f.Origin() != f:
			// an instance: it holds the function when its (instantiated) parameters can carry it
			for _, p := range f.Params {
				if typeHoldsShape(p.Type(), sig, map[types.Type]bool{}, 0) {
					holders = append(holders, f)
					break
				}
			}
		default:
			if holdsFuncOfShape(f, sig) {
				holders = append(holders, f)
			}
		}
	}
	sort.Slice(holders, func(i, j int) bool { return holders[i].String() < holders[j].String() })
	return holders, true
}

func holdsFuncOfShape(f *ssa.Function, sig *types.Signature) bool {
	// a value that is itself a function of the shape (a row that merely travels through f is not one: whoever
	// takes the function out of the row is a holder in its own right)
	check := func(t types.Type) bool {
		if t == nil {
			return false
		}
		if p, ok := t.Underlying().(*types.Pointer); ok {
			t = p.Elem() // the address of a function-typed field or variable
		}
		u, ok := t.Underlying().(*types.Signature)
		return ok && sameShape(u, sig)
	}
	for _, p := range f.Params {
		if check(p.Type()) {
			return true
		}
	}
	for _, fv := range f.FreeVars {
		if check(fv.Type()) {
			return true
		}
	}
	for _, b := range f.Blocks {
		for _, in := range b.Instrs {
			if v, isV := in.(ssa.Value); isV && check(v.Type()) {
				return true
			}
			// a row handed to code outside the package, or boxed into an interface, may be taken apart anywhere
			switch x := in.(type) {
			case *ssa.MakeInterface:
				if typeHoldsShape(x.X.Type(), sig, map[types.Type]bool{}, 0) {
					return true
				}
			}
		}
	}
	return false
}

func typeHoldsShape(t types.Type, sig *types.Signature, seen map[types.Type]bool, depth int) bool {
	if t == nil || depth > 8 || seen[t] {
		return false
	}
	seen[t] = true
	defer delete(seen, t)
	switch u := t.(type) {
	case *types.Named:
		return typeHoldsShape(u.Underlying(), sig, seen, depth+1)
	case *types.Alias:
		return typeHoldsShape(types.Unalias(u), sig, seen, depth+1)
	case *types.Signature:
		return sameShape(u, sig)
	case *types.Pointer:
		return typeHoldsShape(u.Elem(), sig, seen, depth+1)
	case *types.Slice:
		return typeHoldsShape(u.Elem(), sig, seen, depth+1)
	case *types.Array:
		return typeHoldsShape(u.Elem(), sig, seen, depth+1)
	case *types.Map:
		return typeHoldsShape(u.Elem(), sig, seen, depth+1) || typeHoldsShape(u.Key(), sig, seen, depth+1)
	case *types.Struct:
		for i := 0; i < u.NumFields(); i++ {
			if typeHoldsShape(u.Field(i).Type(), sig, seen, depth+1) {
				return true
			}
		}
	case *types.Tuple:
		for i := 0; i < u.Len(); i++ {
			if typeHoldsShape(u.At(i).Type(), sig, seen, depth+1) {
				return true
			}
		}
	case *types.Interface:
		return u.NumMethods() == 0 // any value may sit in an empty interface... only the empty one is that wide
	}
	return false
}

// sameShape: two function types agree up to type parameters (a type parameter, or a type that mentions one, on
// either side matches anything).
func sameShape(a, b *types.Signature) bool {
	if a.Params().Len() != b.Params().Len() || a.Results().Len() != b.Results().Len() || a.Variadic() != b.Variadic() {
		return false
	}
	for i := 0; i < a.Params().Len(); i++ {
		if !shapeEq(a.Params().At(i).Type(), b.Params().At(i).Type()) {
			return false
		}
	}
	for i := 0; i < a.Results().Len(); i++ {
		if !shapeEq(a.Results().At(i).Type(), b.Results().At(i).Type()) {
			return false
		}
	}
	return true
}

func shapeEq(a, b types.Type) bool {
	return types.Identical(a, b)
}

func mentionsTypeParam(t types.Type, depth int) bool {
	if depth > 6 {
		return false
	}
	switch u := t.(type) {
	case *types.TypeParam:
		return true
	case *types.Pointer:
		return mentionsTypeParam(u.Elem(), depth+1)
	case *types.Slice:
		return mentionsTypeParam(u.Elem(), depth+1)
	case *types.Array:
		return mentionsTypeParam(u.Elem(), depth+1)
	case *types.Map:
		return mentionsTypeParam(u.Key(), depth+1) || mentionsTypeParam(u.Elem(), depth+1)
	case *types.Named:
		if ta := u.TypeArgs(); ta != nil {
			for i := 0; i < ta.Len(); i++ {
				if mentionsTypeParam(ta.At(i), depth+1) {
					return true
				}
			}
		}
	}
	return false
}

// GlobalSliceLen: the length of an unexported package-level slice variable that is assigned exactly once, in the
// package initialiser, a composite literal (a slice of a freshly allocated array), and whose address is used for
// nothing but loads: no function of the package (no other package can name it) can give it another length.
func GlobalSliceLen(g *ssa.Global) (int64, bool) {
	if g.Pkg == nil || token.IsExported(g.Name()) {
		return 0, false
	}
	if _, ok := g.Type().Underlying().(*types.Pointer).Elem().Underlying().(*types.Slice); !ok {
		return 0, false
	}
	init := g.Pkg.Func("init")
	if init == nil {
		return 0, false
	}
	funcTabMu.Lock()
	if funcTabProg != g.Pkg.Prog {
		funcTabProg, funcTabs, progFuncs = g.Pkg.Prog, map[*ssa.Global]*FuncTable{}, nil
	}
	fns := packageFuncs(g.Pkg.Prog)[g.Pkg]
	funcTabMu.Unlock()
	var stored ssa.Value
	for _, fn := range fns {
		for _, blk := range fn.Blocks {
			for _, in := range blk.Instrs {
				uses := false
				for _, op := range in.Operands(nil) {
					if *op == ssa.Value(g) {
						uses = true
					}
				}
				if !uses {
					continue
				}
				switch x := in.(type) {
				case *ssa.Store:
					if x.Addr != ssa.Value(g) || fn != init || stored != nil {
						return 0, false
					}
					stored = x.Val
				case *ssa.UnOp:
					if x.Op != token.MUL {
						return 0, false
					}
				case *ssa.DebugRef:
				default:
					return 0, false
				}
			}
		}
	}
	for {
		ct, ok := stored.(*ssa.ChangeType)
		if !ok {
			break
		}
		stored = ct.X
	}
	sl, ok := stored.(*ssa.Slice)
	if !ok || sl.Low != nil || sl.High != nil || sl.Max != nil {
		return 0, false
	}
	al, ok := sl.X.(*ssa.Alloc)
	if !ok {
		return 0, false
	}
	arr, ok := al.Type().Underlying().(*types.Pointer).Elem().Underlying().(*types.Array)
	if !ok {
		return 0, false
	}
	return arr.Len(), true
}
