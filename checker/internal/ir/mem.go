package ir

import (
	"go/constant"
	"go/token"
	"go/types"

	"golang.org/x/tools/go/ssa"
)

// Path-sensitive model of local memory.
//
// A local allocation whose address never leaves the function (it is only
// dereferenced, indexed, field-selected, sliced for indexing/len, or stored
// INTO) can only be changed by the function's own stores. Along one path the
// enumerator therefore knows the content of every such location that has been
// stored: a load yields the term last stored there. This is what lets a
// table-driven loop over a literal (for _, e := range []T{{...}, ...}) unroll
// into the same terms as the hand-written sequence.

type memEntry struct {
	loc *Term
	val *Term // nil: content unknown (a store through a non-constant index happened)
}

type localMem map[string]memEntry

func (m localMem) clone() localMem {
	n := make(localMem, len(m)+4)
	for k, v := range m {
		n[k] = v
	}
	return n
}

// locBase returns the location a field/element location is part of.
func locBase(loc *Term) *Term {
	if (loc.Op == OField || loc.Op == OIndex) && len(loc.Args) > 0 && loc.Args[0].Op == OAddr {
		return loc.Args[0].Args[0]
	}
	return nil
}

func under(loc *Term, rootKey string) bool {
	for l := loc; l != nil; l = locBase(l) {
		if l.Key() == rootKey {
			return true
		}
	}
	return false
}

func constIndexed(loc *Term) bool {
	for l := loc; l != nil; l = locBase(l) {
		if l.Op == OIndex && !isIntConst(l.Args[1]) {
			return false
		}
	}
	return true
}

func rootLoc(loc *Term) *Term {
	for {
		b := locBase(loc)
		if b == nil {
			return loc
		}
		loc = b
	}
}

// store returns the memory after  *loc = val.
func (m localMem) store(loc, val *Term) localMem {
	n := m.clone()
	if !constIndexed(loc) {
		// the cell written is not known: everything under the root becomes unknown
		r := rootLoc(loc)
		rk := r.Key()
		for k, e := range n {
			if under(e.loc, rk) {
				delete(n, k)
			}
		}
		n[rk] = memEntry{loc: r}
		return n
	}
	k := loc.Key()
	for ek, e := range n {
		if ek != k && under(e.loc, k) {
			delete(n, ek)
		}
	}
	if val != nil && val.Op == "struct" {
		// a structure value is kept per field
		delete(n, k)
		if st, ok := val.Typ.Underlying().(*types.Struct); ok && st.NumFields() == len(val.Args) {
			for i := 0; i < st.NumFields(); i++ {
				n = n.store(Field(&Term{Op: OAddr, Args: []*Term{loc}}, st.Field(i)), val.Args[i])
			}
			return n
		}
	}
	n[k] = memEntry{loc: loc, val: val}
	return n
}

// fresh returns the memory after (re-)executing the allocation of root.
func (m localMem) fresh(root *Term) localMem {
	rk := root.Key()
	var n localMem
	for k, e := range m {
		if under(e.loc, rk) {
			if n == nil {
				n = m.clone()
			}
			delete(n, k)
		}
	}
	if n == nil {
		return m
	}
	return n
}

// load returns the term stored at loc, or nil when the path has not stored it (or its content is unknown).
func (m localMem) load(loc *Term, typ types.Type) *Term {
	if !constIndexed(loc) {
		return nil
	}
	if e, ok := m[loc.Key()]; ok {
		return e.val
	}
	// part of a stored aggregate
	if b := locBase(loc); b != nil {
		if e, ok := m[b.Key()]; ok {
			if e.val == nil {
				return nil
			}
			return project(e.val, loc)
		}
		if bv := m.load(b, nil); bv != nil {
			return project(bv, loc)
		}
		// an unknown root hides everything below it
		if e, ok := m[rootLoc(loc).Key()]; ok && e.val == nil {
			return nil
		}
	}
	// an array whose cells were stored one by one (a ranged array literal is loaded as a whole)
	if typ != nil {
		if arr, ok := typ.Underlying().(*types.Array); ok && arr.Len() <= 64 {
			elems := make([]*Term, arr.Len())
			for i := range elems {
				el := &Term{Op: OIndex, Args: []*Term{{Op: OAddr, Args: []*Term{loc}}, Const(constant.MakeInt64(int64(i)), types.Typ[types.Int])}}
				v := m.load(el, arr.Elem())
				if v == nil {
					return nil
				}
				elems[i] = v
			}
			return &Term{Op: "list", Args: elems}
		}
	}
	// an aggregate whose fields were stored one by one
	if typ != nil {
		if st, ok := typ.Underlying().(*types.Struct); ok {
			args := make([]*Term, st.NumFields())
			any := false
			for i := 0; i < st.NumFields(); i++ {
				fl := Field(&Term{Op: OAddr, Args: []*Term{loc}}, st.Field(i))
				if v := m.load(fl, st.Field(i).Type()); v != nil {
					args[i] = v
					any = true
				} else {
					args[i] = fl
				}
			}
			if any {
				return &Term{Op: "struct", Typ: typ, Args: args}
			}
		}
	}
	return nil
}

// project selects the part of an aggregate value that the sub-location loc (a field or element of the aggregate's location) denotes.
func project(v *Term, loc *Term) *Term {
	switch loc.Op {
	case OField:
		return FieldOf(v, loc.Obj.(*types.Var))
	case OIndex:
		return indexTerm(v, loc.Args[1])
	}
	return nil
}

// FieldOf is the field f of the structure value v.
func FieldOf(v *Term, f *types.Var) *Term {
	if v.Op == "struct" && v.Typ != nil {
		if st, ok := v.Typ.Underlying().(*types.Struct); ok && st.NumFields() == len(v.Args) {
			for i := 0; i < st.NumFields(); i++ {
				// (a generic helper names the field of the generic struct, the literal's type is an instance of it)
				if st.Field(i) == f || st.Field(i).Origin() == f.Origin() {
					return v.Args[i]
				}
			}
		}
	}
	return Field(v, f)
}

// baseAlloc is the local allocation an address is computed from by field selection and indexing only.
func baseAlloc(v ssa.Value) *ssa.Alloc {
	for {
		switch x := v.(type) {
		case *ssa.Alloc:
			return x
		case *ssa.FieldAddr:
			v = x.X
		case *ssa.IndexAddr:
			if _, ok := x.X.Type().Underlying().(*types.Pointer); !ok {
				return nil // indexing a slice: the backing store is identified through the slice value
			}
			v = x.X
		default:
			return nil
		}
	}
}

// private reports whether the address v (an allocation or an address derived
// from one) is used only to load, to store into, to select fields/elements,
// or to be sliced for indexing and len/cap: nothing outside the function's own
// stores can then change the memory.
func private(v ssa.Value, cache map[ssa.Value]bool) bool {
	if r, ok := cache[v]; ok {
		return r
	}
	cache[v] = false // cycles (φ) are not private
	refs := v.Referrers()
	if refs == nil {
		return false
	}
	ok := true
	for _, ref := range *refs {
		switch r := ref.(type) {
		case *ssa.DebugRef:
		case *ssa.FieldAddr:
			ok = ok && r.X == v && private(r, cache)
		case *ssa.IndexAddr:
			ok = ok && r.X == v && private(r, cache)
		case *ssa.UnOp:
			ok = ok && r.Op == token.MUL
		case *ssa.Store:
			ok = ok && r.Addr == v && r.Val != v
		case *ssa.Slice:
			ok = ok && r.X == v && privateSlice(r, cache)
		case *ssa.MakeClosure:
			// captured by a closure that only reads the variable: still written by this function's stores only
			ok = ok && readOnlyCapture(r, v)
		default:
			ok = false
		}
		if !ok {
			break
		}
	}
	cache[v] = ok
	return ok
}

// readOnlyCapture: the closure mc captures the variable at address v and does nothing with it but load it.
func readOnlyCapture(mc *ssa.MakeClosure, v ssa.Value) bool {
	fn, ok := mc.Fn.(*ssa.Function)
	if !ok || len(fn.FreeVars) != len(mc.Bindings) {
		return false
	}
	for i, bd := range mc.Bindings {
		if bd != v {
			continue
		}
		refs := fn.FreeVars[i].Referrers()
		if refs == nil {
			return false
		}
		for _, ref := range *refs {
			switch r := ref.(type) {
			case *ssa.DebugRef:
			case *ssa.UnOp:
				if r.Op != token.MUL {
					return false
				}
			default:
				return false
			}
		}
	}
	return true
}

func privateSlice(s *ssa.Slice, cache map[ssa.Value]bool) bool {
	refs := s.Referrers()
	if refs == nil {
		return false
	}
	for _, ref := range *refs {
		switch r := ref.(type) {
		case *ssa.DebugRef:
		case *ssa.IndexAddr:
			if r.X != ssa.Value(s) || !private(r, cache) {
				return false
			}
		case *ssa.Call:
			if bi, ok := r.Call.Value.(*ssa.Builtin); ok {
				if bi.Name() != "len" && bi.Name() != "cap" {
					return false
				}
				continue
			}
			// handed to a function of the program that only reads the elements (a table of rows passed to a helper that
			// loops over it): the cells are still written by this function's stores only
			callee := r.Call.StaticCallee()
			if callee == nil || len(callee.Blocks) == 0 || r.Call.IsInvoke() || len(callee.Params) != len(r.Call.Args) {
				return false
			}
			for i, a := range r.Call.Args {
				if a == ssa.Value(s) && !readOnlySliceParam(callee.Params[i], 0) {
					return false
				}
			}
		default:
			return false
		}
	}
	return true
}

// readOnlySliceParam: the function does nothing with its slice parameter p but take its length and load elements
// (or fields of elements) at an index, or hand it on to a function that does the same.
func readOnlySliceParam(p ssa.Value, depth int) bool {
	if depth > 3 {
		return false
	}
	refs := p.Referrers()
	if refs == nil {
		return false
	}
	var loadsOnly func(v ssa.Value) bool
	loadsOnly = func(v ssa.Value) bool {
		rs := v.Referrers()
		if rs == nil {
			return false
		}
		for _, ref := range *rs {
			switch r := ref.(type) {
			case *ssa.DebugRef:
			case *ssa.UnOp:
				if r.Op != token.MUL {
					return false
				}
			case *ssa.FieldAddr:
				if r.X != v || !loadsOnly(r) {
					return false
				}
			default:
				return false
			}
		}
		return true
	}
	for _, ref := range *refs {
		switch r := ref.(type) {
		case *ssa.DebugRef:
		case *ssa.IndexAddr:
			if r.X != p || !loadsOnly(r) {
				return false
			}
		case *ssa.Call:
			if bi, ok := r.Call.Value.(*ssa.Builtin); ok {
				if bi.Name() != "len" && bi.Name() != "cap" {
					return false
				}
				continue
			}
			callee := r.Call.StaticCallee()
			if callee == nil || len(callee.Blocks) == 0 || r.Call.IsInvoke() || len(callee.Params) != len(r.Call.Args) {
				return false
			}
			for i, a := range r.Call.Args {
				if a == p && !readOnlySliceParam(callee.Params[i], depth+1) {
					return false
				}
			}
		default:
			return false
		}
	}
	return true
}

// sliceLiteral: x = arr[:] of a private local array all of whose stores
// precede x in x's own block (the compiler's encoding of a slice literal);
// the result is the list of the cells' contents on this path.
func sliceLiteral(x *ssa.Slice, b *Builder, mem localMem, priv map[ssa.Value]bool) *Term {
	al, ok := x.X.(*ssa.Alloc)
	if !ok || x.Low != nil || x.High != nil || x.Max != nil || len(mem) == 0 || !private(al, priv) {
		return nil
	}
	arr, ok := al.Type().Underlying().(*types.Pointer).Elem().Underlying().(*types.Array)
	if !ok || arr.Len() > 64 {
		return nil
	}
	seen := false
	for _, blk := range x.Parent().Blocks {
		for _, in := range blk.Instrs {
			if in == ssa.Instruction(x) {
				seen = true
			}
			if st, ok := in.(*ssa.Store); ok && baseAlloc(st.Addr) == al {
				if blk != x.Block() || seen {
					return nil
				}
			}
		}
	}
	base := b.Term(al)
	elems := make([]*Term, arr.Len())
	for i := range elems {
		loc := indexTerm(base, Const(constant.MakeInt64(int64(i)), types.Typ[types.Int]))
		v := mem.load(loc, arr.Elem())
		if v == nil {
			return nil
		}
		elems[i] = v
	}
	return &Term{Op: "list", Args: elems}
}

// Path-sensitive content of non-local memory.
//
// A field of the receiver (or a map cell) that the function stores on a path
// holds the stored value for a later load on the same path - until something
// that may write it happens: a call of a function not known to be free of
// writes, a store to the same field through another base (which may alias), the
// symbolic re-entry of a loop. Without this, the load after the store would
// denote the same term as a load before it, and two tests of "the same"
// location at different times could wrongly be taken for contradictory.

type heapEntry struct {
	loc *Term
	val *Term
}

type heapMem map[string]heapEntry

func (h heapMem) clone() heapMem {
	n := make(heapMem, len(h)+2)
	for k, v := range h {
		n[k] = v
	}
	return n
}

// store records *loc = val and forgets whatever may alias loc.
func (h heapMem) store(loc, val *Term) heapMem {
	n := heapMem{}
	k := loc.Key()
	for ek, e := range h {
		if ek == k {
			continue
		}
		// a different field cannot alias; the same field of another base term may (two ways to the same object)
		if loc.Op == OField && e.loc.Op == OField && e.loc.Obj != loc.Obj {
			n[ek] = e
			continue
		}
		if loc.Op == OField && e.loc.Op == OLookup {
			n[ek] = e // a map cell is not a struct field
			continue
		}
	}
	n[k] = heapEntry{loc: loc, val: val}
	return n
}

// storeCell records m[key] = val.
func (h heapMem) storeCell(m, key, val *Term) heapMem {
	n := heapMem{}
	cell := &Term{Op: OLookup, Args: []*Term{m, key}}
	for ek, e := range h {
		if e.loc.Op == OLookup {
			continue // another cell of a map that may be the same map
		}
		n[ek] = e
	}
	n[cell.Key()] = heapEntry{loc: cell, val: val}
	return n
}

func (h heapMem) load(loc *Term) *Term {
	if e, ok := h[loc.Key()]; ok {
		return e.val
	}
	return nil
}

// keepsHeap: a call of this function cannot write memory the caller reads afterwards (string, number and error
// helpers of the standard library and of github.com/goark/errs).
func keepsHeap(callee *ssa.Function) bool {
	if callee == nil || callee.Pkg == nil {
		return false
	}
	switch callee.Pkg.Pkg.Path() {
	case "strings", "strconv", "math", "errors", "unicode", "unicode/utf8", "github.com/goark/errs":
		return callee.Signature.Recv() == nil
	case "fmt":
		switch callee.Name() {
		case "Sprintf", "Sprint", "Sprintln", "Errorf":
			return true
		}
	}
	return false
}
