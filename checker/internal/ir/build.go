package ir

import (
	"fmt"
	"go/constant"
	"go/token"
	"go/types"
	"os"
	"strings"

	"golang.org/x/tools/go/ssa"
)

// Builder converts SSA values of one function into terms.
type Builder struct {
	Fn *ssa.Function
	// PhiChoice resolves φ-nodes along one path (set by the path enumerator).
	PhiChoice map[*ssa.Phi]ssa.Value
	// Forward enables block-local store-to-load forwarding: a load from an
	// address whose most recent store in the same basic block (with no
	// intervening call that could write module memory) is visible yields the
	// stored value.
	Forward bool
	// InlineOK says which static callees are to be represented as OInline nodes
	// (expanded later by ExpandInline).
	InlineOK func(*ssa.Function) bool
	// Bind gives values (calls expanded in place by the path enumerator) their term.
	Bind map[ssa.Value]*Term
	// IDOff shifts the identifiers of local allocations / unresolved values (context-sensitive inlining).
	IDOff  int
	memo   map[ssa.Value]*Term
	allocN map[ssa.Value]int
	busy   map[ssa.Value]bool
}

func NewBuilder(fn *ssa.Function) *Builder {
	return &Builder{Fn: fn, memo: map[ssa.Value]*Term{}, allocN: map[ssa.Value]int{}, busy: map[ssa.Value]bool{}}
}

// Reset forgets memoised terms (needed when PhiChoice changes).
func (b *Builder) Reset() { b.memo = map[ssa.Value]*Term{} }

// id gives a value a number that is stable across Builder instances of the
// same function: the numeric part of its SSA register name (t17 -> 17).
func (b *Builder) id(v ssa.Value) int {
	if n, ok := b.allocN[v]; ok {
		return n + b.IDOff
	}
	n := regID(v)
	if n == 0 {
		n = 100000 + len(b.allocN)
	}
	b.allocN[v] = n
	return n + b.IDOff
}

// regID: the numeric part of an SSA register name plus one (t17 -> 18), 0 if the value has no such name.
func regID(v ssa.Value) int {
	n := 0
	name := v.Name()
	if len(name) > 1 && name[0] == 't' {
		for _, c := range name[1:] {
			if c < '0' || c > '9' {
				return 0
			}
			n = n*10 + int(c-'0')
		}
		n++
	}
	return n
}

func paramIndex(p *ssa.Parameter) int {
	for i, q := range p.Parent().Params {
		if q == p {
			return i
		}
	}
	return -1
}

func fieldVar(x *ssa.FieldAddr) *types.Var {
	st := x.X.Type().Underlying().(*types.Pointer).Elem().Underlying().(*types.Struct)
	return st.Field(x.Field)
}

// Term returns the canonical term of an SSA value.
func (b *Builder) Term(v ssa.Value) *Term {
	if b.Bind != nil {
		if t, ok := b.Bind[v]; ok {
			return t
		}
	}
	if t, ok := b.memo[v]; ok {
		return t
	}
	if b.busy[v] {
		return &Term{Op: OOpaque, Str: "cycle", N: b.id(v)}
	}
	b.busy[v] = true
	t := b.term(v)
	delete(b.busy, v)
	if t.Pos == token.NoPos {
		t.Pos = v.Pos()
	}
	b.memo[v] = t
	return t
}

// Addr returns the term of the location an address value denotes (the term a
// load from it would produce, ignoring intervening stores).
func (b *Builder) Addr(v ssa.Value) *Term {
	switch x := v.(type) {
	case *ssa.FieldAddr:
		return Field(b.Term(x.X), fieldVar(x))
	case *ssa.IndexAddr:
		return indexTerm(b.Term(x.X), b.Term(x.Index))
	case *ssa.Global:
		return &Term{Op: OGlobal, Obj: x.Object()}
	case *ssa.Alloc:
		return &Term{Op: OAlloc, N: b.id(x)}
	}
	if t := b.Term(v); t.Op == OAddr && len(t.Args) == 1 {
		return t.Args[0]
	} else {
		return &Term{Op: "deref", Args: []*Term{t}}
	}
}

// indexTerm: an element of a reconstructed element list at a constant index is that element.
func indexTerm(base, idx *Term) *Term {
	if base.Op == OBuiltin && base.Str == "append" && isIntConst(idx) {
		// an element of append(...append(list(...), list(...))..., list(...)), spelled out on the path
		if els, ok := spelledOut(base); ok {
			base = &Term{Op: "list", Args: els}
		}
	}
	if base.Op == "list" && isIntConst(idx) {
		if i, ok := constant.Int64Val(idx.C); ok && i >= 0 && int(i) < len(base.Args) {
			return base.Args[i]
		}
	}
	return &Term{Op: OIndex, Args: []*Term{base, idx}}
}

// spelledOut: the elements of a slice term whose construction is spelled out (see ConstLen).
func spelledOut(t *Term) ([]*Term, bool) {
	switch {
	case t.Op == "list":
		return t.Args, true
	case t.Op == OConst && t.C == nil && t.Typ != nil:
		if _, ok := t.Typ.Underlying().(*types.Slice); ok {
			return nil, true
		}
	case t.Op == OBuiltin && t.Str == "append" && len(t.Args) == 2 && t.Args[1].Op == "list":
		if els, ok := spelledOut(t.Args[0]); ok {
			return append(append([]*Term{}, els...), t.Args[1].Args...), true
		}
	case t.Op == OBuiltin && t.Str == "append" && len(t.Args) == 1:
		return spelledOut(t.Args[0])
	}
	return nil, false
}

func (b *Builder) term(v ssa.Value) *Term {
	switch x := v.(type) {
	case *ssa.Const:
		if x.Value == nil {
			return &Term{Op: OConst, Typ: x.Type()} // nil / zero
		}
		return Const(x.Value, x.Type())
	case *ssa.Parameter:
		return &Term{Op: OParam, N: paramIndex(x), Typ: x.Type()}
	case *ssa.FreeVar:
		return &Term{Op: OFree, Str: x.Name()}
	case *ssa.Global:
		return &Term{Op: OAddr, Args: []*Term{{Op: OGlobal, Obj: x.Object()}}}
	case *ssa.Function:
		return &Term{Op: OFunc, Str: x.String(), Obj: x.Object()}
	case *ssa.Builtin:
		return &Term{Op: OFunc, Str: "builtin " + x.Name()}
	case *ssa.Alloc:
		return &Term{Op: OAddr, Args: []*Term{{Op: OAlloc, N: b.id(x)}}}
	case *ssa.FieldAddr, *ssa.IndexAddr:
		return &Term{Op: OAddr, Args: []*Term{b.Addr(v)}}
	case *ssa.Field:
		st := x.X.Type().Underlying().(*types.Struct)
		return FieldOf(b.Term(x.X), st.Field(x.Field))
	case *ssa.Index:
		return indexTerm(b.Term(x.X), b.Term(x.Index))
	case *ssa.UnOp:
		switch x.Op {
		case token.MUL:
			if b.Forward {
				if sv := b.forwarded(x); sv != nil {
					return b.Term(sv)
				}
			}
			return b.Addr(x.X)
		case token.NOT:
			return NotCond(b.Term(x.X))
		case token.SUB:
			return Neg(b.Term(x.X))
		}
		return &Term{Op: OUn, Str: x.Op.String(), Args: []*Term{b.Term(x.X)}}
	case *ssa.BinOp:
		if x.Op == token.ADD {
			if bt, ok := x.Type().Underlying().(*types.Basic); ok && bt.Info()&types.IsString != 0 {
				return Concat(b.Term(x.X), b.Term(x.Y)) // string concatenation is not commutative
			}
		}
		if x.Op == token.EQL || x.Op == token.NEQ {
			// an interface value made from a value of a concrete type is never nil (a typed nil pointer in an
			// interface included): the comparison with nil is decided by that, not by the value inside
			for _, pr := range [][2]ssa.Value{{x.X, x.Y}, {x.Y, x.X}} {
				if c, ok := pr[1].(*ssa.Const); ok && c.Value == nil && types.IsInterface(pr[0].Type()) {
					if tt := TermType(b.Term(pr[0])); tt != nil && !types.IsInterface(tt) {
						return Const(constant.MakeBool(x.Op == token.NEQ), types.Typ[types.Bool])
					}
				}
			}
		}
		return Bin(x.Op.String(), b.Term(x.X), b.Term(x.Y))
	case *ssa.Phi:
		if b.PhiChoice != nil {
			if c, ok := b.PhiChoice[x]; ok {
				return b.Term(c)
			}
		}
		// unresolved: if all edges agree, use that
		var first *Term
		same := true
		for _, e := range x.Edges {
			t := b.Term(e)
			if first == nil {
				first = t
			} else if first.Key() != t.Key() {
				same = false
			}
		}
		if same && first != nil {
			return first
		}
		return &Term{Op: OPhi, N: b.id(x), Str: x.Comment}
	case *ssa.Call:
		return b.call(x)
	case *ssa.Extract:
		tup := b.Term(x.Tuple)
		if tup.Op == "tuple" && x.Index < len(tup.Args) {
			return tup.Args[x.Index]
		}
		if tup.Op == OLookup && tup.Str == "ok" && x.Index == 0 && len(tup.Args) == 2 {
			// the value part of v, ok := m[k] is m[k]
			return &Term{Op: OLookup, Args: tup.Args, Typ: x.Type()}
		}
		return &Term{Op: OExtract, N: x.Index, Args: []*Term{tup}, Typ: x.Type()}
	case *ssa.Lookup:
		s := ""
		if x.CommaOk {
			s = "ok"
		}
		var et types.Type
		if mt, ok := x.X.Type().Underlying().(*types.Map); ok {
			et = mt.Elem()
		}
		return &Term{Op: OLookup, Str: s, Args: []*Term{b.Term(x.X), b.Term(x.Index)}, Typ: et}
	case *ssa.Slice:
		if lst := b.varargs(x); lst != nil {
			return lst
		}
		args := []*Term{b.Term(x.X)}
		for _, o := range []ssa.Value{x.Low, x.High, x.Max} {
			if o == nil {
				args = append(args, &Term{Op: OConst})
			} else {
				args = append(args, b.Term(o))
			}
		}
		return &Term{Op: OSlice, Args: args}
	case *ssa.ChangeType:
		return b.Term(x.X)
	case *ssa.MakeInterface:
		return b.Term(x.X)
	case *ssa.ChangeInterface:
		return b.Term(x.X)
	case *ssa.Convert:
		return &Term{Op: OConv, Str: types.TypeString(x.Type(), nil), Args: []*Term{b.Term(x.X)}}
	case *ssa.TypeAssert:
		return &Term{Op: OTypeAssert, Str: types.TypeString(x.AssertedType, nil), Args: []*Term{b.Term(x.X)}}
	case *ssa.MakeMap:
		return &Term{Op: OAlloc, Str: "map", N: b.id(x)}
	case *ssa.MakeSlice:
		return &Term{Op: OAlloc, Str: "slice", N: b.id(x)}
	case *ssa.MakeClosure:
		var args []*Term
		for _, bd := range x.Bindings {
			args = append(args, b.Term(bd))
		}
		t := &Term{Op: OClosure, Str: x.Fn.String(), Args: args}
		// a method value x.M: the wrapper only calls M on the bound receiver; remember M, so that a call through
		// the value is the static call (DynCall)
		if fn, ok := x.Fn.(*ssa.Function); ok && strings.HasPrefix(fn.Synthetic, "bound method wrapper") && len(x.Bindings) == 1 {
			for _, blk := range fn.Blocks {
				for _, in := range blk.Instrs {
					if c, ok := in.(*ssa.Call); ok {
						if callee := c.Call.StaticCallee(); callee != nil && callee.Object() != nil {
							t.Obj = callee.Object()
						}
					}
				}
			}
		}
		return t
	case *ssa.Range:
		return &Term{Op: ORange, Args: []*Term{b.Term(x.X)}}
	case *ssa.Next:
		return &Term{Op: ONext, N: b.id(x), Args: []*Term{b.Term(x.Iter)}}
	}
	return &Term{Op: OOpaque, Str: fmt.Sprintf("%T", v), N: b.id(v)}
}

func (b *Builder) call(x *ssa.Call) *Term {
	cc := x.Common()
	var args []*Term
	if cc.IsInvoke() {
		args = append(args, b.Term(cc.Value))
		for _, a := range cc.Args {
			args = append(args, b.Term(a))
		}
		return Invoke(cc.Method, args, x.Pos())
	}
	for _, a := range cc.Args {
		args = append(args, b.Term(a))
	}
	if bi, ok := cc.Value.(*ssa.Builtin); ok {
		if (bi.Name() == "min" || bi.Name() == "max") && len(args) == 2 {
			// builtin min/max and math.Min/math.Max agree on floats except when one operand is NaN and the other
			// the infinity that math.Min/Max short-cuts on (math.Min(NaN, -Inf) = -Inf, min(NaN, -Inf) = NaN); with a
			// finite constant operand the two are the same function
			if bt, ok := x.Type().Underlying().(*types.Basic); ok && bt.Info()&types.IsFloat != 0 {
				if _, ok := isFloatConst(args[0]); ok {
					return FMinMax(bi.Name() == "min", args[0], args[1])
				}
				if _, ok := isFloatConst(args[1]); ok {
					return FMinMax(bi.Name() == "min", args[0], args[1])
				}
			}
		}
		if bi.Name() == "len" && len(args) == 1 {
			// the length of a reconstructed element list (or of appends to one) is a constant
			if n, ok := ConstLen(args[0]); ok {
				return Const(constant.MakeInt64(n), types.Typ[types.Int])
			}
		}
		return &Term{Op: OBuiltin, Str: bi.Name(), Args: args, Pos: x.Pos()}
	}
	callee := cc.StaticCallee()
	if callee == nil {
		return DynCall(b.Term(cc.Value), args, x.Pos())
	}
	if b.InlineOK != nil && b.InlineOK(callee) {
		return &Term{Op: OInline, Str: callee.String(), Obj: callee.Object(), Args: args, Pos: x.Pos(), N: b.id(x)}
	}
	fn, _ := callee.Object().(*types.Func)
	if fn == nil {
		return &Term{Op: "callfn", Str: callee.String(), Args: args, Pos: x.Pos()}
	}
	t := Call(fn, args...)
	t.Pos = x.Pos()
	return t
}

// forwarded implements block-local store-to-load forwarding.
func (b *Builder) forwarded(load *ssa.UnOp) ssa.Value {
	blk := load.Block()
	if blk == nil {
		return nil
	}
	want := b.Addr(load.X).Key()
	idx := -1
	for i, in := range blk.Instrs {
		if in == ssa.Instruction(load) {
			idx = i
			break
		}
	}
	for i := idx - 1; i >= 0; i-- {
		switch in := blk.Instrs[i].(type) {
		case *ssa.Store:
			if b.Addr(in.Addr).Key() == want {
				return in.Val
			}
			// a store to a different, syntactically distinct field/variable does not interfere
			// only when both are field addresses of distinct fields or distinct allocs
			if !distinctLocations(in.Addr, load.X) {
				return nil
			}
		case *ssa.MapUpdate:
			// map updates do not change struct fields
		case ssa.CallInstruction:
			// a call may write the location unless the location is a local alloc that does not escape;
			// be conservative: stop, except for calls whose callee is known not to write (builtins len/cap)
			if bi, ok := in.Common().Value.(*ssa.Builtin); ok {
				switch bi.Name() {
				case "len", "cap":
					continue
				}
			}
			return nil
		}
	}
	return nil
}

func distinctLocations(a, b ssa.Value) bool {
	fa, ok1 := a.(*ssa.FieldAddr)
	fb, ok2 := b.(*ssa.FieldAddr)
	if ok1 && ok2 {
		return fa.Field != fb.Field || !types.Identical(fa.X.Type(), fb.X.Type())
	}
	_, la := a.(*ssa.Alloc)
	_, lb := b.(*ssa.Alloc)
	if la && lb {
		return a != b
	}
	if (la && ok2) || (lb && ok1) {
		return true
	}
	return false
}

// varargs reconstructs the element list of  slice(new [n]T)[:]  whose cells
// are stored once each (the compiler's encoding of a variadic call's arguments).
func (b *Builder) varargs(x *ssa.Slice) *Term {
	al, ok := x.X.(*ssa.Alloc)
	if !ok || x.Low != nil || x.High != nil {
		return nil
	}
	arr, ok := al.Type().Underlying().(*types.Pointer).Elem().Underlying().(*types.Array)
	if !ok {
		return nil
	}
	elems := make([]*Term, arr.Len())
	refs := al.Referrers()
	if refs == nil {
		return nil
	}
	for _, r := range *refs {
		switch ia := r.(type) {
		case *ssa.IndexAddr:
			c, ok := ia.Index.(*ssa.Const)
			if !ok {
				return nil
			}
			i := int(c.Int64())
			if i < 0 || i >= len(elems) {
				return nil
			}
			irefs := ia.Referrers()
			if irefs == nil {
				return nil
			}
			for _, rr := range *irefs {
				st, ok := rr.(*ssa.Store)
				if !ok || st.Addr != ssa.Value(ia) {
					if debugInline {
						fmt.Fprintf(os.Stderr, "varargs: cell referrer %T %v\n", rr, rr)
					}
					return nil
				}
				if elems[i] != nil {
					return nil
				}
				elems[i] = b.Term(st.Val)
			}
		case *ssa.Slice:
		default:
			if debugInline {
				fmt.Fprintf(os.Stderr, "varargs: referrer %T %v\n", r, r)
			}
			return nil
		}
	}
	for _, e := range elems {
		if e == nil {
			return nil
		}
	}
	return &Term{Op: "list", Args: elems}
}
