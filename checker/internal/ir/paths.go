package ir

import (
	"fmt"
	"go/constant"
	"go/token"
	"go/types"
	"os"
	"sort"
	"strings"

	"golang.org/x/tools/go/ssa"
)

// Guard is a branch condition in positive form.
type Guard struct {
	Cond *Term
	Pos  token.Pos
}

// Leaf is one entry→return path of a loop-free function: the conditions
// assumed on the way and the returned terms.
type Leaf struct {
	Guards  []*Term
	Ret     []*Term
	Pos     token.Pos // position of the return
	Effects []Effect  // stores to non-local memory, map updates and calls, in path order (only with LeafOptions.Effects)
	Blocks  []int     // indices of the blocks on the path
	// with LeafOptions.CutLoops:
	Cuts []Cut    // loop headers passed on the way (the loop state was replaced by symbolic variables there)
	End  *LoopEnd // non-nil: the path ends on arriving at a loop header instead of at a return
}

// Cut marks the point of a path where a loop header was entered for the first
// time: the guards and effects before it belong to the code before the loop;
// after it the header's φ-nodes stand for an arbitrary iteration (PhiVar).
type Cut struct {
	Header *ssa.BasicBlock
	NG, NE int // number of guards / effects collected before the cut
}

// LoopEnd describes the arrival at a loop header: from outside the loop (the
// initial state) or over a back edge (the state after one more iteration).
type LoopEnd struct {
	Header *ssa.BasicBlock
	Back   bool
	State  map[*ssa.Phi]*Term // value of each φ of the header on arrival
}

// PhiVar is the symbolic variable that stands for a loop-header φ in an arbitrary iteration.
func PhiVar(p *ssa.Phi) *Term { return &Term{Op: OPhi, N: regID(p), Str: p.Comment} }

// isLoopHeader: the block is the target of a back edge.
func isLoopHeader(b *ssa.BasicBlock) bool {
	for _, p := range b.Preds {
		if b.Dominates(p) {
			return true
		}
	}
	return false
}

// Effect is one side effect or call executed on a path.
type Effect struct {
	Kind string // store | map-update | call
	Addr *Term  // store: location term; map-update: the map
	Key  *Term  // map-update
	Val  *Term  // stored value / call term
	Pos  token.Pos
	NG   int // number of guards assumed when the effect happens
}

// isLocalLoc: the location is (part of) a local allocation.
func isLocalLoc(a *Term) bool {
	for a != nil {
		switch a.Op {
		case OAlloc:
			return true
		case OIndex:
			a = a.Args[0]
			if a.Op == OAddr {
				a = a.Args[0]
			}
		case "deref":
			a = a.Args[0]
			if a.Op == OAddr {
				a = a.Args[0]
			}
		default:
			return false
		}
	}
	return false
}

func (l *Leaf) GuardKeys() []string {
	var ks []string
	for _, g := range l.Guards {
		ks = append(ks, g.Key())
	}
	sort.Strings(ks)
	return ks
}

func (l *Leaf) String() string {
	var gs []string
	for _, g := range l.Guards {
		gs = append(gs, g.Pretty())
	}
	sort.Strings(gs)
	var rs []string
	for _, r := range l.Ret {
		rs = append(rs, r.Pretty())
	}
	return "{" + strings.Join(gs, " & ") + "} -> " + strings.Join(rs, ", ")
}

type LeafOptions struct {
	InlineOK func(*ssa.Function) bool // mark calls as OInline nodes, expanded afterwards by ExpandInline (score terms)
	Inline   func(*ssa.Function) bool // expand calls of these loop-free callees in place while enumerating paths
	Forward  bool
	MaxPaths int
	Effects  bool
	// CutLoops: loops of the function itself are not unrolled but cut at their headers: a path ends when it
	// arrives at a header (Leaf.End), and is continued from the header with the loop state made symbolic, so
	// that one arbitrary iteration and the code after the loop are enumerated under what the code before the
	// loop established (Leaf.Cuts). Callees expanded in place must still be loop-free or unrollable.
	CutLoops bool
	cache    map[*ssa.Function][]*Leaf
	stack    map[*ssa.Function]bool
	site     *int                     // call sites expanded so far (gives inlined locals distinct identifiers)
	funcs    map[string]*ssa.Function // elements of function tables met on a path, by name
}

// Leaves enumerates the entry→return paths of a loop-free function. With
// LeafOptions.Inline, calls of the selected (loop-free) callees are expanded in
// place: the path forks into one continuation per callee path, whose
// conditions and effects are spliced in with the callee's parameters replaced
// by the argument terms, and the call's value is bound to the callee's result.
func Leaves(fn *ssa.Function, opt LeafOptions) ([]*Leaf, error) {
	if opt.cache == nil {
		opt.cache = map[*ssa.Function][]*Leaf{}
		opt.stack = map[*ssa.Function]bool{}
		opt.site = new(int)
		opt.funcs = map[string]*ssa.Function{}
	}
	if opt.CutLoops {
		if fn == nil || len(fn.Blocks) == 0 {
			return nil, fmt.Errorf("function has no body")
		}
		if opt.MaxPaths == 0 {
			opt.MaxPaths = 4096
		}
		opt.stack[fn] = true
		return enumerate(fn, opt, &callCtx{}, true)
	}
	return leaves(fn, opt)
}

var debugInline = os.Getenv("CVSSLINT_DEBUG") != ""

// loopError: the function has a cycle in its control-flow graph.
type loopError struct{ msg string }

func (e *loopError) Error() string { return e.msg }

// callCtx is the calling context of a context-sensitive enumeration: the
// callee's parameters are bound to the argument terms from the start (so that
// len(list(...)) and list(...)[i] fold) and the identifiers of its locals are
// shifted by off.
type callCtx struct {
	args []*Term
	off  int
	// a closure expanded at its call: the terms of the captured variables' addresses and the caller's local memory
	free []*Term
	mem  localMem
}

func leaves(fn *ssa.Function, opt LeafOptions) ([]*Leaf, error) {
	if fn == nil || len(fn.Blocks) == 0 {
		return nil, fmt.Errorf("function has no body")
	}
	if ls, ok := opt.cache[fn]; ok {
		return ls, nil
	}
	if opt.stack[fn] {
		return nil, fmt.Errorf("%s: recursive call chain", fn.String())
	}
	opt.stack[fn] = true
	defer delete(opt.stack, fn)
	if opt.MaxPaths == 0 {
		opt.MaxPaths = 4096
	}
	out, err := enumerate(fn, opt, nil, false)
	if _, isLoop := err.(*loopError); isLoop && opt.Inline != nil {
		// a loop whose trip count is a constant of the function itself (a range over a literal table) unrolls
		out2, err2 := enumerate(fn, opt, &callCtx{}, false)
		if err2 == nil {
			out, err = out2, nil
		} else {
			err = &loopError{fmt.Sprintf("%v (unrolling: %v)", err, err2)}
		}
	}
	if err != nil {
		return nil, err
	}
	opt.cache[fn] = out
	return out, nil
}

// enumerate walks the paths of fn. Without a calling context the function
// must be loop-free. With one, blocks may be revisited: a loop whose trip
// condition folds to a constant under the bound arguments is unrolled (a loop
// whose condition stays symbolic runs into the per-block visit cap, which is an
// error, never a truncation); φ-nodes are then bound to the term of the incoming
// value at the time the edge is taken.
func enumerate(fn *ssa.Function, opt LeafOptions, cx *callCtx, cut bool) ([]*Leaf, error) {
	// deferred calls run after the results are set and may change them (and recover from panics): not modelled
	for _, blk := range fn.Blocks {
		for _, in := range blk.Instrs {
			switch in.(type) {
			case *ssa.Defer, *ssa.RunDefers, *ssa.Go, *ssa.Select, *ssa.Send:
				return nil, fmt.Errorf("%s: %T is outside the path model (deferred calls, goroutines and channel operations are not followed)", fn.String(), in)
			}
		}
	}
	var out []*Leaf
	onPath := map[*ssa.BasicBlock]int{}
	steps := 0
	type state struct {
		phi    map[*ssa.Phi]ssa.Value
		guards []*Term
		eff    []Effect
		blocks []int
		bind   map[ssa.Value]*Term
		mem    localMem
		cuts   []Cut
		bs     bstate
		hp     heapMem
	}
	priv := map[ssa.Value]bool{}
	var err error
	addGuard := func(gs []*Term, g *Term) ([]*Term, bool) {
		if g.Op == OConst && g.C != nil && g.C.Kind() == constant.Bool {
			return gs, constant.BoolVal(g.C)
		}
		ng := NotCond(g).Key()
		gk := g.Key()
		for _, og := range gs {
			if og.Key() == ng {
				return gs, false
			}
			if og.Key() == gk {
				return gs, true
			}
		}
		out := append(append([]*Term{}, gs...), g)
		// k is not a key of a map of booleans: m[k] is false
		if g.Op == OUn && g.Str == "!" && len(g.Args) == 1 {
			if ex := g.Args[0]; ex.Op == OExtract && ex.N == 1 && len(ex.Args) == 1 {
				if lk := ex.Args[0]; lk.Op == OLookup && lk.Str == "ok" && len(lk.Args) == 2 && lk.Typ != nil {
					if bt, ok := lk.Typ.Underlying().(*types.Basic); ok && bt.Info()&types.IsBoolean != 0 {
						val := &Term{Op: OLookup, Args: lk.Args, Typ: lk.Typ}
						if r, keep := addGuardPlain(out, NotCond(val)); keep {
							out = r
						} else {
							return gs, false
						}
					}
				}
			}
		}
		return out, true
	}
	var walk func(blk, pred *ssa.BasicBlock, st state)
	walk = func(blk, pred *ssa.BasicBlock, st state) {
		if err != nil {
			return
		}
		if onPath[blk] > 0 && cx == nil {
			err = &loopError{fmt.Sprintf("%s: loop through block %d: not a loop-free function", fn.String(), blk.Index)}
			return
		}
		steps++
		if onPath[blk] > 40 || steps > 200000 {
			err = fmt.Errorf("%s: loop through block %d does not unroll within the budget", fn.String(), blk.Index)
			return
		}
		if len(out) > opt.MaxPaths {
			err = fmt.Errorf("%s: more than %d paths", fn.String(), opt.MaxPaths)
			return
		}
		if lp := revLoopAt(blk); lp != nil && opt.Forward && pred != lp.body {
			// a reverse look-up loop over a map (revloop.go): not walked, summarised
			rb := NewBuilder(fn)
			rb.Forward = opt.Forward
			rb.InlineOK = opt.InlineOK
			rb.PhiChoice = st.phi
			rb.Bind = st.bind
			if cx != nil {
				rb.IDOff = cx.off
			}
			mt, xt := rb.Term(lp.m), rb.Term(lp.x)
			has := &Term{Op: "revhas", Args: []*Term{mt, xt}}
			if gs, keep := addGuard(st.guards, has); keep {
				nb := make(map[ssa.Value]*Term, len(st.bind)+2)
				for k, v := range st.bind {
					nb[k] = v
				}
				if lp.key != nil {
					nb[lp.key] = &Term{Op: "rev", Args: []*Term{mt, xt}, Typ: lp.key.Type()}
				}
				nb[lp.val] = xt
				ns := st
				ns.guards, ns.bind = gs, nb
				ns.blocks = append(append([]int{}, st.blocks...), blk.Index, lp.body.Index)
				walk(lp.match, lp.body, ns)
			}
			if gs, keep := addGuard(st.guards, NotCond(has)); keep {
				ns := st
				ns.guards = gs
				ns.blocks = append(append([]int{}, st.blocks...), blk.Index)
				walk(lp.done, blk, ns)
			}
			return
		}
		onPath[blk]++
		defer func() { onPath[blk]-- }()
		// resolve φ-nodes by the incoming edge
		phi := st.phi
		if cut && isLoopHeader(blk) {
			// arrival at a loop header: the path ends here; on first arrival it is also continued with symbolic loop state
			arr := &LoopEnd{Header: blk, State: map[*ssa.Phi]*Term{}}
			for _, c := range st.cuts {
				if c.Header == blk {
					arr.Back = true
				}
			}
			pi := -1
			for i, p := range blk.Preds {
				if p == pred {
					pi = i
				}
			}
			ob := NewBuilder(fn)
			ob.Forward = opt.Forward
			ob.InlineOK = opt.InlineOK
			ob.Bind = st.bind
			nb := make(map[ssa.Value]*Term, len(st.bind)+2)
			for k, v := range st.bind {
				nb[k] = v
			}
			for _, in := range blk.Instrs {
				p, ok := in.(*ssa.Phi)
				if !ok {
					break
				}
				if pi >= 0 {
					arr.State[p] = ob.Term(p.Edges[pi])
				}
				nb[p] = PhiVar(p)
			}
			pos := token.NoPos
			for _, in := range blk.Instrs {
				if in.Pos() != token.NoPos {
					pos = in.Pos()
					break
				}
			}
			out = append(out, &Leaf{Guards: append([]*Term{}, st.guards...), Effects: st.eff, Blocks: append(append([]int{}, st.blocks...), blk.Index), Cuts: st.cuts, End: arr, Pos: pos})
			if arr.Back {
				return
			}
			st.bind = nb
			st.mem = localMem{}
			st.hp = heapMem{}
			st.cuts = append(append([]Cut{}, st.cuts...), Cut{Header: blk, NG: len(st.guards), NE: len(st.eff)})
		} else if pred != nil && cx != nil {
			pi := -1
			for i, p := range blk.Preds {
				if p == pred {
					pi = i
				}
			}
			var nb map[ssa.Value]*Term
			var ob *Builder
			for _, in := range blk.Instrs {
				p, ok := in.(*ssa.Phi)
				if !ok {
					break
				}
				if nb == nil {
					nb = make(map[ssa.Value]*Term, len(st.bind)+2)
					for k, v := range st.bind {
						nb[k] = v
					}
					ob = NewBuilder(fn)
					ob.Forward = opt.Forward
					ob.InlineOK = opt.InlineOK
					ob.Bind = st.bind // parallel copy: every incoming value is read in the predecessor's state
					ob.IDOff = cx.off
				}
				nb[p] = ob.Term(p.Edges[pi])
			}
			if nb != nil {
				st.bind = nb
			}
		} else if pred != nil {
			pi := -1
			for i, p := range blk.Preds {
				if p == pred {
					pi = i
				}
			}
			copied := false
			for _, in := range blk.Instrs {
				p, ok := in.(*ssa.Phi)
				if !ok {
					break
				}
				if !copied {
					n := make(map[*ssa.Phi]ssa.Value, len(phi)+2)
					for k, v := range phi {
						n[k] = v
					}
					phi = n
					copied = true
				}
				e := p.Edges[pi]
				// an edge that is itself a φ of this block resolved earlier keeps its old value (parallel copy)
				if ep, ok := e.(*ssa.Phi); ok {
					if v, ok := st.phi[ep]; ok {
						e = v
					}
				}
				phi[p] = e
			}
		}
		blocks := append(append([]int{}, st.blocks...), blk.Index)
		mk := func(bind map[ssa.Value]*Term) *Builder {
			b := NewBuilder(fn)
			b.PhiChoice = phi
			b.Forward = opt.Forward
			b.InlineOK = opt.InlineOK
			b.Bind = bind
			if cx != nil {
				b.IDOff = cx.off
			}
			return b
		}
		var process func(i int, guards []*Term, eff []Effect, bind map[ssa.Value]*Term, mem localMem, cuts []Cut, bs bstate, hp heapMem)
		process = func(i int, guards []*Term, eff []Effect, bind map[ssa.Value]*Term, mem localMem, cuts []Cut, bs bstate, hp heapMem) {
			if err != nil {
				return
			}
			b := mk(bind)
			ownBind := false
			setBind := func(x ssa.Value, v *Term) {
				if !ownBind {
					nb := make(map[ssa.Value]*Term, len(bind)+4)
					for k, v := range bind {
						nb[k] = v
					}
					bind, ownBind = nb, true
					b.Bind = bind
				}
				bind[x] = v
			}
			for ; i < len(blk.Instrs)-1; i++ {
				in := blk.Instrs[i]
				if opt.Forward {
					// path-sensitive content of private local memory (see mem.go)
					switch x := in.(type) {
					case *ssa.Alloc:
						if len(mem) > 0 {
							mem = mem.fresh(b.Addr(x))
						}
					case *ssa.Store:
						if al := baseAlloc(x.Addr); al != nil && private(al, priv) {
							mem = mem.store(b.Addr(x.Addr), b.Term(x.Val))
						} else if a := b.Addr(x.Addr); !isLocalLoc(a) {
							hp = hp.store(a, b.Term(x.Val))
						}
					case *ssa.MapUpdate:
						hp = hp.storeCell(b.Term(x.Map), b.Term(x.Key), b.Term(x.Value))
					case *ssa.Lookup:
						if len(hp) > 0 {
							if _, isMap := x.X.Type().Underlying().(*types.Map); isMap {
								cell := &Term{Op: OLookup, Args: []*Term{b.Term(x.X), b.Term(x.Index)}}
								if v := hp.load(cell); v != nil {
									if x.CommaOk {
										setBind(x, &Term{Op: "tuple", Args: []*Term{v, Const(constant.MakeBool(true), types.Typ[types.Bool])}})
									} else {
										setBind(x, v)
									}
								}
							}
						}
					case ssa.CallInstruction:
						if len(hp) > 0 {
							if _, isBuiltin := x.Common().Value.(*ssa.Builtin); !isBuiltin && !keepsHeap(x.Common().StaticCallee()) {
								hp = heapMem{} // the callee may write what was stored
							}
						}
					case *ssa.Slice:
						// a slice of a private array whose cells were all stored earlier in this block (a slice literal) is its element list
						if lst := sliceLiteral(x, b, mem, priv); lst != nil {
							setBind(x, lst)
						}
					case *ssa.UnOp:
						if x.Op == token.MUL && len(mem) > 0 {
							if al := baseAlloc(x.X); al != nil && private(al, priv) {
								if v := mem.load(b.Addr(x.X), x.Type()); v != nil {
									setBind(x, v)
								}
							}
						}
						if fv, isFree := x.X.(*ssa.FreeVar); isFree && x.Op == token.MUL && len(mem) > 0 {
							// a captured variable of a closure expanded at its call: what the caller's path stored in it
							if a := bind[fv]; a != nil && a.Op == OAddr && len(a.Args) == 1 {
								if v := mem.load(a.Args[0], x.Type()); v != nil {
									setBind(x, v)
								}
							}
						}
						if x.Op == token.MUL && len(hp) > 0 {
							if v := hp.load(b.Addr(x.X)); v != nil {
								setBind(x, v)
							}
						}
					}
				}
				if ld, ok := in.(*ssa.UnOp); ok && ld.Op == token.MUL && opt.Inline != nil && bind[ld] == nil {
					// a load of a literal global is the literal (globals.go)
					if g, isG := ld.X.(*ssa.Global); isG {
						if lit := literalOf(g); lit != nil {
							for n, f := range lit.fns {
								opt.funcs[n] = f
							}
							setBind(ld, lit.val)
						}
					}
				}
				if lk, ok := in.(*ssa.Lookup); ok && opt.Inline != nil && bind[lk] == nil {
					if ft := lookupTable(lk); ft != nil {
						// a look-up in a function table is a switch on the key (functab.go)
						kt := b.Term(lk.Index)
						val := func(fn *Term, ok bool) *Term {
							if !lk.CommaOk {
								return fn
							}
							return &Term{Op: "tuple", Args: []*Term{fn, Const(constant.MakeBool(ok), types.Typ[types.Bool])}}
						}
						fork := func(gs []*Term, v *Term) {
							nb := make(map[ssa.Value]*Term, len(bind)+1)
							for k, bv := range bind {
								nb[k] = bv
							}
							nb[lk] = v
							process(i+1, gs, eff, nb, mem, cuts, bs, hp)
						}
						absent, absentOK := guards, true
						for ki, k := range ft.Keys {
							g := Bin("==", kt, Const(k, lk.Index.Type()))
							if gs, keep := addGuard(guards, g); keep {
								opt.funcs[ft.Fns[ki].String()] = ft.Fns[ki]
								fork(gs, val(&Term{Op: OFunc, Str: ft.Fns[ki].String(), Obj: ft.Fns[ki].Object()}, true))
							}
							if absentOK {
								absent, absentOK = addGuard(absent, NotCond(g))
							}
						}
						if absentOK {
							fork(absent, val(&Term{Op: OConst, Typ: lk.X.Type().Underlying().(*types.Map).Elem()}, false))
						}
						return
					}
				}
				if call, ok := in.(*ssa.Call); ok && opt.Inline != nil {
					callee := call.Call.StaticCallee()
					viaTable := false
					if callee == nil && !call.Call.IsInvoke() {
						// a call through an element of a function table (functab.go)
						if ft := b.Term(call.Call.Value); ft.Op == OFunc {
							if callee = opt.funcs[ft.Str]; callee != nil {
								viaTable = isTableLiteral(callee)
							}
						}
					}
					if callee != nil && callee.Origin() != nil && strings.HasPrefix(callee.Synthetic, "instantiation wrapper") && len(callee.Origin().Blocks) > 0 && len(callee.Origin().Params) == len(callee.Params) && opt.Inline(callee) {
						// an instance of a generic helper only hands its arguments on to the generic body: expand that
						// body at the call itself, where the arguments (a literal table, a constant) are known
						callee = callee.Origin()
					}
					var closure *ssa.MakeClosure
					var closureFree []*Term
					if mc, isMC := call.Call.Value.(*ssa.MakeClosure); isMC && callee != nil && callee.Parent() != nil && !opt.stack[callee] {
						closure = mc // a local closure called on the spot
					}
					if callee != nil && len(callee.Blocks) > 0 && (viaTable || closure != nil || closureFree != nil || opt.Inline(callee)) {
						var args []*Term
						for _, a := range call.Call.Args {
							args = append(args, b.Term(a))
						}
						*opt.site++
						off := *opt.site * 100000
						tr := func(t *Term) *Term { return Subst(renameLocals(t, off), args) }
						var cl []*Leaf
						var cerr error
						if closure != nil || closureFree != nil {
							// expanded in the context of the call: the captured variables are the caller's (private.go: a
							// variable captured by closures that only read it stays private memory of the caller)
							free := closureFree
							if closure != nil {
								if bt := bind[closure]; bt != nil && bt.Op == OClosure && len(bt.Args) == len(closure.Bindings) {
									free = bt.Args
								} else {
									free = nil
									for _, bd := range closure.Bindings {
										free = append(free, b.Term(bd))
									}
								}
							}
							opt.stack[callee] = true
							cl, cerr = enumerate(callee, opt, &callCtx{args: args, off: off, free: free, mem: mem}, false)
							delete(opt.stack, callee)
							tr = func(t *Term) *Term { return t }
						} else if hasListArg(args) && !opt.stack[callee] {
							// handed a spelled-out table: expanded in the context of the call, so that loops over the
							// table - also those of the helpers it hands the table on to - unroll
							opt.stack[callee] = true
							cl, cerr = enumerate(callee, opt, &callCtx{args: args, off: off}, false)
							delete(opt.stack, callee)
							if cerr == nil {
								tr = func(t *Term) *Term { return t }
							} else {
								cl, cerr = leaves(callee, opt)
							}
						} else {
							cl, cerr = leaves(callee, opt)
						}
						if _, isLoop := cerr.(*loopError); isLoop && !opt.stack[callee] {
							// a loop whose trip count is fixed by this call's arguments: enumerate the callee in context
							opt.stack[callee] = true
							// (with the loops of the function under analysis cut, a loop of the callee that does not unroll
							// is cut in the same way: the callee's arrivals at its loop header end the caller's path too)
							cl, cerr = enumerate(callee, opt, &callCtx{args: args, off: off}, false)
							if cerr != nil && cut && len(cuts) == 0 {
								cl, cerr = enumerate(callee, opt, &callCtx{args: args, off: off}, true)
							}
							delete(opt.stack, callee)
							tr = func(t *Term) *Term { return t }
						}
						if cerr == nil && cut && len(cuts) == 0 && closure == nil && closureFree == nil && failedInline(cl, fn.Prog, opt) && !opt.stack[callee] {
							// a helper of the callee holds the loop (Decode -> decodeVector -> decodeTokens): the callee is
							// expanded in the context of this call with loops cut, so that the helper's loop becomes the cut
							opt.stack[callee] = true
							if cl2, cerr2 := enumerate(callee, opt, &callCtx{args: args, off: off}, true); cerr2 == nil {
								cl, tr = cl2, func(t *Term) *Term { return t }
							}
							delete(opt.stack, callee)
						}
						if cerr != nil {
							// a callee that cannot be expanded (it loops, recurses, ...) stays an opaque call
							if debugInline {
								fmt.Fprintf(os.Stderr, "inline of %s in %s failed: %v\n", callee, fn, cerr)
							}
							goto opaque
						}
						for _, L := range cl {
							ng := guards
							ok := true
							at := make([]int, len(L.Guards)+1) // at[k]: number of guards after the callee's first k
							at[0] = len(ng)
							nbs := bs
							ei := 0
							for k, g := range L.Guards {
								// the callee's calls that precede this condition, for the emptiness of builders
								for ; ei < len(L.Effects) && L.Effects[ei].NG <= k; ei++ {
									if L.Effects[ei].Kind == "call" {
										nbs = nbs.apply(tr(L.Effects[ei].Val))
									}
								}
								var keep bool
								ng, keep = addGuard(ng, nbs.resolveLen(tr(g)))
								if !keep {
									ok = false
									break
								}
								at[k+1] = len(ng)
							}
							if !ok {
								continue
							}
							for ; ei < len(L.Effects); ei++ {
								if L.Effects[ei].Kind == "call" {
									nbs = nbs.apply(tr(L.Effects[ei].Val))
								}
							}
							pos := func(k int) int {
								if k < 0 {
									k = 0
								}
								if k >= len(at) {
									k = len(at) - 1
								}
								return at[k]
							}
							ne := eff
							if opt.Effects {
								ne = append([]Effect{}, eff...)
								for _, ef := range L.Effects {
									ce := ef
									ce.NG = pos(ef.NG)
									if ce.Addr != nil {
										ce.Addr = tr(ce.Addr)
									}
									if ce.Key != nil {
										ce.Key = tr(ce.Key)
									}
									if ce.Val != nil {
										ce.Val = tr(ce.Val)
									}
									ne = append(ne, ce)
								}
							}
							ncuts := cuts
							for _, c := range L.Cuts {
								ncuts = append(append([]Cut{}, ncuts...), Cut{Header: c.Header, NG: pos(c.NG), NE: len(eff) + c.NE})
							}
							if L.End != nil {
								// the callee arrives at its loop header: so does this path
								out = append(out, &Leaf{Guards: append([]*Term{}, ng...), Effects: ne, Blocks: blocks, Cuts: ncuts, End: L.End, Pos: L.Pos})
								continue
							}
							nb := make(map[ssa.Value]*Term, len(bind)+1)
							for k, v := range bind {
								nb[k] = v
							}
							var rets []*Term
							for _, r := range L.Ret {
								rets = append(rets, tr(r))
							}
							if len(rets) == 1 {
								nb[call] = rets[0]
							} else {
								nb[call] = &Term{Op: "tuple", Args: rets}
							}
							process(i+1, ng, ne, nb, mem, ncuts, nbs, heapMem{}) // the callee may have written: nothing is known about the heap
						}
						return
					}
				}
			opaque:
				if al, ok := in.(*ssa.Alloc); ok && isBuilderPtr(al.Type()) {
					bs = bs.with(b.Term(al).Key(), bEmpty) // a fresh strings.Builder is empty
				}
				if !opt.Effects {
					if x, ok := in.(*ssa.Call); ok {
						bs = bs.apply(b.Term(x))
					}
					continue
				}
				switch x := in.(type) {
				case *ssa.Store:
					a := b.Addr(x.Addr)
					if isLocalLoc(a) {
						continue
					}
					eff = append(append([]Effect{}, eff...), Effect{Kind: "store", Addr: a, Val: b.Term(x.Val), Pos: x.Pos(), NG: len(guards)})
				case *ssa.MapUpdate:
					eff = append(append([]Effect{}, eff...), Effect{Kind: "map-update", Addr: b.Term(x.Map), Key: b.Term(x.Key), Val: b.Term(x.Value), Pos: x.Pos(), NG: len(guards)})
				case *ssa.Call:
					ct := b.Term(x)
					if ct.Op == OConst {
						continue // len of a reconstructed list: folded, no effect
					}
					if r := bs.resolveLen(ct); r != ct {
						setBind(x, r) // b.Len() of a builder whose emptiness is known on this path
					}
					bs = bs.apply(ct)
					eff = append(append([]Effect{}, eff...), Effect{Kind: "call", Val: ct, Pos: x.Pos(), NG: len(guards)})
				}
			}
			last := blk.Instrs[len(blk.Instrs)-1]
			switch t := last.(type) {
			case *ssa.Return:
				lf := &Leaf{Guards: append([]*Term{}, guards...), Pos: t.Pos(), Effects: eff, Blocks: blocks, Cuts: cuts}
				for _, r := range t.Results {
					lf.Ret = append(lf.Ret, b.Term(r))
				}
				out = append(out, lf)
			case *ssa.Jump:
				walk(blk.Succs[0], blk, state{phi, guards, eff, blocks, bind, mem, cuts, bs, hp})
			case *ssa.If:
				c := b.Term(t.Cond)
				if debugInline && onPath[blk] > 1 {
					fmt.Fprintf(os.Stderr, "%s block %d visit %d: cond %s\n", fn.Name(), blk.Index, onPath[blk], c.Pretty())
				}
				for i, succ := range blk.Succs {
					g := c
					if i == 1 {
						g = NotCond(c)
					}
					gs, keep := addGuard(guards, g)
					if !keep {
						continue
					}
					walk(succ, blk, state{phi, gs, eff, blocks, bind, mem, cuts, bs, hp})
				}
			case *ssa.Panic:
				err = fmt.Errorf("%s: explicit panic at block %d", fn.String(), blk.Index)
			default:
				err = fmt.Errorf("%s: unexpected terminator %T", fn.String(), last)
			}
		}
		process(0, st.guards, st.eff, st.bind, st.mem, st.cuts, st.bs, st.hp)
	}
	bind0 := map[ssa.Value]*Term{}
	if cx != nil {
		for i, p := range fn.Params {
			if i < len(cx.args) && cx.args[i] != nil {
				bind0[p] = cx.args[i]
			}
		}
	}
	mem0 := localMem{}
	if cx != nil {
		for i, fv := range fn.FreeVars {
			if i < len(cx.free) && cx.free[i] != nil {
				bind0[fv] = cx.free[i]
			}
		}
		if cx.mem != nil {
			mem0 = cx.mem
		}
	}
	walk(fn.Blocks[0], nil, state{phi: map[*ssa.Phi]ssa.Value{}, bind: bind0, mem: mem0, bs: bstate{}, hp: heapMem{}})
	if err != nil {
		return nil, err
	}
	return out, nil
}

// failedInline: some path of an expanded callee still calls a function that was to be expanded in place (its
// expansion failed there: a loop that does not unroll without the caller's context).
func failedInline(cl []*Leaf, prog *ssa.Program, opt LeafOptions) bool {
	if opt.Inline == nil {
		return false
	}
	for _, lf := range cl {
		for _, ef := range lf.Effects {
			if ef.Kind != "call" || ef.Val == nil || ef.Val.Op != OCall {
				continue
			}
			if obj, ok := ef.Val.Obj.(*types.Func); ok {
				if sf := prog.FuncValue(obj); sf != nil && len(sf.Blocks) > 0 && opt.Inline(sf) {
					return true
				}
			}
		}
	}
	return false
}

// hasListArg: one of the arguments is a spelled-out list (a literal table, a slice literal).
func hasListArg(args []*Term) bool {
	for _, a := range args {
		if a != nil && a.Op == "list" {
			return true
		}
	}
	return false
}

// addGuardPlain adds a derived condition to a guard list: kept unless its negation is already there.
func addGuardPlain(gs []*Term, g *Term) ([]*Term, bool) {
	ng := NotCond(g).Key()
	gk := g.Key()
	for _, og := range gs {
		if og.Key() == ng {
			return gs, false
		}
		if og.Key() == gk {
			return gs, true
		}
	}
	return append(append([]*Term{}, gs...), g), true
}

// isBuilderPtr: t is *strings.Builder.
func isBuilderPtr(t types.Type) bool {
	p, ok := t.Underlying().(*types.Pointer)
	if !ok {
		return false
	}
	n, ok := p.Elem().(*types.Named)
	return ok && n.Obj().Pkg() != nil && n.Obj().Pkg().Path() == "strings" && n.Obj().Name() == "Builder"
}

// renameLocals shifts the identifiers of local allocations / unresolved values of an inlined callee so that
// they cannot collide with the caller's.
func renameLocals(t *Term, off int) *Term {
	return Replace(t, func(x *Term) *Term {
		switch x.Op {
		case OAlloc, OPhi, OOpaque, ONext:
			n := *x
			n.key = ""
			n.N = x.N + off
			return &n
		}
		return nil
	})
}

// ExpandInline replaces OInline nodes by the callee's leaves (parameters
// substituted by the call's arguments), multiplying leaves as needed.
// leavesOf must return the callee's own (already expanded) leaves.
func ExpandInline(leaves []*Leaf, leavesOf func(name string) ([]*Leaf, error)) ([]*Leaf, error) {
	var out []*Leaf
	for _, lf := range leaves {
		exp, err := expandLeaf(lf, leavesOf, 0)
		if err != nil {
			return nil, err
		}
		out = append(out, exp...)
	}
	return out, nil
}

func findInline(ts []*Term) *Term {
	var found *Term
	for _, t := range ts {
		Walk(t, func(x *Term) bool {
			if found != nil {
				return false
			}
			if x.Op == OInline {
				// innermost first: check args
				for _, a := range x.Args {
					if in := findInline([]*Term{a}); in != nil {
						found = in
						return false
					}
				}
				found = x
				return false
			}
			return true
		})
		if found != nil {
			return found
		}
	}
	return nil
}

func expandLeaf(lf *Leaf, leavesOf func(string) ([]*Leaf, error), depth int) ([]*Leaf, error) {
	if depth > 16 {
		return nil, fmt.Errorf("inlining deeper than 16")
	}
	all := append(append([]*Term{}, lf.Guards...), lf.Ret...)
	in := findInline(all)
	if in == nil {
		return []*Leaf{lf}, nil
	}
	cl, err := leavesOf(in.Str)
	if err != nil {
		return nil, err
	}
	var out []*Leaf
	key := in.Key()
	for _, c := range cl {
		if len(c.Ret) != 1 {
			return nil, fmt.Errorf("inlined function %s does not have exactly one result", in.Str)
		}
		ret := Subst(c.Ret[0], in.Args)
		rep := func(t *Term) *Term {
			if t.Op == OInline && t.Key() == key {
				return ret
			}
			return nil
		}
		n := &Leaf{Pos: lf.Pos}
		ok := true
		addGuard := func(g *Term) {
			if g.Op == OConst && g.C != nil && g.C.Kind() == constant.Bool {
				if !constant.BoolVal(g.C) {
					ok = false
				}
				return
			}
			ng := NotCond(g).Key()
			for _, og := range n.Guards {
				if og.Key() == ng {
					ok = false
				}
				if og.Key() == g.Key() {
					return
				}
			}
			n.Guards = append(n.Guards, g)
		}
		for _, g := range lf.Guards {
			addGuard(Replace(g, rep))
		}
		for _, g := range c.Guards {
			addGuard(Subst(g, in.Args))
		}
		if !ok {
			continue
		}
		for _, r := range lf.Ret {
			n.Ret = append(n.Ret, Replace(r, rep))
		}
		more, err := expandLeaf(n, leavesOf, depth+1)
		if err != nil {
			return nil, err
		}
		out = append(out, more...)
	}
	return out, nil
}

// Consistent reports whether two guard sets can hold together (no guard of
// one is the syntactic negation of a guard of the other).
func Consistent(a, b []*Term) bool {
	neg := map[string]bool{}
	for _, g := range a {
		neg[NotCond(g).Key()] = true
	}
	for _, g := range b {
		if neg[g.Key()] {
			return false
		}
	}
	return true
}
