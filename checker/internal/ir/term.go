// Package ir turns go/ssa values into canonical, position-free terms and
// provides the flow helpers the rules are phrased in: guarded leaves of
// loop-free functions (with inlining by substitution), dominating edge
// conditions, block-local store forwarding.
//
// Terms are never evaluated numerically. Two terms are "the same" when their
// normal forms are syntactically equal after flattening and sorting the
// operands of + and * (associative-commutative normalisation) and rewriting
// a-b as a+(-b).
package ir

import (
	"fmt"
	"go/constant"
	"go/token"
	"go/types"
	"sort"
	"strconv"
	"strings"
)

type Term struct {
	Op   string
	Args []*Term
	C    constant.Value
	Typ  types.Type
	Obj  types.Object
	N    int
	Str  string
	Pos  token.Pos
	key  string
}

// Ops
const (
	OConst      = "const"
	OParam      = "param"
	OField      = "field"   // Obj = field var, Args[0] = pointer/struct the field is selected from (load implied)
	OGlobal     = "global"  // Obj = package-level var (load implied)
	OCall       = "call"    // Obj = *types.Func, Args = receiver first
	OBuiltin    = "builtin" // Str = name
	OBin        = "bin"     // Str = operator
	OUn         = "un"
	OSum        = "sum"  // normal form of + and -
	OProd       = "prod" // normal form of *
	ONeg        = "neg"
	OIndex      = "index"   // Args = x, i
	OLookup     = "lookup"  // Args = m, k ; Str = "ok" for the comma-ok tuple
	OExtract    = "extract" // N = index
	OPhi        = "phi"
	OAlloc      = "alloc"
	OConv       = "conv" // Str = target type
	OSlice      = "slice"
	OAddr       = "addr" // address of Args[0] (field/index) when used as a value
	OInline     = "inline"
	OOpaque     = "opaque"
	OFree       = "free"
	OFunc       = "func"
	OClosure    = "closure"
	OTypeAssert = "assert"
	ORange      = "range"
	ONext       = "next"
)

func objKey(o types.Object) string {
	if o == nil {
		return "<nil>"
	}
	switch x := o.(type) {
	case *types.Func:
		return x.FullName()
	case *types.Var:
		if x.IsField() {
			return "." + x.Name() + "@" + strconv.Itoa(int(x.Pos()))
		}
		if x.Pkg() != nil {
			return x.Pkg().Path() + "." + x.Name()
		}
	}
	if o.Pkg() != nil {
		return o.Pkg().Path() + "." + o.Name()
	}
	return o.Name()
}

func constKey(c constant.Value, t types.Type) string {
	if c == nil {
		return "nil"
	}
	switch c.Kind() {
	case constant.Float, constant.Int:
		if t != nil {
			if b, ok := t.Underlying().(*types.Basic); ok && b.Info()&types.IsFloat != 0 {
				f, _ := constant.Float64Val(c)
				return strconv.FormatFloat(f, 'g', -1, 64)
			}
		}
		return c.ExactString()
	case constant.String:
		return strconv.Quote(constant.StringVal(c))
	}
	return c.ExactString()
}

// Key is the canonical string of a term; equal keys mean equal terms.
func (t *Term) Key() string {
	if t == nil {
		return "<nil>"
	}
	if t.key != "" {
		return t.key
	}
	var b strings.Builder
	switch t.Op {
	case OConst:
		b.WriteString(constKey(t.C, t.Typ))
		if t.Typ != nil {
			// a constant of a named type carries the type's name (two enumerations both have a 1); a string is the
			// same text under any of its types (metric names as a typed string)
			if n, ok := t.Typ.(*types.Named); ok && !(t.C != nil && t.C.Kind() == constant.String) {
				b.WriteString(":" + n.Obj().Name())
			}
		}
	case OParam:
		fmt.Fprintf(&b, "p%d", t.N)
	case OField:
		b.WriteString(t.Args[0].Key() + "." + t.Obj.Name())
	case OGlobal:
		b.WriteString("G(" + objKey(t.Obj) + ")")
	case OCall:
		b.WriteString(objKey(t.Obj) + "(")
		for i, a := range t.Args {
			if i > 0 {
				b.WriteString(", ")
			}
			b.WriteString(a.Key())
		}
		b.WriteString(")")
	default:
		b.WriteString(t.Op)
		if t.Str != "" {
			b.WriteString("[" + t.Str + "]")
		}
		if t.Op == OExtract || t.Op == OAlloc || t.Op == OPhi || t.Op == OOpaque {
			fmt.Fprintf(&b, "#%d", t.N)
		}
		if t.Obj != nil {
			b.WriteString("{" + objKey(t.Obj) + "}")
		}
		b.WriteString("(")
		for i, a := range t.Args {
			if i > 0 {
				b.WriteString(", ")
			}
			b.WriteString(a.Key())
		}
		b.WriteString(")")
	}
	t.key = b.String()
	return t.key
}

// Pretty renders a term for humans (shorter than Key).
func (t *Term) Pretty() string {
	if t == nil {
		return "<nil>"
	}
	switch t.Op {
	case OConst:
		return constKey(t.C, t.Typ)
	case OParam:
		return fmt.Sprintf("p%d", t.N)
	case OField:
		return t.Args[0].Pretty() + "." + t.Obj.Name()
	case OGlobal:
		return t.Obj.Name()
	case OCall:
		f := t.Obj.(*types.Func)
		name := f.Name()
		sig := f.Type().(*types.Signature)
		args := t.Args
		s := ""
		if sig.Recv() != nil && len(args) > 0 {
			s = args[0].Pretty() + "." + name + "("
			args = args[1:]
		} else {
			if f.Pkg() != nil {
				name = f.Pkg().Name() + "." + name
			}
			s = name + "("
		}
		for i, a := range args {
			if i > 0 {
				s += ", "
			}
			s += a.Pretty()
		}
		return s + ")"
	case OSum:
		var ps []string
		for _, a := range t.Args {
			ps = append(ps, a.Pretty())
		}
		return "(" + strings.Join(ps, " + ") + ")"
	case OProd:
		var ps []string
		for _, a := range t.Args {
			ps = append(ps, a.Pretty())
		}
		return strings.Join(ps, "*")
	case ONeg:
		return "-" + t.Args[0].Pretty()
	case OBin:
		return "(" + t.Args[0].Pretty() + " " + t.Str + " " + t.Args[1].Pretty() + ")"
	case OUn:
		return t.Str + t.Args[0].Pretty()
	case OIndex:
		return t.Args[0].Pretty() + "[" + t.Args[1].Pretty() + "]"
	case OLookup:
		return t.Args[0].Pretty() + "[" + t.Args[1].Pretty() + "]"
	case OExtract:
		return fmt.Sprintf("%s#%d", t.Args[0].Pretty(), t.N)
	case OBuiltin:
		var ps []string
		for _, a := range t.Args {
			ps = append(ps, a.Pretty())
		}
		return t.Str + "(" + strings.Join(ps, ", ") + ")"
	case OConv:
		return t.Str + "(" + t.Args[0].Pretty() + ")"
	}
	var ps []string
	for _, a := range t.Args {
		ps = append(ps, a.Pretty())
	}
	s := t.Op
	if t.Str != "" {
		s += "[" + t.Str + "]"
	}
	return s + "(" + strings.Join(ps, ", ") + ")"
}

// ---- constructors in normal form -------------------------------------------

func Const(c constant.Value, t types.Type) *Term { return &Term{Op: OConst, C: c, Typ: t} }

func Float(f float64) *Term {
	return &Term{Op: OConst, C: constant.MakeFloat64(f), Typ: types.Typ[types.Float64]}
}

func Param(i int) *Term { return &Term{Op: OParam, N: i} }

func Field(base *Term, f *types.Var) *Term {
	// the field of a row of a read-only literal, reached through a pointer to the row (r := &rows[i]; r.name):
	// the value written there
	if base.Op == OAddr && len(base.Args) == 1 && base.Args[0].Op == "struct" && base.Args[0].Typ != nil {
		if st, ok := base.Args[0].Typ.Underlying().(*types.Struct); ok && st.NumFields() == len(base.Args[0].Args) {
			for i := 0; i < st.NumFields(); i++ {
				if st.Field(i) == f || st.Field(i).Origin() == f.Origin() {
					return base.Args[0].Args[i]
				}
			}
		}
	}
	return &Term{Op: OField, Obj: f, Args: []*Term{base}}
}

// AccessorPath, when set, gives for a verified accessor method (x.BaseMetrics() returns x's embedded base
// object, nil for a nil x) the chain of embedded fields it stands for; a call of it on a non-nil object is that
// field path.
var AccessorPath func(fn *types.Func) ([]*types.Var, bool)

func Call(fn *types.Func, args ...*Term) *Term {
	if AccessorPath != nil && len(args) == 1 {
		if path, ok := AccessorPath(fn); ok {
			t := args[0] // (an empty path: the accessor of the level itself returns its receiver)
			for _, f := range path {
				t = Field(t, f)
			}
			return t
		}
	}
	// math.Min / math.Max have one canonical form, shared with the builtin min / max on floats when one operand
	// is a finite constant (see Builder.call)
	if fn != nil && fn.Pkg() != nil && fn.Pkg().Path() == "math" && (fn.Name() == "Min" || fn.Name() == "Max") && len(args) == 2 {
		return FMinMax(fn.Name() == "Min", args[0], args[1])
	}
	// errs.Is is errors.Is (github.com/goark/errs: func Is(err, target error) bool { return errors.Is(err, target) })
	if fn != nil && fn.Pkg() != nil && fn.Name() == "Is" && len(args) == 2 && (fn.Pkg().Path() == "errors" || fn.Pkg().Path() == "github.com/goark/errs") {
		return &Term{Op: OBuiltin, Str: "errors.Is", Args: args}
	}
	return &Term{Op: OCall, Obj: fn, Args: args}
}

// FMinMax is the minimum / maximum of two float64 terms (symmetric: operands are ordered canonically).
func FMinMax(min bool, a, b *Term) *Term {
	name := "math.Max"
	if min {
		name = "math.Min"
	}
	if a.Key() > b.Key() {
		a, b = b, a
	}
	return &Term{Op: OBuiltin, Str: name, Args: []*Term{a, b}}
}

// IsFMin reports whether t is the minimum of two float terms.
func IsFMin(t *Term) bool { return t.Op == OBuiltin && t.Str == "math.Min" && len(t.Args) == 2 }

func isFloatConst(t *Term) (float64, bool) {
	if t.Op != OConst || t.C == nil {
		return 0, false
	}
	if t.C.Kind() != constant.Float && t.C.Kind() != constant.Int {
		return 0, false
	}
	f, _ := constant.Float64Val(t.C)
	return f, true
}

func Neg(a *Term) *Term {
	if a.Op == ONeg {
		return a.Args[0]
	}
	if a.Op == OConst && a.C != nil && a.C.Kind() == constant.Int {
		return &Term{Op: OConst, C: constant.UnaryOp(token.SUB, a.C, 0), Typ: a.Typ}
	}
	if f, ok := isFloatConst(a); ok {
		return &Term{Op: OConst, C: constant.MakeFloat64(-f), Typ: a.Typ}
	}
	if a.Op == OSum {
		var args []*Term
		for _, x := range a.Args {
			args = append(args, Neg(x))
		}
		return mkSum(args)
	}
	return &Term{Op: ONeg, Args: []*Term{a}}
}

func mkSum(args []*Term) *Term {
	var flat []*Term
	for _, a := range args {
		if a.Op == OSum {
			flat = append(flat, a.Args...)
		} else {
			flat = append(flat, a)
		}
	}
	// a sum of integer constants only (loop counters of unrolled loops) folds exactly
	if len(flat) > 1 {
		all := true
		for _, a := range flat {
			if !isIntConst(a) {
				all = false
				break
			}
		}
		if all {
			acc := flat[0].C
			for _, a := range flat[1:] {
				acc = constant.BinaryOp(acc, token.ADD, a.C)
			}
			return &Term{Op: OConst, C: acc, Typ: flat[0].Typ}
		}
	}
	sort.SliceStable(flat, func(i, j int) bool { return flat[i].Key() < flat[j].Key() })
	if len(flat) == 1 {
		return flat[0]
	}
	return &Term{Op: OSum, Args: flat}
}

func Add(a, b *Term) *Term { return mkSum([]*Term{a, b}) }
func Sub(a, b *Term) *Term { return mkSum([]*Term{a, Neg(b)}) }

func Mul(a, b *Term) *Term {
	neg := false
	var flat []*Term
	for _, x := range []*Term{a, b} {
		if x.Op == ONeg {
			neg = !neg
			x = x.Args[0]
		}
		if x.Op == OProd {
			flat = append(flat, x.Args...)
		} else {
			flat = append(flat, x)
		}
	}
	// x*1 is x exactly in IEEE-754 arithmetic: drop unit factors
	if len(flat) > 1 {
		kept := flat[:0:0]
		for _, x := range flat {
			if f, ok := isFloatConst(x); ok && f == 1 {
				continue
			}
			kept = append(kept, x)
		}
		if len(kept) == 0 {
			kept = append(kept, flat[0])
		}
		flat = kept
	}
	sort.SliceStable(flat, func(i, j int) bool { return flat[i].Key() < flat[j].Key() })
	var t *Term
	if len(flat) == 1 {
		t = flat[0]
	} else {
		t = &Term{Op: OProd, Args: flat}
	}
	if neg {
		return Neg(t)
	}
	return t
}

// Concat is string concatenation: operands stay in order, nested concatenations are flattened and adjacent
// constants joined.
func Concat(a, b *Term) *Term {
	var parts []*Term
	for _, x := range []*Term{a, b} {
		if x.Op == "concat" {
			parts = append(parts, x.Args...)
		} else {
			parts = append(parts, x)
		}
	}
	var out []*Term
	for _, p := range parts {
		if n := len(out); n > 0 && isStrConst(out[n-1]) && isStrConst(p) {
			out[n-1] = Const(constant.MakeString(constant.StringVal(out[n-1].C)+constant.StringVal(p.C)), p.Typ)
			continue
		}
		out = append(out, p)
	}
	if len(out) == 1 {
		return out[0]
	}
	return &Term{Op: "concat", Args: out}
}

func isStrConst(t *Term) bool {
	return t.Op == OConst && t.C != nil && t.C.Kind() == constant.String
}

func isLenTerm(t *Term) bool { return t.Op == OBuiltin && t.Str == "len" && len(t.Args) == 1 }

func intVal(t *Term) (int64, bool) {
	if !isIntConst(t) {
		return 0, false
	}
	return constant.Int64Val(t.C)
}

func isIntConst(t *Term) bool {
	return t.Op == OConst && t.C != nil && t.C.Kind() == constant.Int
}

var cmpTok = map[string]token.Token{"<": token.LSS, "<=": token.LEQ, ">": token.GTR, ">=": token.GEQ, "==": token.EQL, "!=": token.NEQ}

// NonNilGlobal, when set, says which package-level variables are known never to be nil (the module's
// sentinel errors: initialised with errors.New and never reassigned, which separate rules establish).
var NonNilGlobal func(obj types.Object) bool

func isNilTerm(t *Term) bool { return t.Op == OConst && t.C == nil }

func Bin(op string, a, b *Term) *Term {
	if op == "==" || op == "!=" {
		// nil compared with nil, or with a variable known never to be nil
		if isNilTerm(a) && isNilTerm(b) {
			return &Term{Op: OConst, C: constant.MakeBool(op == "=="), Typ: types.Typ[types.Bool]}
		}
		for _, pr := range [][2]*Term{{a, b}, {b, a}} {
			// the address of a variable or of a fresh allocation is never nil
			if isNilTerm(pr[0]) && pr[1].Op == OAddr && len(pr[1].Args) == 1 && (pr[1].Args[0].Op == OAlloc || pr[1].Args[0].Op == OGlobal) {
				return &Term{Op: OConst, C: constant.MakeBool(op == "!="), Typ: types.Typ[types.Bool]}
			}
			if isNilTerm(pr[0]) && pr[1].Op == OGlobal && NonNilGlobal != nil && pr[1].Obj != nil && NonNilGlobal(pr[1].Obj) {
				return &Term{Op: OConst, C: constant.MakeBool(op == "!="), Typ: types.Typ[types.Bool]}
			}
			// errs.Wrap(x, ...) is nil exactly when x is nil (github.com/goark/errs: Wrap returns nil for a nil
			// error and a non-nil *Error otherwise)
			if isNilTerm(pr[0]) && pr[1].Op == OCall && len(pr[1].Args) >= 1 {
				if fn, ok := pr[1].Obj.(*types.Func); ok && fn.FullName() == "github.com/goark/errs.Wrap" {
					return Bin(op, pr[1].Args[0], pr[0])
				}
			}
		}
	}
	// a positive unknown against a constant <= 0
	if tok, ok := cmpTok[op]; ok {
		for i, pr := range [][2]*Term{{a, b}, {b, a}} {
			if pr[0].Op == "positive" && isIntConst(pr[1]) {
				if v, exact := constant.Int64Val(pr[1].C); exact && v <= 0 {
					// positive OP v  (i == 0)  or  v OP positive  (i == 1), with positive > 0 >= v
					var res bool
					switch tok {
					case token.LSS, token.LEQ:
						res = i == 1
					case token.GTR, token.GEQ:
						res = i == 0
					case token.EQL:
						res = false
					case token.NEQ:
						res = true
					}
					return &Term{Op: OConst, C: constant.MakeBool(res), Typ: types.Typ[types.Bool]}
				}
			}
		}
	}
	// a length is never negative: 0 < len(x) is 0 != len(x), len(x) <= 0 is 0 == len(x), and the same against 1
	if (op == "<" || op == "<=" || op == ">" || op == ">=") && (isLenTerm(a) || isLenTerm(b)) {
		l, k, lenLeft := a, b, true
		if !isLenTerm(a) {
			l, k, lenLeft = b, a, false
		}
		if v, ok := intVal(k); ok {
			// normalise to  len REL v
			rel := op
			if !lenLeft {
				rel = map[string]string{"<": ">", "<=": ">=", ">": "<", ">=": "<="}[op]
			}
			zero := Const(constant.MakeInt64(0), types.Typ[types.Int])
			switch {
			case (rel == ">" && v == 0) || (rel == ">=" && v == 1):
				return Bin("!=", zero, l)
			case (rel == "<=" && v == 0) || (rel == "<" && v == 1):
				return Bin("==", zero, l)
			}
		}
	}
	// strings.Index / IndexByte / IndexRune compared with 0 or -1 is strings.Contains (the index is -1 or >= 0)
	if _, isCmp := cmpTok[op]; isCmp {
		for i, pr := range [][2]*Term{{a, b}, {b, a}} {
			ix, k := pr[0], pr[1]
			v, ok := intVal(k)
			if !ok || ix.Op != OCall || len(ix.Args) != 2 {
				continue
			}
			fn, _ := ix.Obj.(*types.Func)
			if fn == nil || fn.Pkg() == nil || fn.Pkg().Path() != "strings" || (fn.Name() != "Index" && fn.Name() != "IndexByte" && fn.Name() != "IndexRune") {
				continue
			}
			contains, _ := fn.Pkg().Scope().Lookup("Contains").(*types.Func)
			sep := ix.Args[1]
			if contains == nil || sep.Op != OConst || sep.C == nil {
				continue
			}
			var sepStr string
			switch sep.C.Kind() {
			case constant.String:
				sepStr = constant.StringVal(sep.C)
			case constant.Int:
				r, exact := constant.Int64Val(sep.C)
				if !exact || r < 0 || r > 0x10FFFF || (fn.Name() == "IndexByte" && r > 127) {
					continue
				}
				sepStr = string(rune(r))
			default:
				continue
			}
			if sepStr == "" {
				continue
			}
			rel := op // normalised to  index REL v
			if i == 1 {
				rel = map[string]string{"<": ">", "<=": ">=", ">": "<", ">=": "<=", "==": "==", "!=": "!="}[op]
			}
			c := Call(contains, ix.Args[0], Const(constant.MakeString(sepStr), types.Typ[types.String]))
			switch {
			case (rel == ">=" && v == 0) || (rel == ">" && v == -1) || (rel == "!=" && v == -1):
				return c
			case (rel == "<" && v == 0) || (rel == "<=" && v == -1) || (rel == "==" && v == -1):
				return NotCond(c)
			}
		}
	}
	// strings.Split with a non-empty separator returns at least one element: its length is never 0
	if op == "==" || op == "!=" {
		for _, pr := range [][2]*Term{{a, b}, {b, a}} {
			k, l := pr[0], pr[1]
			if v, ok := intVal(k); ok && v == 0 && isLenTerm(l) && isSplitNonEmptySep(l.Args[0]) {
				return &Term{Op: OConst, C: constant.MakeBool(op == "!="), Typ: types.Typ[types.Bool]}
			}
		}
	}
	// comparisons of two integer constants or two string constants fold
	if tok, ok := cmpTok[op]; ok && a.Op == OConst && b.Op == OConst && a.C != nil && b.C != nil {
		if (a.C.Kind() == constant.Int && b.C.Kind() == constant.Int) || (a.C.Kind() == constant.String && b.C.Kind() == constant.String) {
			return &Term{Op: OConst, C: constant.MakeBool(constant.Compare(a.C, tok, b.C)), Typ: types.Typ[types.Bool]}
		}
	}
	// s == "" is len(s) == 0: one canonical form
	if op == "==" || op == "!=" {
		for _, pr := range [][2]*Term{{a, b}, {b, a}} {
			k, x := pr[0], pr[1]
			if k.Op == OConst && k.C != nil && k.C.Kind() == constant.String && constant.StringVal(k.C) == "" && x.Op != OConst {
				return Bin(op, Const(constant.MakeInt64(0), types.Typ[types.Int]), &Term{Op: OBuiltin, Str: "len", Args: []*Term{x}})
			}
		}
	}
	switch op {
	case "+":
		if isNumeric(a) || isNumeric(b) || true {
			return Add(a, b)
		}
	case "-":
		return Sub(a, b)
	case "*":
		return Mul(a, b)
	case ">":
		return &Term{Op: OBin, Str: "<", Args: []*Term{b, a}}
	case ">=":
		return &Term{Op: OBin, Str: "<=", Args: []*Term{b, a}}
	case "==", "!=":
		// comparisons with a boolean constant (switch true { case c: ... }) reduce to the condition itself
		for _, pr := range [][2]*Term{{a, b}, {b, a}} {
			k, x := pr[0], pr[1]
			if k.Op == OConst && k.C != nil && k.C.Kind() == constant.Bool {
				if constant.BoolVal(k.C) == (op == "==") {
					return x
				}
				return NotCond(x)
			}
		}
		if a.Key() > b.Key() {
			a, b = b, a
		}
	}
	return &Term{Op: OBin, Str: op, Args: []*Term{a, b}}
}

func isNumeric(t *Term) bool { return true }

// isSplitNonEmptySep: strings.Split(x, sep) with a non-empty constant separator.
func isSplitNonEmptySep(t *Term) bool {
	if t.Op != OCall || len(t.Args) != 2 {
		return false
	}
	fn, _ := t.Obj.(*types.Func)
	if fn == nil || fn.Pkg() == nil || fn.Pkg().Path() != "strings" || fn.Name() != "Split" {
		return false
	}
	sep := t.Args[1]
	return sep.Op == OConst && sep.C != nil && sep.C.Kind() == constant.String && constant.StringVal(sep.C) != ""
}

// NotCond returns the negation of a boolean term, pushing it into comparisons.
func NotCond(t *Term) *Term {
	if t.Op == OUn && t.Str == "!" {
		return t.Args[0]
	}
	if t.Op == OBin {
		switch t.Str {
		case "<":
			return &Term{Op: OBin, Str: "<=", Args: []*Term{t.Args[1], t.Args[0]}}
		case "<=":
			return &Term{Op: OBin, Str: "<", Args: []*Term{t.Args[1], t.Args[0]}}
		case "==":
			return &Term{Op: OBin, Str: "!=", Args: t.Args}
		case "!=":
			return &Term{Op: OBin, Str: "==", Args: t.Args}
		}
	}
	if t.Op == OConst && t.C != nil && t.C.Kind() == constant.Bool {
		return &Term{Op: OConst, C: constant.MakeBool(!constant.BoolVal(t.C)), Typ: t.Typ}
	}
	return &Term{Op: OUn, Str: "!", Args: []*Term{t}}
}

// Subst replaces parameter terms by the given arguments.
func Subst(t *Term, args []*Term) *Term {
	if t == nil {
		return nil
	}
	if t.Op == OParam {
		if t.N < len(args) && args[t.N] != nil {
			return args[t.N]
		}
		return t
	}
	if len(t.Args) == 0 {
		return t
	}
	if t.Op == OBin && (t.Str == "==" || t.Str == "!=") && len(t.Args) == 2 {
		// an interface parameter compared with nil, the parameter bound to a value of a concrete type: the
		// interface that carries it is not nil (see Builder.term)
		for i := 0; i < 2; i++ {
			p, n := t.Args[i], t.Args[1-i]
			if p.Op == OParam && p.Typ != nil && types.IsInterface(p.Typ) && isNilTerm(n) && p.N < len(args) && args[p.N] != nil {
				if tt := TermType(args[p.N]); tt != nil && !types.IsInterface(tt) {
					return Const(constant.MakeBool(t.Str == "!="), types.Typ[types.Bool])
				}
			}
		}
	}
	nargs := make([]*Term, len(t.Args))
	changed := false
	for i, a := range t.Args {
		nargs[i] = Subst(a, args)
		if nargs[i] != a {
			changed = true
		}
	}
	if !changed {
		return t
	}
	return Rebuild(t, nargs)
}

// Rebuild constructs a term like t with new arguments, re-normalising.
func Rebuild(t *Term, args []*Term) *Term {
	switch t.Op {
	case OSum:
		return mkSum(args)
	case OProd:
		r := args[0]
		for _, a := range args[1:] {
			r = Mul(r, a)
		}
		return r
	case ONeg:
		return Neg(args[0])
	case OCall:
		nt := Call(t.Obj.(*types.Func), args...)
		nt.Pos = t.Pos
		return nt
	case OBin:
		nt := Bin(t.Str, args[0], args[1])
		return nt
	case "concat":
		r := args[0]
		for _, a := range args[1:] {
			r = Concat(r, a)
		}
		return r
	case OIndex:
		if len(args) == 2 {
			return indexTerm(args[0], args[1])
		}
	case "dyncall":
		if len(args) >= 1 {
			return DynCall(args[0], args[1:], t.Pos)
		}
	case "invoke":
		if m, ok := t.Obj.(*types.Func); ok {
			return Invoke(m, args, t.Pos)
		}
	case "deref":
		// the location a pointer parameter stands for, once the caller's &x is substituted, is x
		if len(args) == 1 && args[0].Op == OAddr && len(args[0].Args) == 1 {
			return args[0].Args[0]
		}
	case OUn:
		if t.Str == "!" && len(args) == 1 {
			return NotCond(args[0]) // !(a == b) after a substitution is a != b
		}
	case OField:
		// a field of a struct value that is now spelled out (a callee's parameter bound to the caller's literal)
		if fv, ok := t.Obj.(*types.Var); ok && len(args) == 1 {
			return FieldOf(args[0], fv)
		}
	case OBuiltin:
		if t.Str == "len" && len(args) == 1 {
			if n, ok := ConstLen(args[0]); ok {
				return Const(constant.MakeInt64(n), types.Typ[types.Int])
			}
		}
		if (t.Str == "math.Min" || t.Str == "math.Max") && len(args) == 2 {
			return FMinMax(t.Str == "math.Min", args[0], args[1])
		}
	}
	nt := *t
	nt.key = ""
	nt.Args = args
	return &nt
}

// Invoke is the call of interface method m on args[0]. When the concrete type of the receiver is known - a
// helper taking an interface, expanded at a call that passes a T or *T - it is the static call of T's method.
func Invoke(m *types.Func, args []*Term, pos token.Pos) *Term {
	if len(args) >= 1 {
		if rt := TermType(args[0]); rt != nil && !types.IsInterface(rt) {
			if sel := types.NewMethodSet(rt).Lookup(m.Pkg(), m.Name()); sel != nil && len(sel.Index()) == 1 {
				if fn, ok := sel.Obj().(*types.Func); ok {
					nt := Call(fn, args...)
					nt.Pos = pos
					return nt
				}
			}
		}
	}
	return &Term{Op: "invoke", Obj: m, Args: args, Pos: pos}
}

// TermType: the static type of the value a term stands for, where the term records it.
func TermType(t *Term) types.Type {
	if t.Typ != nil {
		return t.Typ
	}
	if t.Op == OField {
		if f, ok := t.Obj.(*types.Var); ok {
			return f.Type()
		}
	}
	if t.Op == OCall {
		// the result of a function with one result (a constructor: NewBase())
		if f, ok := t.Obj.(*types.Func); ok {
			if sig, ok := f.Type().(*types.Signature); ok && sig.Results().Len() == 1 && sig.TypeParams().Len() == 0 && sig.RecvTypeParams().Len() == 0 {
				return sig.Results().At(0).Type()
			}
		}
	}
	return nil
}

// DynCall is a call through a function value; when the value is a method value (x.M) it is the static call of M
// on the bound receiver.
func DynCall(fn *Term, args []*Term, pos token.Pos) *Term {
	if fn.Op == OClosure && len(fn.Args) == 1 {
		if m, ok := fn.Obj.(*types.Func); ok {
			t := Call(m, append([]*Term{fn.Args[0]}, args...)...)
			t.Pos = pos
			return t
		}
	}
	// a declared function used as a value (a field of a literal row, an argument) and called: the static call
	if fn.Op == OFunc {
		if f, ok := fn.Obj.(*types.Func); ok && f.Type().(*types.Signature).Recv() == nil {
			t := Call(f, args...)
			t.Pos = pos
			return t
		}
	}
	return &Term{Op: "dyncall", Args: append([]*Term{fn}, args...), Pos: pos}
}

// ConstLen: the length of a slice term whose construction is spelled out on the path: an element list, nil,
// or append(s, e1, ..., en) of such a slice.
func ConstLen(t *Term) (int64, bool) {
	switch {
	case t.Op == "list":
		return int64(len(t.Args)), true
	case t.Op == OConst && t.C == nil && t.Typ != nil:
		if _, ok := t.Typ.Underlying().(*types.Slice); ok {
			return 0, true
		}
	case t.Op == OBuiltin && t.Str == "append" && len(t.Args) == 2 && t.Args[1].Op == "list":
		if n, ok := ConstLen(t.Args[0]); ok {
			return n + int64(len(t.Args[1].Args)), true
		}
	case t.Op == OBuiltin && t.Str == "append" && len(t.Args) == 1:
		return ConstLen(t.Args[0])
	}
	return 0, false
}

// Walk visits every subterm.
func Walk(t *Term, f func(*Term) bool) {
	if t == nil || !f(t) {
		return
	}
	for _, a := range t.Args {
		Walk(a, f)
	}
}

// Replace rewrites subterms bottom-up.
func Replace(t *Term, f func(*Term) *Term) *Term {
	if t == nil {
		return nil
	}
	if len(t.Args) > 0 {
		nargs := make([]*Term, len(t.Args))
		changed := false
		for i, a := range t.Args {
			nargs[i] = Replace(a, f)
			if nargs[i] != a {
				changed = true
			}
		}
		if changed {
			t = Rebuild(t, nargs)
		}
	}
	if r := f(t); r != nil {
		return r
	}
	return t
}

// Diff returns a description of the smallest differing subterms of a and b.
func Diff(a, b *Term) (string, string) {
	if a.Key() == b.Key() {
		return "", ""
	}
	if a.Op == b.Op && a.Str == b.Str && a.Obj == b.Obj && len(a.Args) == len(b.Args) && a.Op != OConst {
		// find the differing children; for AC nodes match up equal children first
		if a.Op == OSum || a.Op == OProd {
			am := map[string]int{}
			for _, x := range a.Args {
				am[x.Key()]++
			}
			var onlyB []*Term
			for _, y := range b.Args {
				if am[y.Key()] > 0 {
					am[y.Key()]--
				} else {
					onlyB = append(onlyB, y)
				}
			}
			var onlyA []*Term
			bm := map[string]int{}
			for _, y := range b.Args {
				bm[y.Key()]++
			}
			for _, x := range a.Args {
				if bm[x.Key()] > 0 {
					bm[x.Key()]--
				} else {
					onlyA = append(onlyA, x)
				}
			}
			if len(onlyA) == 1 && len(onlyB) == 1 {
				return Diff(onlyA[0], onlyB[0])
			}
			return a.Pretty(), b.Pretty()
		}
		nd := 0
		var da, db *Term
		for i := range a.Args {
			if a.Args[i].Key() != b.Args[i].Key() {
				nd++
				da, db = a.Args[i], b.Args[i]
			}
		}
		if nd == 1 {
			return Diff(da, db)
		}
	}
	return a.Pretty(), b.Pretty()
}
