package ir

import (
	"go/constant"
	"go/types"
)

// Emptiness of strings.Builder values along a path.
//
// The common idiom  if b.Len() > 0 { b.WriteByte('/') }  makes the text depend
// on what was written before. Along one path that is known: a builder starts
// empty when it is allocated, becomes non-empty with the first byte or
// non-empty constant string written, and only Reset empties it again. The
// enumerator keeps this state per builder (identified by the term of its
// address) and decides b.Len() comparisons with 0 from it, both for calls in
// the function itself and for the conditions of callees expanded in place
// (whose own paths were computed without knowing the caller's builder).

type bstate map[string]int8 // 1: empty, 2: not empty; absent: unknown

const (
	bEmpty    int8 = 1
	bNonEmpty int8 = 2
)

func (s bstate) with(key string, v int8) bstate {
	if s[key] == v {
		return s
	}
	n := make(bstate, len(s)+1)
	for k, x := range s {
		n[k] = x
	}
	if v == 0 {
		delete(n, key)
	} else {
		n[key] = v
	}
	return n
}

func calleeFull(t *Term) string {
	if t == nil || t.Op != OCall {
		return ""
	}
	if fn, ok := t.Obj.(*types.Func); ok && fn != nil {
		return fn.FullName()
	}
	return ""
}

// apply updates the state for one call effect.
func (s bstate) apply(call *Term) bstate {
	name := calleeFull(call)
	if call == nil || len(call.Args) == 0 {
		return s
	}
	key := call.Args[0].Key()
	switch name {
	case "(*strings.Builder).WriteByte", "(*strings.Builder).WriteRune":
		return s.with(key, bNonEmpty)
	case "(*strings.Builder).WriteString":
		if len(call.Args) == 2 && isStrConst(call.Args[1]) {
			if constant.StringVal(call.Args[1].C) != "" {
				return s.with(key, bNonEmpty)
			}
			return s
		}
		if s[key] == bNonEmpty {
			return s
		}
		return s.with(key, 0)
	case "(*strings.Builder).Reset":
		return s.with(key, bEmpty)
	case "(*strings.Builder).Len", "(*strings.Builder).String", "(*strings.Builder).Grow", "(*strings.Builder).Cap":
		return s
	}
	// anything else that is handed a tracked builder may write to it (never empties it short of Reset, which an
	// unknown callee might call: unknown unless nothing but appending functions are involved)
	out := s
	for _, a := range call.Args {
		k := a.Key()
		if _, tracked := s[k]; !tracked {
			continue
		}
		if name == "fmt.Fprintf" || name == "fmt.Fprint" || name == "fmt.Fprintln" || name == "io.WriteString" {
			if s[k] != bNonEmpty {
				out = out.with(k, 0)
			}
			continue
		}
		out = out.with(k, 0)
	}
	return out
}

// resolveLen replaces b.Len() of builders whose emptiness is known: 0 for an empty one, a positive unknown for a
// non-empty one (comparisons of which with 0 fold).
func (s bstate) resolveLen(t *Term) *Term {
	if len(s) == 0 {
		return t
	}
	return Replace(t, func(x *Term) *Term {
		if calleeFull(x) != "(*strings.Builder).Len" || len(x.Args) != 1 {
			return nil
		}
		switch s[x.Args[0].Key()] {
		case bEmpty:
			return Const(constant.MakeInt64(0), types.Typ[types.Int])
		case bNonEmpty:
			return &Term{Op: "positive", Str: "len of a non-empty builder", Args: []*Term{x.Args[0]}}
		}
		return nil
	})
}
