package ir

import (
	"go/constant"
	"go/token"
	"go/types"
	"sort"
	"sync"

	"golang.org/x/tools/go/ssa"
	"golang.org/x/tools/go/ssa/ssautil"
)

// A function table is an unexported package-level map whose keys are constants and whose elements are
// functions without free variables, filled once by a composite literal in the package initialiser and only
// read afterwards (looked up, ranged over, measured). A look-up in such a table under a key K is a switch on K:
// the path enumerator forks into one continuation per key (guard K == key, the element is that function) and
// one for "no such key", and a call through the element is the static call of the function, which can be
// expanded in place like any other helper.
type FuncTable struct {
	Global *ssa.Global
	Keys   []constant.Value // sorted by their exact text
	Fns    []*ssa.Function  // Fns[i] belongs to Keys[i]
}

// The tables of one program are remembered; analysing another program forgets them (the self-check loads
// hundreds of programs in one process, none of which may be kept alive by a cache).
var (
	funcTabMu   sync.Mutex
	funcTabProg *ssa.Program
	funcTabs    map[*ssa.Global]*FuncTable
	progFuncs   map[*ssa.Package][]*ssa.Function
)

// packageFuncs: every function of the program by the package that declares it (instances of generic
// functions and function literals count for the package of their origin / enclosing function).
func packageFuncs(prog *ssa.Program) map[*ssa.Package][]*ssa.Function {
	if progFuncs != nil {
		return progFuncs
	}
	m := map[*ssa.Package][]*ssa.Function{}
	for fn := range ssautil.AllFunctions(prog) {
		if p := FuncPackage(fn); p != nil {
			m[p] = append(m[p], fn)
		}
	}
	progFuncs = m
	return m
}

// FuncPackage: the package whose source contains fn.
func FuncPackage(fn *ssa.Function) *ssa.Package {
	for f := fn; f != nil; f = f.Parent() {
		if f.Pkg != nil {
			return f.Pkg
		}
		if o := f.Origin(); o != nil && o.Pkg != nil {
			return o.Pkg
		}
	}
	return nil
}

// FuncTableOf returns the function table held in g, or nil.
func FuncTableOf(g *ssa.Global) *FuncTable {
	if g.Pkg == nil {
		return nil
	}
	funcTabMu.Lock()
	defer funcTabMu.Unlock()
	if funcTabProg != g.Pkg.Prog {
		funcTabProg, funcTabs, progFuncs = g.Pkg.Prog, map[*ssa.Global]*FuncTable{}, nil
	}
	if ft, ok := funcTabs[g]; ok {
		return ft
	}
	ft := funcTableOf(g)
	funcTabs[g] = ft
	return ft
}

func funcTableOf(g *ssa.Global) *FuncTable {
	if g.Pkg == nil || token.IsExported(g.Name()) {
		return nil
	}
	init := g.Pkg.Func("init")
	if init == nil {
		return nil
	}
	// the single store *g = make(map...) in the initialiser
	var mk *ssa.MakeMap
	stores := 0
	for _, fn := range packageFuncs(g.Pkg.Prog)[g.Pkg] {
		for _, blk := range fn.Blocks {
			for _, in := range blk.Instrs {
				ops := in.Operands(nil)
				uses := false
				for _, op := range ops {
					if *op == ssa.Value(g) {
						uses = true
					}
				}
				if !uses {
					continue
				}
				switch x := in.(type) {
				case *ssa.Store:
					if x.Addr != ssa.Value(g) || fn != init {
						return nil
					}
					m, ok := x.Val.(*ssa.MakeMap)
					if !ok {
						return nil
					}
					mk = m
					stores++
				case *ssa.UnOp:
					if x.Op != token.MUL {
						return nil
					}
					// the loaded map is only read
					for _, r := range *x.Referrers() {
						switch u := r.(type) {
						case *ssa.Lookup:
							if u.X != ssa.Value(x) {
								return nil
							}
						case *ssa.Range:
						case *ssa.DebugRef:
						case *ssa.Call:
							b, ok := u.Call.Value.(*ssa.Builtin)
							if !ok || b.Name() != "len" {
								return nil
							}
						default:
							return nil
						}
					}
				case *ssa.DebugRef:
				default:
					return nil
				}
			}
		}
	}
	if mk == nil || stores != 1 {
		return nil
	}
	byKey := map[string]int{}
	ft := &FuncTable{Global: g}
	for _, r := range *mk.Referrers() {
		switch u := r.(type) {
		case *ssa.Store:
			if u.Val != ssa.Value(mk) || u.Addr != ssa.Value(g) {
				return nil
			}
		case *ssa.MapUpdate:
			if u.Map != ssa.Value(mk) {
				return nil
			}
			k, ok := u.Key.(*ssa.Const)
			if !ok || k.Value == nil {
				return nil
			}
			fn := tableFunc(u.Value)
			if fn == nil {
				return nil
			}
			ks := k.Value.ExactString()
			if _, dup := byKey[ks]; dup {
				return nil
			}
			byKey[ks] = len(ft.Keys)
			ft.Keys = append(ft.Keys, k.Value)
			ft.Fns = append(ft.Fns, fn)
		case *ssa.DebugRef:
		default:
			return nil
		}
	}
	if len(ft.Keys) == 0 {
		return nil
	}
	idx := make([]int, len(ft.Keys))
	for i := range idx {
		idx[i] = i
	}
	sort.Slice(idx, func(a, b int) bool { return ft.Keys[idx[a]].ExactString() < ft.Keys[idx[b]].ExactString() })
	keys := make([]constant.Value, len(idx))
	fns := make([]*ssa.Function, len(idx))
	for i, j := range idx {
		keys[i], fns[i] = ft.Keys[j], ft.Fns[j]
	}
	ft.Keys, ft.Fns = keys, fns
	return ft
}

// tableFunc: the function an element of a function table is: a function literal without free variables or a
// declared function, possibly converted to a named function type.
func tableFunc(v ssa.Value) *ssa.Function {
	switch x := v.(type) {
	case *ssa.Function:
		if len(x.FreeVars) == 0 && len(x.Blocks) > 0 {
			return x
		}
	case *ssa.ChangeType:
		return tableFunc(x.X)
	case *ssa.MakeClosure:
		if len(x.Bindings) == 0 {
			return tableFunc(x.Fn)
		}
	}
	return nil
}

// lookupTable: the function table a look-up reads, or nil.
func lookupTable(x *ssa.Lookup) *FuncTable {
	mt, ok := x.X.Type().Underlying().(*types.Map)
	if !ok {
		return nil
	}
	if _, ok := mt.Elem().Underlying().(*types.Signature); !ok {
		return nil
	}
	ld, ok := x.X.(*ssa.UnOp)
	if !ok || ld.Op != token.MUL {
		return nil
	}
	g, ok := ld.X.(*ssa.Global)
	if !ok {
		return nil
	}
	return FuncTableOf(g)
}

// isTableLiteral: fn is a function literal of a package initialiser (an element of a package-level literal).
func isTableLiteral(fn *ssa.Function) bool {
	p := fn.Parent()
	return p != nil && p.Parent() == nil && p.Name() == "init" && p.Pkg != nil && len(fn.FreeVars) == 0
}

// TableCallers: for a function literal that is an element of a function table, the functions that can call it:
// those that look the table up and call the element on the spot. ok is false when fn is not such a literal or
// when a reader does anything else with an element (hands it on, stores it, ranges over the table): then who
// calls the literal is not known.
func TableCallers(fn *ssa.Function) (callers []*ssa.Function, ok bool) {
	if !isTableLiteral(fn) {
		return nil, false
	}
	init := fn.Parent()
	var g *ssa.Global
	for _, blk := range init.Blocks {
		for _, in := range blk.Instrs {
			mu, isMU := in.(*ssa.MapUpdate)
			if !isMU || tableFunc(mu.Value) != fn {
				continue
			}
			mk, isMk := mu.Map.(*ssa.MakeMap)
			if !isMk || g != nil {
				return nil, false
			}
			for _, r := range *mk.Referrers() {
				if st, isSt := r.(*ssa.Store); isSt && st.Val == ssa.Value(mk) {
					if gg, isG := st.Addr.(*ssa.Global); isG {
						g = gg
					}
				}
			}
		}
	}
	if g == nil {
		return nil, false
	}
	ft := FuncTableOf(g)
	if ft == nil {
		return nil, false
	}
	funcTabMu.Lock()
	fns := packageFuncs(g.Pkg.Prog)[g.Pkg]
	funcTabMu.Unlock()
	calledOnly := func(v ssa.Value) bool {
		for _, r := range *v.Referrers() {
			switch u := r.(type) {
			case *ssa.Call:
				if u.Call.Value != v {
					return false
				}
				for _, a := range u.Call.Args {
					if a == v {
						return false
					}
				}
			case *ssa.BinOp:
				if u.Op != token.EQL && u.Op != token.NEQ {
					return false
				}
			case *ssa.DebugRef:
			default:
				return false
			}
		}
		return true
	}
	seen := map[*ssa.Function]bool{}
	for _, f := range fns {
		if f == init {
			continue
		}
		for _, blk := range f.Blocks {
			for _, in := range blk.Instrs {
				ld, isLd := in.(*ssa.UnOp)
				if !isLd || ld.Op != token.MUL || ld.X != ssa.Value(g) {
					continue
				}
				for _, r := range *ld.Referrers() {
					switch u := r.(type) {
					case *ssa.Lookup:
						if !u.CommaOk {
							if !calledOnly(u) {
								return nil, false
							}
							break
						}
						for _, xr := range *u.Referrers() {
							ex, isEx := xr.(*ssa.Extract)
							if !isEx {
								if _, dbg := xr.(*ssa.DebugRef); dbg {
									continue
								}
								return nil, false
							}
							if ex.Index == 0 && !calledOnly(ex) {
								return nil, false
							}
						}
					case *ssa.Call, *ssa.DebugRef: // len(table)
					default:
						return nil, false
					}
				}
				if !seen[f] {
					seen[f] = true
					callers = append(callers, f)
				}
			}
		}
	}
	sort.Slice(callers, func(i, j int) bool { return callers[i].String() < callers[j].String() })
	return callers, len(callers) > 0
}
