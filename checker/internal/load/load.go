// Package load loads /repo's current working tree with go/packages and builds
// go/ssa for the module's own packages. Nothing is cached between runs.
package load

import (
	"fmt"
	"go/ast"
	"go/token"
	"go/types"
	"os"
	"path/filepath"
	"sort"
	"strings"

	"golang.org/x/tools/go/packages"
	"golang.org/x/tools/go/ssa"
	"golang.org/x/tools/go/ssa/ssautil"
)

const ModPath = "github.com/goark/go-cvss"

// Library packages (relative to the module path) that every variant must contain.
var LibPkgs = []string{"cvsserr", "v2/metric", "v3/metric", "v3/report", "v3/report/names", "v3/version"}

type Variant struct {
	Name   string
	Tags   string
	GOARCH string
	Tests  bool
}

type Program struct {
	Dir     string
	Variant Variant
	Fset    *token.FileSet
	Pkgs    []*packages.Package
	ByPath  map[string]*packages.Package
	SSA     *ssa.Program
	SSAPkg  map[string]*ssa.Package
	decls   map[*types.Func]*ast.FuncDecl
	NFuncs  int
}

func Load(dir string, v Variant) (*Program, error) {
	env := []string{}
	for _, e := range os.Environ() {
		if strings.HasPrefix(e, "GOFLAGS=") || strings.HasPrefix(e, "GOWORK=") || strings.HasPrefix(e, "GOARCH=") {
			continue
		}
		env = append(env, e)
	}
	env = append(env, "GOFLAGS=-mod=mod", "GOPROXY=off", "GOSUMDB=off", "GOWORK=off", "GOTOOLCHAIN=local")
	if v.GOARCH != "" {
		env = append(env, "GOARCH="+v.GOARCH)
	}
	cfg := &packages.Config{
		Mode:  packages.LoadSyntax | packages.NeedModule,
		Dir:   dir,
		Env:   env,
		Tests: v.Tests,
	}
	if v.Tags != "" {
		cfg.BuildFlags = []string{"-tags=" + v.Tags}
	}
	pkgs, err := packages.Load(cfg, "./...")
	if err != nil {
		return nil, fmt.Errorf("go/packages: %v", err)
	}
	if len(pkgs) == 0 {
		return nil, fmt.Errorf("no packages loaded from %s", dir)
	}
	p := &Program{Dir: dir, Variant: v, Pkgs: pkgs, ByPath: map[string]*packages.Package{}, SSAPkg: map[string]*ssa.Package{}, decls: map[*types.Func]*ast.FuncDecl{}}
	var errsFound []string
	for _, pk := range pkgs {
		for _, e := range pk.Errors {
			errsFound = append(errsFound, fmt.Sprintf("%s: %v", pk.PkgPath, e))
		}
		if pk.Fset != nil {
			p.Fset = pk.Fset
		}
		if pk.Types == nil || pk.TypesInfo == nil {
			errsFound = append(errsFound, fmt.Sprintf("%s: no type information", pk.PkgPath))
		}
	}
	if len(errsFound) > 0 {
		sort.Strings(errsFound)
		return nil, fmt.Errorf("packages with errors:\n  %s", strings.Join(errsFound, "\n  "))
	}
	for _, pk := range pkgs {
		// with Tests=true the same path appears for the test variant; prefer the one with most files
		if old, ok := p.ByPath[pk.PkgPath]; !ok || len(pk.Syntax) > len(old.Syntax) {
			p.ByPath[pk.PkgPath] = pk
		}
	}
	for _, rel := range LibPkgs {
		if p.ByPath[ModPath+"/"+rel] == nil {
			return nil, fmt.Errorf("library package %s/%s not loaded", ModPath, rel)
		}
	}
	prog, spkgs := ssautil.Packages(pkgs, ssa.BuilderMode(0))
	prog.Build()
	p.SSA = prog
	for i, sp := range spkgs {
		if sp == nil {
			return nil, fmt.Errorf("no SSA for %s", pkgs[i].PkgPath)
		}
		if _, ok := p.SSAPkg[pkgs[i].PkgPath]; !ok || p.ByPath[pkgs[i].PkgPath] == pkgs[i] {
			p.SSAPkg[pkgs[i].PkgPath] = sp
		}
	}
	for _, pk := range pkgs {
		for _, f := range pk.Syntax {
			for _, d := range f.Decls {
				if fd, ok := d.(*ast.FuncDecl); ok {
					if fn, ok := pk.TypesInfo.Defs[fd.Name].(*types.Func); ok {
						p.decls[fn] = fd
						p.NFuncs++
					}
				}
			}
		}
	}
	return p, nil
}

// Lib returns the library package with the given module-relative path.
func (p *Program) Lib(rel string) *packages.Package { return p.ByPath[ModPath+"/"+rel] }

func (p *Program) LibSSA(rel string) *ssa.Package { return p.SSAPkg[ModPath+"/"+rel] }

// IsModule reports whether the package path belongs to go-cvss.
func IsModule(path string) bool { return path == ModPath || strings.HasPrefix(path, ModPath+"/") }

// IsLib reports whether pkg is one of the six library packages (not sample/**).
func IsLib(path string) bool {
	for _, rel := range LibPkgs {
		if path == ModPath+"/"+rel {
			return true
		}
	}
	return IsInternal(path)
}

// IsInternal: an internal package of the module - code the library packages share, not importable from outside:
// part of the library for every rule.
func IsInternal(path string) bool {
	return IsModule(path) && (strings.Contains(path, "/internal/") || strings.HasSuffix(path, "/internal"))
}

// IsHelper: fn is not part of the module's API: unexported, or declared in an internal package.
func IsHelper(fn types.Object) bool {
	if fn == nil {
		return false
	}
	return !fn.Exported() || (fn.Pkg() != nil && IsInternal(fn.Pkg().Path()))
}

// LibRels: the module-relative paths of the library packages: the six named ones and the module's internal packages.
func (p *Program) LibRels() []string {
	out := append([]string{}, LibPkgs...)
	var extra []string
	for path := range p.ByPath {
		if IsInternal(path) {
			extra = append(extra, strings.TrimPrefix(path, ModPath+"/"))
		}
	}
	sort.Strings(extra)
	return append(out, extra...)
}

func (p *Program) Decl(fn *types.Func) *ast.FuncDecl { return p.decls[fn] }

func (p *Program) PkgOf(obj types.Object) *packages.Package {
	if obj == nil || obj.Pkg() == nil {
		return nil
	}
	return p.ByPath[obj.Pkg().Path()]
}

// Pos renders a position relative to the repository root.
func (p *Program) Pos(pos token.Pos) string {
	if !pos.IsValid() || p.Fset == nil {
		return ""
	}
	ps := p.Fset.Position(pos)
	rel, err := filepath.Rel(p.Dir, ps.Filename)
	if err != nil || strings.HasPrefix(rel, "..") {
		rel = ps.Filename
	}
	return fmt.Sprintf("%s:%d", rel, ps.Line)
}

// Rel strips the module path from a package path.
func Rel(path string) string {
	return strings.TrimPrefix(strings.TrimPrefix(path, ModPath), "/")
}

// FuncName renders a function as  v3/metric.(*Base).Score .
func FuncName(fn *types.Func) string {
	if fn == nil {
		return "<nil>"
	}
	s := fn.FullName()
	s = strings.ReplaceAll(s, ModPath+"/", "")
	return s
}

// SSAFunc finds the SSA function for a types.Func of the module.
func (p *Program) SSAFunc(fn *types.Func) *ssa.Function { return p.SSA.FuncValue(fn) }

// LookupFunc finds a package-level function by name.
func (p *Program) LookupFunc(rel, name string) *types.Func {
	pk := p.Lib(rel)
	if pk == nil {
		return nil
	}
	fn, _ := pk.Types.Scope().Lookup(name).(*types.Func)
	return fn
}

// LookupMethod finds a method (pointer or value receiver) of a named type.
func (p *Program) LookupMethod(rel, typ, name string) *types.Func {
	pk := p.Lib(rel)
	if pk == nil {
		return nil
	}
	tn, _ := pk.Types.Scope().Lookup(typ).(*types.TypeName)
	if tn == nil {
		return nil
	}
	return MethodOf(tn.Type(), name)
}

// MethodOf returns the method declared on the named type t (value or pointer receiver), not promoted ones.
func MethodOf(t types.Type, name string) *types.Func {
	if pt, ok := t.(*types.Pointer); ok {
		t = pt.Elem()
	}
	n, ok := t.(*types.Named)
	if !ok {
		return nil
	}
	for i := 0; i < n.NumMethods(); i++ {
		if n.Method(i).Name() == name {
			return n.Method(i)
		}
	}
	return nil
}
