package facts

import (
	"fmt"
	"go/types"

	"cvsslint/internal/load"
	"cvsslint/internal/spec"

	"golang.org/x/tools/go/packages"
)

// Level is one of the metrics struct types (Base, Temporal, Environmental) of
// one CVSS version.
type Level struct {
	Spec         *spec.Level
	Version      *spec.Version
	Pkg          *packages.Package
	Named        *types.Named
	Struct       *types.Struct
	Embedded     *types.Var // anonymous pointer to the lower level, nil for Base
	Lower        *Level
	Metrics      []*types.Var          // fields named like the spec's metrics of this level, in struct order
	ByName       map[string]*types.Var // metric name -> field
	VerField     *types.Var            // v3 Base only
	Names        *types.Var            // the unexported set of names seen (map[string]bool, or an unsigned integer used as a bit set)
	NamesBits    bool                  // Names is a bit set
	DecodeOne    *types.Func           // the unexported per-token decoder: func (*T) X(string) error
	Other        []*types.Var          // anything else declared in the struct
	Problems     []string
	NamesProblem string // set when Names is nil
}

func (l *Level) String() string { return load.Rel(l.Pkg.PkgPath) + "." + l.Named.Obj().Name() }

// Ptr returns *T for the level's struct type.
func (l *Level) Ptr() types.Type { return types.NewPointer(l.Named) }

// Method returns the method declared on the level's own type (not promoted).
func (l *Level) Method(name string) *types.Func { return load.MethodOf(l.Named, name) }

// Levels resolves the three struct types of a version.
func (f *Facts) Levels(v *spec.Version) ([]*Level, error) {
	pk := f.Prog.Lib(v.Pkg)
	if pk == nil {
		return nil, fmt.Errorf("package %s not loaded", v.Pkg)
	}
	var out []*Level
	var lower *Level
	for i := range v.Levels {
		sl := &v.Levels[i]
		tn, _ := pk.Types.Scope().Lookup(sl.Name).(*types.TypeName)
		if tn == nil {
			return nil, fmt.Errorf("%s: type %s not found", v.Pkg, sl.Name)
		}
		named, _ := tn.Type().(*types.Named)
		st, _ := tn.Type().Underlying().(*types.Struct)
		if named == nil || st == nil {
			return nil, fmt.Errorf("%s.%s is not a struct type", v.Pkg, sl.Name)
		}
		l := &Level{Spec: sl, Version: v, Pkg: pk, Named: named, Struct: st, Lower: lower, ByName: map[string]*types.Var{}}
		var bits []*types.Var
		want := map[string]bool{}
		for _, n := range sl.Names() {
			want[n] = true
		}
		for j := 0; j < st.NumFields(); j++ {
			fv := st.Field(j)
			switch {
			case fv.Embedded():
				if l.Embedded != nil {
					l.Problems = append(l.Problems, "more than one embedded field")
				}
				l.Embedded = fv
			case want[fv.Name()]:
				l.Metrics = append(l.Metrics, fv)
				l.ByName[fv.Name()] = fv
			case fv.Name() == "Ver":
				l.VerField = fv
			case isNamesSet(fv):
				if l.Names != nil {
					l.Problems = append(l.Problems, "more than one unexported map[string]bool field")
				}
				l.Names = fv
			case isBitSet(fv):
				bits = append(bits, fv)
				l.Other = append(l.Other, fv)
			default:
				l.Other = append(l.Other, fv)
			}
		}
		for _, n := range sl.Names() {
			if l.ByName[n] == nil {
				l.Problems = append(l.Problems, fmt.Sprintf("no field named %s", n))
			}
		}
		if lower == nil {
			if l.Embedded != nil {
				l.Problems = append(l.Problems, "Base embeds "+l.Embedded.Name())
			}
		} else {
			if l.Embedded == nil {
				l.Problems = append(l.Problems, "does not embed the lower level")
			} else if pt, ok := l.Embedded.Type().(*types.Pointer); !ok || !types.Identical(pt.Elem(), lower.Named) {
				l.Problems = append(l.Problems, fmt.Sprintf("embedded field %s is not *%s", l.Embedded.Name(), lower.Named.Obj().Name()))
			}
		}
		if l.Names == nil && len(bits) == 1 {
			// the names seen kept as a bit set: one unexported unsigned integer field (the rules read its tests and
			// updates through the key function that maps a name to its bit, rules/namesrep.go)
			l.Names = bits[0]
			l.NamesBits = true
			var other []*types.Var
			for _, fv := range l.Other {
				if fv != bits[0] {
					other = append(other, fv)
				}
			}
			l.Other = other
		}
		if l.Names == nil {
			// not a problem of the layout as such: only the rules that reason about the names seen need it
			l.NamesProblem = "no unexported map[string]bool field (or single unsigned-integer bit set) recording the names seen (the rules know no other representation of that set)"
		}
		// the per-token decoder, identified by role (unexported, pointer receiver, func(string) error), not by name
		var cands []*types.Func
		for j := 0; j < named.NumMethods(); j++ {
			m := named.Method(j)
			sig := m.Type().(*types.Signature)
			if m.Exported() || sig.Params().Len() != 1 || sig.Results().Len() != 1 {
				continue
			}
			if b, ok := sig.Params().At(0).Type().(*types.Basic); !ok || b.Kind() != types.String {
				continue
			}
			if !types.Identical(sig.Results().At(0).Type(), types.Universe.Lookup("error").Type()) {
				continue
			}
			cands = append(cands, m)
		}
		if len(cands) == 1 {
			l.DecodeOne = cands[0]
		} else {
			l.Problems = append(l.Problems, fmt.Sprintf("expected exactly one unexported method func(string) error (the per-token decoder), found %d", len(cands)))
		}
		out = append(out, l)
		lower = l
	}
	return out, nil
}

// FieldOwner maps every field of the module's struct types to "pkg.Type.Field".
func (f *Facts) FieldOwner() map[*types.Var]string {
	out := map[*types.Var]string{}
	for _, pk := range f.Prog.Pkgs {
		if pk.Types == nil || !load.IsModule(pk.PkgPath) {
			continue
		}
		sc := pk.Types.Scope()
		for _, n := range sc.Names() {
			tn, ok := sc.Lookup(n).(*types.TypeName)
			if !ok {
				continue
			}
			st, ok := tn.Type().Underlying().(*types.Struct)
			if !ok {
				continue
			}
			for i := 0; i < st.NumFields(); i++ {
				out[st.Field(i)] = load.Rel(pk.PkgPath) + "." + tn.Name() + "." + st.Field(i).Name()
			}
		}
	}
	return out
}

// isBitSet: an unexported field of unsigned integer type.
func isBitSet(fv *types.Var) bool {
	if fv.Exported() {
		return false
	}
	b, ok := fv.Type().Underlying().(*types.Basic)
	return ok && b.Info()&types.IsUnsigned != 0
}

func isNamesSet(fv *types.Var) bool {
	if fv.Exported() {
		return false
	}
	m, ok := fv.Type().Underlying().(*types.Map)
	if !ok {
		return false
	}
	k, ok1 := m.Key().Underlying().(*types.Basic)
	v, ok2 := m.Elem().Underlying().(*types.Basic)
	return ok1 && ok2 && k.Kind() == types.String && v.Kind() == types.Bool
}
