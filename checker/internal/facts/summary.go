package facts

import (
	"fmt"
	"go/ast"
	"go/constant"
	"go/token"
	"go/types"
	"math"
	"sort"
	"strings"

	"cvsslint/internal/load"

	"golang.org/x/tools/go/types/typeutil"
)

// A Summary is the finite-map denotation of a leaf function: an expression
// over its parameters built only from table look-ups (forward, reverse,
// membership), (in)equality tests, boolean connectives, constants and calls of
// other summarised functions. It is produced by a syntax-directed translation
// of a loop-free fragment of Go (the idioms F1-F6 of DESIGN.md in their
// if-, comma-ok- and switch-forms); anything outside the fragment makes the
// function UNDECIDED (Err != "").
type Summary struct {
	Fn     *types.Func
	Params []*types.Var // receiver first
	Body   Sum
	Err    string
	ErrPos token.Pos
	// Shape bookkeeping used by rules that need to know *which* tables a function reads.
	Reads      map[*Table]bool
	RangeLoops int
}

type Sum interface{ sum() }

type SConst struct{ V Value }
type SParam struct {
	V *types.Var
}
type STable struct{ T *Table }

// SLookup is m[key], yielding Default when the key is absent. Arr: x[i] on an array or slice (Default is the
// zero element; an index out of range is a run-time panic, which no summary value stands for).
type SLookup struct {
	M, Key  Sum
	Default Value
	Arr     bool
	// ElemZero: the element type is a type parameter; what a missing key yields is the zero value of the element
	// type of the table the look-up is evaluated on
	ElemZero bool
}

// SZeroTP is the zero value of a type parameter: decided at evaluation from the arguments the function is
// applied to (a parameter of that type, or a table whose key or element type it is).
type SZeroTP struct{ TP *types.TypeParam }

// SHas is the comma-ok result of m[key].
type SHas struct{ M, Key Sum }

// SRev is "the key k of m with m[k] == Val", Else when there is none.
type SRev struct {
	M, Val Sum
	Else   Sum
	Fold   bool // values compared with strings.EqualFold
}
type SCall struct {
	Fn   *types.Func
	Args []Sum // receiver first
	Pos  token.Pos
	ResT types.Type // the call's result type at this site (the instantiation of a generic callee's)
}
type SCmp struct {
	Neg  bool
	Fold bool // strings.EqualFold instead of ==
	A, B Sum
}
type SNot struct{ X Sum }
type SBin struct {
	And  bool // else Or
	A, B Sum
}
type SIte struct{ C, T, E Sum }

// SNone marks "control falls off the end without returning".
type SNone struct{}

// SLen is len(M) of a table.
type SLen struct{ M Sum }

// SOrd is an ordered comparison of two integers (Op one of < <= > >=).
type SOrd struct {
	Op    token.Token
	A, B  Sum
	Float bool // both operands are floats: decided only when both are constants
}

// SArith is integer arithmetic on small numbers: + - * & | ^ &^ << >> (results beyond 2^30 are not modelled,
// so that overflow of the real type cannot be missed).
type SArith struct {
	Op   token.Token
	A, B Sum
}

// STuple is what a multi-result function returns; SProj is component I of such a result.
type STuple struct{ Elems []Sum }
type SProj struct {
	X Sum
	I int
}

// SField is X.F for a struct value X (a row of a table of structs).
type SField struct {
	X Sum
	F *types.Var
}

// SStruct is a struct literal T{...} written in a function body.
type SStruct struct {
	T      *types.Struct
	Typ    types.Type
	Fields []*types.Var
	Vals   []Sum
}

// SConv is an integer-to-integer conversion T(X) that keeps the number.
type SConv struct {
	X Sum
	T types.Type
	// Same: source and target have the same basic kind, so every value is kept; otherwise the value must lie in
	// the range every integer type of the target's kind can hold
	Same bool
}

func (SConst) sum()  {}
func (SParam) sum()  {}
func (STable) sum()  {}
func (SLookup) sum() {}
func (SHas) sum()    {}
func (SZeroTP) sum() {}
func (SRev) sum()    {}
func (SCall) sum()   {}
func (SCmp) sum()    {}
func (SNot) sum()    {}
func (SBin) sum()    {}
func (SIte) sum()    {}
func (SNone) sum()   {}
func (SLen) sum()    {}
func (SOrd) sum()    {}
func (SArith) sum()  {}
func (SConv) sum()   {}
func (SField) sum()  {}
func (STuple) sum()  {}
func (SProj) sum()   {}
func (SStruct) sum() {}

// sumKey identifies a summary: the function and, for a specialisation, which parameters are which tables.
type sumKey struct {
	fn   *types.Func
	spec string
}

type sumErr struct {
	msg string
	pos token.Pos
}

type translator struct {
	f    *Facts
	info *types.Info
	s    *Summary
	// loops: the unrolled loops (and switches) being translated, innermost last
	loops []loopFrame
}

// loopFrame says where control goes on continue / break inside an unrolled loop; a switch frame
// (next == nil) only captures break, which is outside the fragment there.
type loopFrame struct {
	next func(env) Sum
	brk  func(env) Sum
}

// contStmt is a synthetic statement: "continue with k" (the rest of an unrolled loop).
type contStmt struct {
	ast.EmptyStmt
	k func(env) Sum
}

type env map[*types.Var]Sum

func (e env) clone() env {
	n := env{}
	for k, v := range e {
		n[k] = v
	}
	return n
}

// Summarise returns the (memoised) summary of a module function.
func (f *Facts) Summarise(fn *types.Func) *Summary { return f.summarise(fn, nil) }

// summarise: with bound != nil the parameters at those positions (receiver first) are the given literal tables -
// a specialisation for one call site of a helper that ranges over a table it is handed.
func (f *Facts) summarise(fn *types.Func, bound map[int]*Table) *Summary {
	if fn == nil {
		return &Summary{Err: "nil function"}
	}
	fn = fn.Origin()
	key := sumKey{fn: fn}
	if len(bound) > 0 {
		var idx []int
		for i := range bound {
			idx = append(idx, i)
		}
		sort.Ints(idx)
		for _, i := range idx {
			key.spec += fmt.Sprintf("%d=%p;", i, bound[i])
		}
	}
	if s, ok := f.sums[key]; ok {
		return s
	}
	s := &Summary{Fn: fn, Reads: map[*Table]bool{}}
	if f.busy[key] {
		s.Err = "recursive call chain through " + load.FuncName(fn)
		return s
	}
	f.busy[key] = true
	defer func() { f.busy[key] = false }()
	decl := f.Prog.Decl(fn)
	pk := f.Prog.PkgOf(fn)
	if decl == nil || decl.Body == nil || pk == nil || !load.IsLib(pk.PkgPath) {
		s.Err = "no source body in the library packages"
		f.sums[key] = s
		return s
	}
	sig := fn.Type().(*types.Signature)
	if sig.Results().Len() < 1 {
		s.Err = "a function without a result"
		s.ErrPos = decl.Pos()
		f.sums[key] = s
		return s
	}
	tr := &translator{f: f, info: pk.TypesInfo, s: s}
	e := env{}
	if sig.Recv() != nil {
		s.Params = append(s.Params, sig.Recv())
	}
	for i := 0; i < sig.Params().Len(); i++ {
		s.Params = append(s.Params, sig.Params().At(i))
	}
	for i, pv := range s.Params {
		if t := bound[i]; t != nil {
			e[pv] = STable{t}
			s.Reads[t] = true
			continue
		}
		e[pv] = SParam{pv}
	}
	// named results start as the zero value of their type (func f(..) (v T) { ...; return v })
	for i := 0; i < sig.Results().Len(); i++ {
		rv := sig.Results().At(i)
		if rv.Name() == "" || rv.Name() == "_" {
			continue
		}
		if tp, isTP := rv.Type().(*types.TypeParam); isTP {
			e[rv] = SZeroTP{TP: tp}
		} else if z := f.ZeroOf(rv.Type()); z.Kind != VInvalid {
			e[rv] = SConst{z}
		}
	}
	func() {
		defer func() {
			if r := recover(); r != nil {
				if se, ok := r.(sumErr); ok {
					s.Err = se.msg
					s.ErrPos = se.pos
					return
				}
				panic(r)
			}
		}()
		s.Body = tr.stmts(decl.Body.List, e)
		if containsNone(s.Body) {
			panic(sumErr{"a path falls off the end of the function", decl.Body.Rbrace})
		}
	}()
	f.sums[key] = s
	return s
}

func containsNone(s Sum) bool {
	switch x := s.(type) {
	case SNone:
		return true
	case SIte:
		return containsNone(x.T) || containsNone(x.E)
	case SRev:
		return containsNone(x.Else)
	}
	return false
}

func (tr *translator) fail(pos token.Pos, format string, a ...interface{}) {
	panic(sumErr{fmt.Sprintf(format, a...), pos})
}

func (tr *translator) stmts(list []ast.Stmt, e env) Sum {
	if len(list) == 0 {
		return SNone{}
	}
	st, rest := list[0], list[1:]
	switch s := st.(type) {
	case *ast.ReturnStmt:
		if len(s.Results) == 0 {
			tr.fail(s.Pos(), "bare return")
		}
		if len(s.Results) > 1 {
			var t STuple
			res := tr.s.Fn.Type().(*types.Signature).Results()
			for i, r := range s.Results {
				// nil in the position of a map result (go/types keeps that nil untyped)
				if id, ok := ast.Unparen(r).(*ast.Ident); ok && res.Len() == len(s.Results) {
					if _, isNil := tr.info.Uses[id].(*types.Nil); isNil {
						if _, isMap := res.At(i).Type().Underlying().(*types.Map); isMap {
							t.Elems = append(t.Elems, SConst{Value{Kind: VNilTable}})
							continue
						}
					}
				}
				t.Elems = append(t.Elems, tr.expr(r, e))
			}
			return t
		}
		return tr.expr(s.Results[0], e)
	case *ast.BlockStmt:
		return tr.stmts(append(append([]ast.Stmt{}, s.List...), rest...), e)
	case *contStmt:
		return s.k(e)
	case *ast.BranchStmt:
		if s.Label == nil && (s.Tok == token.CONTINUE || s.Tok == token.BREAK) {
			for i := len(tr.loops) - 1; i >= 0; i-- {
				fr := tr.loops[i]
				if fr.next == nil {
					if s.Tok == token.BREAK {
						break // break out of a switch: not modelled
					}
					continue
				}
				saved := tr.loops
				tr.loops = tr.loops[:i]
				var out Sum
				if s.Tok == token.CONTINUE {
					out = fr.next(e)
				} else {
					out = fr.brk(e)
				}
				tr.loops = saved
				return out
			}
		}
		tr.fail(s.Pos(), "%s is outside the leaf-function fragment here", s.Tok)
	case *ast.EmptyStmt:
		return tr.stmts(rest, e)
	case *ast.DeclStmt:
		gd, ok := s.Decl.(*ast.GenDecl)
		if !ok || gd.Tok != token.VAR {
			tr.fail(s.Pos(), "unsupported declaration")
		}
		e = e.clone()
		for _, sp := range gd.Specs {
			vs := sp.(*ast.ValueSpec)
			for i, n := range vs.Names {
				v, _ := tr.info.Defs[n].(*types.Var)
				if v == nil {
					continue
				}
				if i < len(vs.Values) {
					e[v] = tr.expr(vs.Values[i], e)
				} else if tp, isTP := v.Type().(*types.TypeParam); isTP {
					e[v] = SZeroTP{TP: tp} // var zero K: the zero value of whatever K is at the call
				} else {
					z := tr.f.ZeroOf(v.Type())
					if z.Kind == VInvalid {
						tr.fail(n.Pos(), "%s", z.Why)
					}
					e[v] = SConst{z}
				}
			}
		}
		return tr.stmts(rest, e)
	case *ast.AssignStmt:
		e = tr.assign(s, e)
		return tr.stmts(rest, e)
	case *ast.IfStmt:
		e2 := e
		if s.Init != nil {
			as, ok := s.Init.(*ast.AssignStmt)
			if !ok {
				tr.fail(s.Init.Pos(), "unsupported if-initialiser")
			}
			e2 = tr.assign(as, e)
		}
		c := tr.expr(s.Cond, e2)
		thenS := tr.stmts(append(append([]ast.Stmt{}, s.Body.List...), rest...), e2)
		var elseS Sum
		if s.Else != nil {
			elseS = tr.stmts(append([]ast.Stmt{s.Else}, rest...), e2)
		} else {
			// variables assigned in the body do not leak unless the body falls through;
			// a fall-through body that assigns is handled because thenS was built with
			// the body's own environment; the else side continues with e2.
			elseS = tr.stmts(rest, e2)
		}
		return SIte{c, thenS, elseS}
	case *ast.SwitchStmt:
		return tr.switchStmt(s, rest, e)
	case *ast.RangeStmt:
		return tr.rangeStmt(s, rest, e)
	case *ast.ForStmt:
		return tr.forStmt(s, rest, e)
	case *ast.IncDecStmt:
		return tr.stmts(rest, tr.incDec(s, e))
	}
	tr.fail(st.Pos(), "statement form %T is outside the leaf-function fragment", st)
	return nil
}

// localVar resolves an assigned identifier to a local variable.
func (tr *translator) localVar(x ast.Expr) *types.Var {
	id, ok := ast.Unparen(x).(*ast.Ident)
	if !ok {
		tr.fail(x.Pos(), "assignment to a non-local location")
	}
	obj := tr.info.Uses[id]
	if o := tr.info.Defs[id]; o != nil {
		obj = o
	}
	v, ok := obj.(*types.Var)
	if !ok || v.Parent() == nil || v.Parent() == v.Pkg().Scope() || v.IsField() {
		tr.fail(x.Pos(), "assignment to a package-level variable or field")
	}
	return v
}

func isFloatType(t types.Type) bool {
	if t == nil {
		return false
	}
	b, ok := t.Underlying().(*types.Basic)
	return ok && b.Info()&types.IsFloat != 0
}

func isIntType(t types.Type) bool {
	if t == nil {
		return false
	}
	if tp, ok := t.(*types.TypeParam); ok {
		// a type parameter whose type set holds integer types only (~int)
		iface, _ := tp.Constraint().Underlying().(*types.Interface)
		if iface == nil || iface.NumEmbeddeds() == 0 {
			return false
		}
		all := true
		for i := 0; i < iface.NumEmbeddeds(); i++ {
			u, ok := iface.EmbeddedType(i).(*types.Union)
			if !ok {
				all = all && isIntType(iface.EmbeddedType(i))
				continue
			}
			for j := 0; j < u.Len(); j++ {
				all = all && isIntType(u.Term(j).Type())
			}
		}
		return all
	}
	b, ok := t.Underlying().(*types.Basic)
	return ok && b.Info()&types.IsInteger != 0
}

// incDec: x++ / x-- on a local integer.
func (tr *translator) incDec(s *ast.IncDecStmt, e env) env {
	v := tr.localVar(s.X)
	cur, ok := e[v]
	if !ok || !isIntType(v.Type()) {
		tr.fail(s.Pos(), "%s of something that is not a local integer", s.Tok)
	}
	op := token.ADD
	if s.Tok == token.DEC {
		op = token.SUB
	}
	e = e.clone()
	e[v] = tr.fold(SArith{Op: op, A: cur, B: SConst{Value{Kind: VConst, C: constant.MakeInt64(1), Type: v.Type()}}})
	return e
}

// fold replaces a parameter-free expression by its value.
func (tr *translator) fold(s Sum) Sum {
	if v := tr.f.eval(s, nil); v.Kind == VConst {
		return SConst{v}
	}
	return s
}

// forStmt unrolls a counting loop  for i := c; cond(i); i++ { body }  whose condition is decided by the loop
// variable and the tables alone (the trip count is then a fact about the literal tables, like the entries).
func (tr *translator) forStmt(s *ast.ForStmt, rest []ast.Stmt, e env) Sum {
	if s.Cond == nil {
		tr.fail(s.Pos(), "for loop without a condition")
	}
	if s.Init != nil {
		as, ok := s.Init.(*ast.AssignStmt)
		if !ok {
			tr.fail(s.Init.Pos(), "unsupported for-initialiser")
		}
		e = tr.assign(as, e)
	}
	post := func(e2 env) env {
		switch p := s.Post.(type) {
		case nil:
			return e2
		case *ast.IncDecStmt:
			return tr.incDec(p, e2)
		case *ast.AssignStmt:
			e3 := tr.assign(p, e2)
			for _, l := range p.Lhs {
				if v := tr.localVar(l); v != nil {
					e3[v] = tr.fold(e3[v])
				}
			}
			return e3
		}
		tr.fail(s.Post.Pos(), "unsupported for-post statement")
		return nil
	}
	after := func(e2 env) Sum { return tr.stmts(rest, e2) }
	var iter func(n int, e2 env) Sum
	iter = func(n int, e2 env) Sum {
		if n > 64 {
			tr.fail(s.Pos(), "for loop not finished after 64 iterations")
		}
		c, bad, ok := tr.f.evalBool(tr.expr(s.Cond, e2), nil)
		if !ok {
			tr.fail(s.Cond.Pos(), "loop condition is not decided by the loop variable and the tables alone (%s)", bad.Why)
		}
		if !c {
			return after(e2)
		}
		next := func(e4 env) Sum { return iter(n+1, post(e4)) }
		depth := len(tr.loops)
		tr.loops = append(tr.loops, loopFrame{next: next, brk: after})
		body := append(append([]ast.Stmt{}, s.Body.List...), &contStmt{k: func(e4 env) Sum {
			saved := tr.loops
			tr.loops = tr.loops[:depth]
			out := next(e4)
			tr.loops = saved
			return out
		}})
		out := tr.stmts(body, e2)
		tr.loops = tr.loops[:depth]
		return out
	}
	return iter(0, e)
}

// assign handles  x = e,  x := e,  x += e,  v, ok := m[k],  _, ok := m[k].
func (tr *translator) assign(s *ast.AssignStmt, e env) env {
	e = e.clone()
	if (s.Tok == token.ADD_ASSIGN || s.Tok == token.SUB_ASSIGN) && len(s.Lhs) == 1 && len(s.Rhs) == 1 {
		v := tr.localVar(s.Lhs[0])
		cur, ok := e[v]
		if !ok || !isIntType(v.Type()) {
			tr.fail(s.Pos(), "%s on something that is not a local integer", s.Tok)
		}
		op := token.ADD
		if s.Tok == token.SUB_ASSIGN {
			op = token.SUB
		}
		e[v] = SArith{Op: op, A: cur, B: tr.expr(s.Rhs[0], e)}
		return e
	}
	if s.Tok != token.ASSIGN && s.Tok != token.DEFINE {
		tr.fail(s.Pos(), "assignment operator %s is outside the fragment", s.Tok)
	}
	lhsVar := func(x ast.Expr) *types.Var {
		id, ok := ast.Unparen(x).(*ast.Ident)
		if !ok {
			tr.fail(x.Pos(), "assignment to a non-local location")
		}
		if id.Name == "_" {
			return nil
		}
		var obj types.Object
		if o := tr.info.Defs[id]; o != nil {
			obj = o
		} else {
			obj = tr.info.Uses[id]
		}
		v, ok := obj.(*types.Var)
		if !ok || v.Parent() == nil || v.Parent() == v.Pkg().Scope() || v.IsField() {
			tr.fail(x.Pos(), "assignment to a package-level variable or field")
		}
		return v
	}
	if len(s.Lhs) >= 2 && len(s.Rhs) == 1 {
		if call, isCall := ast.Unparen(s.Rhs[0]).(*ast.CallExpr); isCall {
			// x, y := f(...)  for a summarised multi-result function
			m := tr.expr(call, e)
			for i, l := range s.Lhs {
				if v := lhsVar(l); v != nil {
					e[v] = SProj{X: m, I: i}
				}
			}
			return e
		}
	}
	if len(s.Lhs) == 2 && len(s.Rhs) == 1 {
		ix, ok := ast.Unparen(s.Rhs[0]).(*ast.IndexExpr)
		if !ok {
			tr.fail(s.Pos(), "two-value assignment that is not a comma-ok map look-up")
		}
		m := tr.expr(ix.X, e)
		mt, ok := tr.info.TypeOf(ix.X).Underlying().(*types.Map)
		if !ok {
			tr.fail(ix.Pos(), "comma-ok on a non-map")
		}
		k := tr.expr(ix.Index, e)
		z := tr.f.ZeroOf(mt.Elem())
		_, elemParam := mt.Elem().(*types.TypeParam)
		if z.Kind == VInvalid && !elemParam {
			tr.fail(ix.Pos(), "%s", z.Why)
		}
		if v := lhsVar(s.Lhs[0]); v != nil {
			e[v] = SLookup{M: m, Key: k, Default: z, ElemZero: elemParam}
		}
		if v := lhsVar(s.Lhs[1]); v != nil {
			e[v] = SHas{M: m, Key: k}
		}
		return e
	}
	if len(s.Lhs) != len(s.Rhs) {
		tr.fail(s.Pos(), "unbalanced assignment")
	}
	vals := make([]Sum, len(s.Rhs))
	for i, r := range s.Rhs {
		vals[i] = tr.expr(r, e)
	}
	for i, l := range s.Lhs {
		if v := lhsVar(l); v != nil {
			e[v] = vals[i]
		}
	}
	return e
}

func (tr *translator) switchStmt(s *ast.SwitchStmt, rest []ast.Stmt, e env) Sum {
	if s.Init != nil {
		as, ok := s.Init.(*ast.AssignStmt)
		if !ok {
			tr.fail(s.Init.Pos(), "unsupported switch-initialiser")
		}
		e = tr.assign(as, e)
	}
	var tag Sum
	tagIsTrue := false
	if s.Tag == nil {
		tagIsTrue = true
	} else if tv, ok := tr.info.Types[s.Tag]; ok && tv.Value != nil && tv.Value.Kind() == constant.Bool {
		if !constant.BoolVal(tv.Value) {
			tr.fail(s.Tag.Pos(), "switch false")
		}
		tagIsTrue = true
	} else {
		tag = tr.expr(s.Tag, e)
	}
	type arm struct {
		cond Sum
		body []ast.Stmt
	}
	var arms []arm
	var def []ast.Stmt
	hasDef := false
	for _, c := range s.Body.List {
		cc := c.(*ast.CaseClause)
		for _, b := range cc.Body {
			if br, ok := b.(*ast.BranchStmt); ok {
				tr.fail(br.Pos(), "%s inside switch is outside the fragment", br.Tok)
			}
		}
		if cc.List == nil {
			hasDef = true
			def = cc.Body
			continue
		}
		var cond Sum
		for _, x := range cc.List {
			var one Sum
			if tagIsTrue {
				one = tr.expr(x, e)
			} else {
				one = SCmp{A: tag, B: tr.expr(x, e)}
			}
			if cond == nil {
				cond = one
			} else {
				cond = SBin{And: false, A: cond, B: one}
			}
		}
		arms = append(arms, arm{cond, cc.Body})
	}
	tr.loops = append(tr.loops, loopFrame{})
	defer func() { tr.loops = tr.loops[:len(tr.loops)-1] }()
	var out Sum
	if hasDef {
		out = tr.stmts(append(append([]ast.Stmt{}, def...), rest...), e)
	} else {
		out = tr.stmts(rest, e)
	}
	for i := len(arms) - 1; i >= 0; i-- {
		body := tr.stmts(append(append([]ast.Stmt{}, arms[i].body...), rest...), e)
		out = SIte{arms[i].cond, body, out}
	}
	return out
}

// rangeStmt recognises the reverse look-up loop
//
//	for k, v := range M { if X == v { return k } }
//
// (operands of == in either order).
func (tr *translator) rangeStmt(s *ast.RangeStmt, rest []ast.Stmt, e env) Sum {
	if lit, ok := ast.Unparen(s.X).(*ast.CompositeLit); ok {
		switch tr.info.TypeOf(lit).Underlying().(type) {
		case *types.Array, *types.Slice:
			return tr.unrollRange(s, lit, rest, e)
		}
	}
	if _, _, arr, ok := tableTypes(tr.info.TypeOf(s.X)); ok && arr {
		// range over an array or slice table: unrolled in index order over the literal's elements
		if st, ok := tr.expr(s.X, e).(STable); ok && st.T.Arr && st.T.Len <= 64 {
			z := tr.f.ZeroOf(st.T.ElemT)
			if z.Kind == VInvalid {
				tr.fail(s.Pos(), "%s", z.Why)
			}
			elems := make([]Sum, st.T.Len)
			for i := range elems {
				elems[i] = tr.fold(SLookup{M: st, Key: SConst{Value{Kind: VConst, C: constant.MakeInt64(int64(i)), Type: types.Typ[types.Int]}}, Default: z, Arr: true})
			}
			return tr.unrollElems(s, elems, rest, e)
		}
		tr.fail(s.Pos(), "range over an array or slice that is not a literal table")
	}
	if _, ok := tr.info.TypeOf(s.X).Underlying().(*types.Map); !ok {
		tr.fail(s.Pos(), "range over something that is neither a map nor an array/slice literal")
	}
	if s.Tok != token.DEFINE || s.Key == nil || s.Value == nil {
		tr.fail(s.Pos(), "range loop is not of the form  for k, v := range M")
	}
	if _, ok := s.Key.(*ast.Ident); !ok {
		tr.fail(s.Pos(), "range loop is not of the form  for k, v := range M")
	}
	if _, ok := s.Value.(*ast.Ident); !ok {
		tr.fail(s.Pos(), "range loop is not of the form  for k, v := range M")
	}
	kv, _ := tr.info.Defs[s.Key.(*ast.Ident)].(*types.Var)
	vv, _ := tr.info.Defs[s.Value.(*ast.Ident)].(*types.Var)
	if kv == nil || vv == nil {
		tr.fail(s.Pos(), "range loop without key and value variables")
	}
	// accepted bodies:
	//   if C { return k }
	//   if !C { continue } ; return k          (C written as == / != / strings.EqualFold)
	var cond ast.Expr
	negated := false
	var ret *ast.ReturnStmt
	body := s.Body.List
	switch {
	case len(body) == 1:
		ifs, ok := body[0].(*ast.IfStmt)
		if !ok || ifs.Init != nil || ifs.Else != nil || len(ifs.Body.List) != 1 {
			tr.fail(s.Body.Pos(), "range loop body is not  if X == v { return k }")
		}
		cond = ifs.Cond
		ret, _ = ifs.Body.List[0].(*ast.ReturnStmt)
	case len(body) == 2:
		ifs, ok := body[0].(*ast.IfStmt)
		if !ok || ifs.Init != nil || ifs.Else != nil || len(ifs.Body.List) != 1 {
			tr.fail(s.Body.Pos(), "range loop body is not  if X != v { continue }; return k")
		}
		br, ok := ifs.Body.List[0].(*ast.BranchStmt)
		if !ok || br.Tok != token.CONTINUE || br.Label != nil {
			tr.fail(s.Body.Pos(), "range loop body is not  if X != v { continue }; return k")
		}
		cond = ifs.Cond
		negated = true
		ret, _ = body[1].(*ast.ReturnStmt)
	default:
		tr.fail(s.Pos(), "range loop body is not a reverse look-up")
	}
	cond = ast.Unparen(cond)
	if u, ok := cond.(*ast.UnaryExpr); ok && u.Op == token.NOT {
		cond = ast.Unparen(u.X)
		negated = !negated
	}
	isV := func(x ast.Expr) bool {
		id, ok := ast.Unparen(x).(*ast.Ident)
		return ok && tr.info.Uses[id] == vv
	}
	var x0, x1 ast.Expr
	fold := false
	switch c := cond.(type) {
	case *ast.BinaryExpr:
		switch c.Op {
		case token.EQL:
		case token.NEQ:
			negated = !negated
		default:
			tr.fail(cond.Pos(), "range loop condition is not an equality")
		}
		x0, x1 = c.X, c.Y
	case *ast.CallExpr:
		callee, _ := typeutil.Callee(tr.info, c).(*types.Func)
		if callee == nil || callee.FullName() != "strings.EqualFold" || len(c.Args) != 2 {
			tr.fail(cond.Pos(), "range loop condition is not an equality")
		}
		fold = true
		x0, x1 = c.Args[0], c.Args[1]
	default:
		tr.fail(cond.Pos(), "range loop condition is not an equality")
	}
	if negated {
		tr.fail(cond.Pos(), "range loop returns the key of a non-matching entry")
	}
	var other ast.Expr
	switch {
	case isV(x1) && !isV(x0):
		other = x0
	case isV(x0) && !isV(x1):
		other = x1
	default:
		tr.fail(cond.Pos(), "range loop condition does not compare the map value with one other expression")
	}
	if ret == nil || len(ret.Results) != 1 {
		tr.fail(s.Body.Pos(), "range loop does not return the key")
	}
	if id, ok := ast.Unparen(ret.Results[0]).(*ast.Ident); !ok || tr.info.Uses[id] != kv {
		tr.fail(ret.Pos(), "range loop does not return the key")
	}
	// the compared expression must not mention k or v
	ast.Inspect(other, func(n ast.Node) bool {
		if id, ok := n.(*ast.Ident); ok && (tr.info.Uses[id] == kv || tr.info.Uses[id] == vv) {
			tr.fail(id.Pos(), "compared expression depends on the loop variables")
		}
		return true
	})
	tr.s.RangeLoops++
	return SRev{M: tr.expr(s.X, e), Val: tr.expr(other, e), Else: tr.stmts(rest, e), Fold: fold}
}

// unrollRange translates  for i, v := range [...]T{e0, e1, ...} { body }  by unrolling: the element
// expressions are evaluated once, in order, before the first iteration (they are pure in this fragment).
func (tr *translator) unrollRange(s *ast.RangeStmt, lit *ast.CompositeLit, rest []ast.Stmt, e env) Sum {
	if len(lit.Elts) > 16 {
		tr.fail(s.Pos(), "range over a literal with more than 16 elements")
	}
	elems := make([]Sum, len(lit.Elts))
	for i, el := range lit.Elts {
		if _, keyed := el.(*ast.KeyValueExpr); keyed {
			tr.fail(el.Pos(), "keyed element in a ranged literal")
		}
		elems[i] = tr.expr(el, e)
	}
	return tr.unrollElems(s, elems, rest, e)
}

func (tr *translator) unrollElems(s *ast.RangeStmt, elems []Sum, rest []ast.Stmt, e env) Sum {
	var kv, vv *types.Var
	if s.Tok == token.DEFINE {
		if id, ok := s.Key.(*ast.Ident); ok && id.Name != "_" {
			kv, _ = tr.info.Defs[id].(*types.Var)
		}
		if id, ok := s.Value.(*ast.Ident); ok && id.Name != "_" {
			vv, _ = tr.info.Defs[id].(*types.Var)
		}
	} else if s.Key != nil || s.Value != nil {
		tr.fail(s.Pos(), "range loop assigning to existing variables")
	}
	after := func(e2 env) Sum { return tr.stmts(rest, e2) }
	var iter func(i int, e2 env) Sum
	iter = func(i int, e2 env) Sum {
		if i == len(elems) {
			return after(e2)
		}
		e3 := e2.clone()
		if kv != nil {
			e3[kv] = SConst{Value{Kind: VConst, C: constant.MakeInt64(int64(i)), Type: types.Typ[types.Int]}}
		}
		if vv != nil {
			e3[vv] = elems[i]
		}
		next := func(e4 env) Sum { return iter(i+1, e4) }
		depth := len(tr.loops)
		tr.loops = append(tr.loops, loopFrame{next: next, brk: after})
		body := append(append([]ast.Stmt{}, s.Body.List...), &contStmt{k: func(e4 env) Sum {
			// falling off the body: leave this iteration's frame (and any switch inside it) before starting the next one
			saved := tr.loops
			tr.loops = tr.loops[:depth]
			out := next(e4)
			tr.loops = saved
			return out
		}})
		out := tr.stmts(body, e3)
		tr.loops = tr.loops[:depth]
		return out
	}
	return iter(0, e)
}

func (tr *translator) expr(x ast.Expr, e env) Sum {
	x = ast.Unparen(x)
	if tv, ok := tr.info.Types[x]; ok && tv.Value != nil {
		v := tr.f.StaticValue(tr.info, x)
		if v.Kind == VConst {
			return SConst{v}
		}
		return SConst{Value{Kind: VConst, C: tv.Value, Type: tv.Type}}
	}
	switch n := x.(type) {
	case *ast.Ident:
		obj := tr.info.Uses[n]
		switch o := obj.(type) {
		case *types.Var:
			if s, ok := e[o]; ok {
				return s
			}
			if t := tr.f.Tables[o]; t != nil {
				tr.s.Reads[t] = true
				return STable{t}
			}
			if o.Pkg() != nil && o.Parent() == o.Pkg().Scope() {
				return SConst{Value{Kind: VObj, Obj: o, Type: o.Type()}}
			}
		case *types.Nil:
			// a nil map (typed by context, or the untyped nil returned from a function whose result is a map)
			if t := tr.info.TypeOf(n); t != nil {
				if _, ok := t.Underlying().(*types.Map); ok {
					return SConst{Value{Kind: VNilTable}}
				}
			}
			if res := tr.s.Fn.Type().(*types.Signature).Results(); res.Len() == 1 {
				if _, ok := res.At(0).Type().Underlying().(*types.Map); ok {
					return SConst{Value{Kind: VNilTable}}
				}
			}
		}
		tr.fail(n.Pos(), "identifier %s is outside the fragment", n.Name)
	case *ast.SelectorExpr:
		if sel := tr.info.Selections[n]; sel != nil {
			if fv, ok := sel.Obj().(*types.Var); ok && sel.Kind() == types.FieldVal && len(sel.Index()) == 1 {
				if st, isStruct := tr.info.TypeOf(n.X).Underlying().(*types.Struct); isStruct && dataStruct(st) {
					return SField{X: tr.expr(n.X, e), F: fv}
				}
			}
			tr.fail(n.Pos(), "field or method value %s is outside the fragment", n.Sel.Name)
		}
		if o, ok := tr.info.Uses[n.Sel].(*types.Var); ok {
			if t := tr.f.Tables[o]; t != nil {
				tr.s.Reads[t] = true
				return STable{t}
			}
			if o.Pkg() != nil && o.Parent() == o.Pkg().Scope() {
				return SConst{Value{Kind: VObj, Obj: o, Type: o.Type()}}
			}
		}
		tr.fail(n.Pos(), "selector %s is outside the fragment", n.Sel.Name)
	case *ast.UnaryExpr:
		if n.Op == token.NOT {
			return SNot{tr.expr(n.X, e)}
		}
		tr.fail(n.Pos(), "unary %s is outside the fragment", n.Op)
	case *ast.BinaryExpr:
		switch n.Op {
		case token.EQL, token.NEQ:
			// m == nil for a map m
			isNil := func(x ast.Expr) bool {
				id, ok := ast.Unparen(x).(*ast.Ident)
				if !ok {
					return false
				}
				_, isNil := tr.info.Uses[id].(*types.Nil)
				return isNil
			}
			isMap := func(x ast.Expr) bool {
				t := tr.info.TypeOf(x)
				if t == nil {
					return false
				}
				_, ok := t.Underlying().(*types.Map)
				return ok
			}
			switch {
			case isNil(n.Y) && isMap(n.X):
				return SCmp{Neg: n.Op == token.NEQ, A: tr.expr(n.X, e), B: SConst{Value{Kind: VNilTable}}}
			case isNil(n.X) && isMap(n.Y):
				return SCmp{Neg: n.Op == token.NEQ, A: SConst{Value{Kind: VNilTable}}, B: tr.expr(n.Y, e)}
			}
			return SCmp{Neg: n.Op == token.NEQ, A: tr.expr(n.X, e), B: tr.expr(n.Y, e)}
		case token.LAND, token.LOR:
			return SBin{And: n.Op == token.LAND, A: tr.expr(n.X, e), B: tr.expr(n.Y, e)}
		case token.LSS, token.LEQ, token.GTR, token.GEQ:
			if isIntType(tr.info.TypeOf(n.X)) && isIntType(tr.info.TypeOf(n.Y)) {
				return SOrd{Op: n.Op, A: tr.expr(n.X, e), B: tr.expr(n.Y, e)}
			}
			// two floats (a score against a threshold): decided when both are constants at evaluation
			if isFloatType(tr.info.TypeOf(n.X)) && isFloatType(tr.info.TypeOf(n.Y)) {
				return SOrd{Op: n.Op, A: tr.expr(n.X, e), B: tr.expr(n.Y, e), Float: true}
			}
		case token.ADD, token.SUB, token.MUL, token.AND, token.OR, token.XOR, token.AND_NOT, token.SHL, token.SHR:
			if isIntType(tr.info.TypeOf(n.X)) && isIntType(tr.info.TypeOf(n.Y)) {
				return SArith{Op: n.Op, A: tr.expr(n.X, e), B: tr.expr(n.Y, e)}
			}
		}
		tr.fail(n.Pos(), "operator %s is outside the fragment", n.Op)
	case *ast.IndexExpr:
		_, et, arr, ok := tableTypes(tr.info.TypeOf(n.X))
		if !ok {
			tr.fail(n.Pos(), "index of something that is not a map, an array or a slice")
		}
		z := tr.f.ZeroOf(et)
		_, elemParam := et.(*types.TypeParam)
		if z.Kind == VInvalid && !elemParam {
			tr.fail(n.Pos(), "%s", z.Why)
		}
		return SLookup{M: tr.expr(n.X, e), Key: tr.expr(n.Index, e), Default: z, Arr: arr, ElemZero: elemParam}
	case *ast.SliceExpr:
		// x[:] of an array or slice table: the same elements
		if n.Low == nil && n.High == nil && n.Max == nil {
			if _, _, arr, ok := tableTypes(tr.info.TypeOf(n.X)); ok && arr {
				return tr.expr(n.X, e)
			}
		}
		tr.fail(n.Pos(), "slice expression with bounds is outside the fragment")
	case *ast.CallExpr:
		if tv, ok := tr.info.Types[n.Fun]; ok && tv.IsType() {
			if len(n.Args) == 1 && isIntType(tv.Type) && isIntType(tr.info.TypeOf(n.Args[0])) {
				return SConv{X: tr.expr(n.Args[0], e), T: tv.Type, Same: tr.sameWidth(tv.Type, tr.info.TypeOf(n.Args[0]))}
			}
			tr.fail(n.Pos(), "conversion (other than between integer types) is outside the fragment")
		}
		// len(m) of a map
		if id, ok := ast.Unparen(n.Fun).(*ast.Ident); ok && len(n.Args) == 1 {
			if bi, ok := tr.info.Uses[id].(*types.Builtin); ok && bi.Name() == "len" {
				if _, _, _, isTab := tableTypes(tr.info.TypeOf(n.Args[0])); isTab {
					return SLen{M: tr.expr(n.Args[0], e)}
				}
				if bt, ok := tr.info.TypeOf(n.Args[0]).Underlying().(*types.Basic); ok && bt.Info()&types.IsString != 0 {
					return SLen{M: tr.expr(n.Args[0], e)}
				}
			}
		}
		callee, _ := typeutil.Callee(tr.info, n).(*types.Func)
		if callee != nil && callee.FullName() == "strings.EqualFold" && len(n.Args) == 2 {
			return SCmp{Fold: true, A: tr.expr(n.Args[0], e), B: tr.expr(n.Args[1], e)}
		}
		if callee != nil && (callee.FullName() == "math.IsNaN" || callee.FullName() == "math.IsInf") {
			// the abstract domain holds the numbers the program and the specification mention: no NaN, no infinity
			return SConst{boolVal(false)}
		}
		if callee == nil || callee.Pkg() == nil || !load.IsLib(callee.Pkg().Path()) {
			tr.fail(n.Pos(), "call of a function outside the library packages or a dynamic call")
		}
		var args []Sum
		if sel, ok := ast.Unparen(n.Fun).(*ast.SelectorExpr); ok {
			if s := tr.info.Selections[sel]; s != nil {
				if s.Kind() != types.MethodVal || len(s.Index()) != 1 {
					tr.fail(n.Pos(), "promoted or indirect method call is outside the fragment")
				}
				args = append(args, tr.expr(sel.X, e))
			}
		}
		for _, a := range n.Args {
			args = append(args, tr.expr(a, e))
		}
		return SCall{Fn: callee, Args: args, Pos: n.Pos(), ResT: tr.info.TypeOf(n)}
	}
	if cl, ok := x.(*ast.CompositeLit); ok {
		if st, isStruct := tr.info.TypeOf(cl).Underlying().(*types.Struct); isStruct && dataStruct(st) {
			out := SStruct{T: st, Typ: tr.info.TypeOf(cl)}
			for i, el := range cl.Elts {
				var fv *types.Var
				val := el
				if kv, ok := el.(*ast.KeyValueExpr); ok {
					if id, ok := kv.Key.(*ast.Ident); ok {
						fv, _ = tr.info.Uses[id].(*types.Var)
					}
					val = kv.Value
				} else if i < st.NumFields() {
					fv = st.Field(i)
				}
				if fv == nil {
					tr.fail(el.Pos(), "struct literal element without a resolvable field")
				}
				out.Fields = append(out.Fields, fv)
				out.Vals = append(out.Vals, tr.expr(val, e))
			}
			return out
		}
	}
	tr.fail(x.Pos(), "expression form %T is outside the fragment", x)
	return nil
}

// sameWidth: a conversion between the two integer types keeps every value (same basic kind, e.g. a named
// int type and int; a type parameter counts as its core type).
func (tr *translator) sameWidth(a, b types.Type) bool {
	kind := func(t types.Type) types.BasicKind {
		if tp, ok := t.(*types.TypeParam); ok {
			iface, _ := tp.Constraint().Underlying().(*types.Interface)
			k := types.Invalid
			if iface != nil {
				for i := 0; i < iface.NumEmbeddeds(); i++ {
					et := iface.EmbeddedType(i)
					var ts []types.Type
					if u, ok := et.(*types.Union); ok {
						for j := 0; j < u.Len(); j++ {
							ts = append(ts, u.Term(j).Type())
						}
					} else {
						ts = append(ts, et)
					}
					for _, t := range ts {
						b, ok := t.Underlying().(*types.Basic)
						if !ok || (k != types.Invalid && b.Kind() != k) {
							return types.Invalid
						}
						k = b.Kind()
					}
				}
			}
			return k
		}
		if b, ok := t.Underlying().(*types.Basic); ok {
			return b.Kind()
		}
		return types.Invalid
	}
	ka, kb := kind(a), kind(b)
	return ka != types.Invalid && ka == kb
}

// fitsKind: every integer type of t's basic kind (int counted as 32 bits) holds the number c.
func fitsKind(c constant.Value, t types.Type) bool {
	i, exact := constant.Int64Val(c)
	if !exact {
		return false
	}
	k := types.Int
	if b, ok := t.Underlying().(*types.Basic); ok {
		k = b.Kind()
	}
	switch k {
	case types.Int8:
		return -128 <= i && i <= 127
	case types.Uint8:
		return 0 <= i && i <= 255
	case types.Int16:
		return -32768 <= i && i <= 32767
	case types.Uint16:
		return 0 <= i && i <= 65535
	case types.Uint, types.Uint32, types.Uint64, types.Uintptr:
		return 0 <= i && i <= 1<<32-1
	}
	return -(1<<31) <= i && i <= 1<<31-1
}

// numOf: the integer an abstract value stands for: a constant, or a concrete out-of-range representative.
func numOf(v Value) (constant.Value, bool) {
	if (v.Kind == VConst || v.Kind == VOther) && v.C != nil && v.C.Kind() == constant.Int {
		return v.C, true
	}
	return nil, false
}

// ---------------------------------------------------------------------------
// Denotation of a summary on the finite abstract domain.

// Eval evaluates fn's summary on abstract arguments (receiver first).
func (f *Facts) Eval(fn *types.Func, args ...Value) Value {
	s := f.Summarise(fn)
	if s.Err != "" {
		// a helper that loops over a table it is handed: summarise it for this table
		bound := map[int]*Table{}
		for i, a := range args {
			if a.Kind == VTable && a.T != nil {
				bound[i] = a.T
			}
		}
		if len(bound) > 0 {
			if s2 := f.summarise(fn, bound); s2.Err == "" {
				s = s2
			} else {
				s = s2 // what stops the summary for the table handed in says more than what stops the general one
			}
		}
	}
	if s.Err != "" {
		return Value{Kind: VInvalid, Why: fmt.Sprintf("%s is not summarised: %s (%s)", load.FuncName(fn), s.Err, f.Prog.Pos(s.ErrPos))}
	}
	if len(args) != len(s.Params) {
		return Value{Kind: VInvalid, Why: fmt.Sprintf("%s: %d arguments for %d parameters", load.FuncName(fn), len(args), len(s.Params))}
	}
	b := map[*types.Var]Value{}
	for i, pv := range s.Params {
		b[pv] = args[i]
	}
	return f.eval(s.Body, b)
}

// intValue is the integer c as a value of type t: the declared constant when t is an enumeration that has one.
func (f *Facts) intValue(c constant.Value, t types.Type) Value {
	v := Value{Kind: VConst, C: c, Type: t}
	if t != nil {
		if e := f.EnumOf(t); e != nil {
			if i, ok := constant.Int64Val(c); ok {
				if k := e.ConstByVal(i); k != nil {
					v.Obj = k
				}
			}
		}
	}
	return v
}

func boolVal(b bool) Value {
	return Value{Kind: VConst, C: constant.MakeBool(b), Type: types.Typ[types.Bool]}
}

// evalBool evaluates a condition; ok is false when it could not be decided (bad then says why).
func (f *Facts) evalBool(s Sum, b map[*types.Var]Value) (val bool, bad Value, ok bool) {
	v := f.eval(s, b)
	if v.Kind != VConst || v.C == nil || v.C.Kind() != constant.Bool {
		if v.Kind == VInvalid || v.Kind == VAmbiguous {
			return false, v, false
		}
		return false, Value{Kind: VInvalid, Why: "condition is not a boolean: " + v.String()}, false
	}
	return constant.BoolVal(v.C), Value{}, true
}

func (f *Facts) evalTable(s Sum, b map[*types.Var]Value) (*Table, bool, Value) {
	v := f.eval(s, b)
	switch v.Kind {
	case VTable:
		return v.T, true, Value{}
	case VNilTable:
		return nil, true, Value{}
	case VInvalid, VAmbiguous:
		return nil, false, v
	case VObj:
		// an element that names another package-level literal table (one shared sub-table used in several tables)
		if tv, ok := v.Obj.(*types.Var); ok {
			if t := f.Tables[tv]; t != nil {
				return t, true, Value{}
			}
		}
	}
	return nil, false, Value{Kind: VInvalid, Why: "not a table: " + v.String()}
}

func (f *Facts) eval(s Sum, b map[*types.Var]Value) Value {
	switch x := s.(type) {
	case SConst:
		return x.V
	case SParam:
		v, ok := b[x.V]
		if !ok {
			return Value{Kind: VInvalid, Why: "unbound parameter " + x.V.Name()}
		}
		return v
	case STable:
		return Value{Kind: VTable, T: x.T}
	case SLookup:
		t, ok, bad := f.evalTable(x.M, b)
		if !ok {
			return bad
		}
		k := f.eval(x.Key, b)
		if k.Kind == VInvalid || k.Kind == VAmbiguous {
			return k
		}
		if x.Arr || (t != nil && t.Arr) {
			if t == nil || !t.InRange(k) {
				name := "nil slice"
				if t != nil {
					name = t.Name
				}
				return Value{Kind: VInvalid, Why: fmt.Sprintf("index %s is out of the range of %s (run-time panic)", k, name)}
			}
		}
		def := x.Default
		if x.ElemZero {
			if t == nil || t.ElemT == nil {
				return Value{Kind: VInvalid, Why: "look-up of a missing key in a table whose element type is not known"}
			}
			def = f.ZeroOf(t.ElemT)
		}
		if t == nil {
			return def
		}
		if v, ok := t.Lookup(k); ok {
			return v
		}
		return def
	case SZeroTP:
		var found types.Type
		for pv, val := range b {
			var cand types.Type
			pt := pv.Type()
			if types.Identical(pt, x.TP) {
				cand = val.Type
			} else if val.Kind == VTable && val.T != nil {
				switch u := pt.Underlying().(type) {
				case *types.Map:
					if types.Identical(u.Key(), x.TP) {
						cand = val.T.KeyT
					} else if types.Identical(u.Elem(), x.TP) {
						cand = val.T.ElemT
					}
				case *types.Slice:
					if types.Identical(u.Elem(), x.TP) {
						cand = val.T.ElemT
					}
				case *types.Array:
					if types.Identical(u.Elem(), x.TP) {
						cand = val.T.ElemT
					}
				}
			}
			if cand == nil {
				continue
			}
			if found != nil && !types.Identical(found, cand) {
				return Value{Kind: VInvalid, Why: "type parameter " + x.TP.String() + " is bound to two types"}
			}
			found = cand
		}
		if found == nil {
			return Value{Kind: VInvalid, Why: "no abstract zero value for " + x.TP.String() + " (no argument fixes the type)"}
		}
		return f.ZeroOf(found)
	case SHas:
		t, ok, bad := f.evalTable(x.M, b)
		if !ok {
			return bad
		}
		k := f.eval(x.Key, b)
		if k.Kind == VInvalid || k.Kind == VAmbiguous {
			return k
		}
		if t == nil {
			return boolVal(false)
		}
		_, has := t.Lookup(k)
		return boolVal(has)
	case SRev:
		t, ok, bad := f.evalTable(x.M, b)
		if !ok {
			return bad
		}
		val := f.eval(x.Val, b)
		if val.Kind == VInvalid || val.Kind == VAmbiguous {
			return val
		}
		var hits []Value
		if t != nil {
			for _, e := range t.Entries {
				if Same(e.Val, val) || (x.Fold && sameFold(e.Val, val)) {
					hits = append(hits, e.Key)
				}
			}
		}
		switch len(hits) {
		case 0:
			return f.eval(x.Else, b)
		case 1:
			return hits[0]
		}
		return Value{Kind: VAmbiguous, Why: fmt.Sprintf("reverse look-up of %s in %s matches %d keys (%s, %s, ...): the result depends on map iteration order", val, t.Name, len(hits), hits[0], hits[1])}
	case SCall:
		args := make([]Value, len(x.Args))
		for i, a := range x.Args {
			args[i] = f.eval(a, b)
			if args[i].Kind == VInvalid || args[i].Kind == VAmbiguous {
				return args[i]
			}
		}
		r := f.Eval(x.Fn, args...)
		if c, ok := numOf(r); ok && r.Kind == VConst && x.ResT != nil && f.EnumOf(x.ResT) != nil {
			// a generic helper returns T(i): the number as a value of the enumeration this call instantiates T with
			return f.intValue(c, x.ResT)
		}
		return r
	case SLen:
		if v := f.eval(x.M, b); v.Kind == VConst && v.C != nil && v.C.Kind() == constant.String {
			return Value{Kind: VConst, C: constant.MakeInt64(int64(len(constant.StringVal(v.C)))), Type: types.Typ[types.Int]}
		} else if v.Kind == VOther {
			// the representative of "any other string": StringConsts puts "" into the tabulated domain of a summary
			// that takes a length, so this one is not empty; its length is some other number
			return Value{Kind: VOther, Type: types.Typ[types.Int]}
		}
		t, ok, bad := f.evalTable(x.M, b)
		if !ok {
			return bad
		}
		n := 0
		if t != nil {
			n = len(t.Entries)
			if t.Arr {
				n = t.Len
			}
		}
		return Value{Kind: VConst, C: constant.MakeInt64(int64(n)), Type: types.Typ[types.Int]}
	case SOrd:
		av, bv := f.eval(x.A, b), f.eval(x.B, b)
		for _, v := range []Value{av, bv} {
			if v.Kind == VInvalid || v.Kind == VAmbiguous {
				return v
			}
		}
		if x.Float {
			// comparison of two constants as the program makes it: both are float64 values (a score is the float64
			// nearest to its tenth, a threshold the float64 nearest to what the source writes - comparing the exact
			// rationals instead would place the score 6.9 below a threshold written 6.9)
			if av.Kind == VConst && bv.Kind == VConst && av.C != nil && bv.C != nil {
				ak, bk := av.C.Kind(), bv.C.Kind()
				if (ak == constant.Int || ak == constant.Float) && (bk == constant.Int || bk == constant.Float) {
					af, _ := constant.Float64Val(constant.ToFloat(av.C))
					bf, _ := constant.Float64Val(constant.ToFloat(bv.C))
					return boolVal(constant.Compare(constant.MakeFloat64(af), x.Op, constant.MakeFloat64(bf)))
				}
			}
			return Value{Kind: VInvalid, Why: fmt.Sprintf("ordered comparison of %s and %s", av, bv)}
		}
		ac, aok := numOf(av)
		bc, bok := numOf(bv)
		switch {
		case aok && bok:
			return boolVal(constant.Compare(ac, x.Op, bc))
		case av.Kind == VOther && bok:
			// the abstract "any other value" is read as a number above every number the program mentions
			return boolVal(x.Op == token.GTR || x.Op == token.GEQ)
		case aok && bv.Kind == VOther:
			return boolVal(x.Op == token.LSS || x.Op == token.LEQ)
		}
		return Value{Kind: VInvalid, Why: fmt.Sprintf("ordered comparison of %s and %s", av, bv)}
	case SArith:
		av, bv := f.eval(x.A, b), f.eval(x.B, b)
		for _, v := range []Value{av, bv} {
			if v.Kind == VInvalid || v.Kind == VAmbiguous {
				return v
			}
		}
		ac, aok := numOf(av)
		bc, bok := numOf(bv)
		// the abstract "any other value" (a number above every number the program mentions) stays one when a
		// mentioned number is added to or taken from it
		if av.Kind == VOther && av.C == nil && bok && (x.Op == token.ADD || x.Op == token.SUB) {
			return Value{Kind: VOther, Type: av.Type}
		}
		if bv.Kind == VOther && bv.C == nil && aok && x.Op == token.ADD {
			return Value{Kind: VOther, Type: bv.Type}
		}
		if !aok || !bok {
			return Value{Kind: VInvalid, Why: fmt.Sprintf("arithmetic on %s and %s", av, bv)}
		}
		var r constant.Value
		if x.Op == token.SHL || x.Op == token.SHR {
			n, exact := constant.Uint64Val(bc)
			if !exact || n > 30 {
				return Value{Kind: VInvalid, Why: "shift count outside the modelled range"}
			}
			r = constant.Shift(ac, x.Op, uint(n))
		} else {
			r = constant.BinaryOp(ac, x.Op, bc)
		}
		if i, exact := constant.Int64Val(r); !exact || i > 1<<30 || i < -(1<<30) {
			return Value{Kind: VInvalid, Why: "arithmetic result outside the modelled range"}
		}
		return f.intValue(r, av.Type)
	case STuple:
		out := Value{Kind: VTuple}
		for _, el := range x.Elems {
			v := f.eval(el, b)
			if v.Kind == VInvalid || v.Kind == VAmbiguous {
				return v
			}
			out.Elems = append(out.Elems, v)
		}
		return out
	case SProj:
		v := f.eval(x.X, b)
		if v.Kind == VTuple && x.I < len(v.Elems) {
			return v.Elems[x.I]
		}
		if v.Kind == VInvalid || v.Kind == VAmbiguous {
			return v
		}
		return Value{Kind: VInvalid, Why: "component of " + v.String()}
	case SField:
		v := f.eval(x.X, b)
		switch v.Kind {
		case VTable:
			if v.T != nil && v.T.Struct != nil {
				return f.Field(v.T, x.F)
			}
		case VInvalid, VAmbiguous:
			return v
		}
		return Value{Kind: VInvalid, Why: "field " + x.F.Name() + " of " + v.String()}
	case SStruct:
		row := &Table{Name: "literal " + x.Typ.String(), KeyT: types.Typ[types.String], Struct: x.T}
		for i, fv := range x.Fields {
			v := f.eval(x.Vals[i], b)
			if v.Kind == VInvalid || v.Kind == VAmbiguous {
				return v
			}
			row.Entries = append(row.Entries, &Entry{Key: StringValue(fv.Name()), Val: v})
		}
		return Value{Kind: VTable, T: row, Type: x.Typ}
	case SConv:
		v := f.eval(x.X, b)
		if c, ok := numOf(v); ok && !x.Same && !fitsKind(c, x.T) {
			return Value{Kind: VInvalid, Why: fmt.Sprintf("conversion of %s to %s may change the value", v, x.T)}
		}
		switch v.Kind {
		case VConst:
			if c, ok := numOf(v); ok {
				return f.intValue(c, x.T)
			}
		case VOther:
			if v.C == nil && !x.Same {
				return Value{Kind: VInvalid, Why: fmt.Sprintf("conversion of an arbitrary value to %s may change it", x.T)}
			}
			return Value{Kind: VOther, C: v.C, Type: x.T}
		case VInvalid, VAmbiguous:
			return v
		}
		return Value{Kind: VInvalid, Why: "conversion of " + v.String()}
	case SCmp:
		av, bv := f.eval(x.A, b), f.eval(x.B, b)
		for _, v := range []Value{av, bv} {
			if v.Kind == VInvalid || v.Kind == VAmbiguous {
				return v
			}
		}
		eq := Same(av, bv) || (x.Fold && sameFold(av, bv))
		return boolVal(eq != x.Neg)
	case SNot:
		v, bad, ok := f.evalBool(x.X, b)
		if !ok {
			return bad
		}
		return boolVal(!v)
	case SBin:
		av, bad, ok := f.evalBool(x.A, b)
		if !ok {
			return bad
		}
		if x.And && !av {
			return boolVal(false)
		}
		if !x.And && av {
			return boolVal(true)
		}
		bv, bad, ok := f.evalBool(x.B, b)
		if !ok {
			return bad
		}
		return boolVal(bv)
	case SIte:
		c, bad, ok := f.evalBool(x.C, b)
		if !ok {
			return bad
		}
		if c {
			return f.eval(x.T, b)
		}
		return f.eval(x.E, b)
	case SNone:
		return Value{Kind: VInvalid, Why: "path without return"}
	}
	return Value{Kind: VInvalid, Why: fmt.Sprintf("unknown summary node %T", s)}
}

// EvalCallExpr evaluates a call in a package-level initialiser whose receiver
// and arguments are constants.
func (f *Facts) EvalCallExpr(info *types.Info, call *ast.CallExpr) Value {
	callee, _ := typeutil.Callee(info, call).(*types.Func)
	if callee == nil {
		return Value{Kind: VInvalid, Why: "dynamic call"}
	}
	if callee.Pkg() != nil && callee.Pkg().Path() == "math" && callee.Name() == "Inf" && len(call.Args) == 1 {
		// an infinite bound of a table of thresholds: every finite number the rules compare it with (scores, grid
		// points) stands to the largest finite float as it stands to the infinity
		if sv := f.StaticValue(info, call.Args[0]); sv.Kind == VConst && sv.C != nil && sv.C.Kind() == constant.Int {
			m := math.MaxFloat64
			if constant.Sign(sv.C) < 0 {
				m = -m
			}
			return Value{Kind: VConst, C: constant.MakeFloat64(m), Type: types.Typ[types.Float64]}
		}
	}
	var args []Value
	if sel, ok := ast.Unparen(call.Fun).(*ast.SelectorExpr); ok {
		if s := info.Selections[sel]; s != nil {
			v := f.StaticValue(info, sel.X)
			if v.Kind != VConst {
				return Value{Kind: VInvalid, Why: "receiver is not a constant"}
			}
			args = append(args, v)
		}
	}
	for _, a := range call.Args {
		v := f.StaticValue(info, a)
		if v.Kind != VConst && v.Kind != VObj {
			return Value{Kind: VInvalid, Why: "argument is not a constant"}
		}
		args = append(args, v)
	}
	return f.Eval(callee, args...)
}

// calleeSummary: the summary a call evaluates: the callee's own, or - when that one is outside the fragment and
// the call hands it literal tables - the specialisation for these tables.
func (f *Facts) calleeSummary(c SCall) *Summary {
	s := f.Summarise(c.Fn)
	if s.Err == "" {
		return s
	}
	bound := map[int]*Table{}
	for i, a := range c.Args {
		if st, ok := a.(STable); ok {
			bound[i] = st.T
		}
	}
	if len(bound) > 0 {
		if s2 := f.summarise(c.Fn, bound); s2.Err == "" {
			return s2
		}
	}
	return s
}

// TablesRead returns the tables read by fn or by summarised functions it calls.
func (f *Facts) TablesRead(fn *types.Func) map[*Table]bool {
	out := map[*Table]bool{}
	seen := map[*types.Func]bool{}
	var walkSum func(s Sum)
	seenSum := map[*Summary]bool{}
	visitSum := func(s *Summary) {
		if seenSum[s] {
			return
		}
		seenSum[s] = true
		for t := range s.Reads {
			out[t] = true
		}
		if s.Body != nil {
			walkSum(s.Body)
		}
	}
	visit := func(fn *types.Func) {
		if seen[fn] {
			return
		}
		seen[fn] = true
		visitSum(f.Summarise(fn))
	}
	walkSum = func(s Sum) {
		switch x := s.(type) {
		case SLookup:
			walkSum(x.M)
			walkSum(x.Key)
		case SHas:
			walkSum(x.M)
			walkSum(x.Key)
		case SRev:
			walkSum(x.M)
			walkSum(x.Val)
			walkSum(x.Else)
		case SCall:
			visitSum(f.calleeSummary(x))
			for _, a := range x.Args {
				walkSum(a)
			}
		case SLen:
			walkSum(x.M)
		case SCmp:
			walkSum(x.A)
			walkSum(x.B)
		case SOrd:
			walkSum(x.A)
			walkSum(x.B)
		case SArith:
			walkSum(x.A)
			walkSum(x.B)
		case SConv:
			walkSum(x.X)
		case SField:
			walkSum(x.X)
		case STuple:
			for _, v := range x.Elems {
				walkSum(v)
			}
		case SProj:
			walkSum(x.X)
		case SStruct:
			for _, v := range x.Vals {
				walkSum(v)
			}
		case SNot:
			walkSum(x.X)
		case SBin:
			walkSum(x.A)
			walkSum(x.B)
		case SIte:
			walkSum(x.C)
			walkSum(x.T)
			walkSum(x.E)
		}
	}
	visit(fn)
	return out
}

// StringConsts returns every string constant that occurs in fn's summary or
// in the summaries of functions it calls (comparison operands, defaults): the
// parser rules add them to the tabulated input domain, so that a special case
// such as  if s == "l" { ... }  cannot hide outside the tables.
func (f *Facts) StringConsts(fn *types.Func) map[string]bool {
	out := map[string]bool{}
	seen := map[*types.Func]bool{}
	var walkSum func(s Sum)
	seenSum := map[*Summary]bool{}
	visitSum := func(s *Summary) {
		if seenSum[s] {
			return
		}
		seenSum[s] = true
		if s.Body != nil {
			walkSum(s.Body)
		}
	}
	visit := func(fn *types.Func) {
		if seen[fn] {
			return
		}
		seen[fn] = true
		visitSum(f.Summarise(fn))
	}
	walkSum = func(s Sum) {
		switch x := s.(type) {
		case SConst:
			if x.V.Kind == VConst && x.V.C != nil && x.V.C.Kind() == constant.String {
				out[constant.StringVal(x.V.C)] = true
			}
		case SLookup:
			walkSum(x.M)
			walkSum(x.Key)
		case SHas:
			walkSum(x.M)
			walkSum(x.Key)
		case SRev:
			walkSum(x.M)
			walkSum(x.Val)
			walkSum(x.Else)
		case SCall:
			visitSum(f.calleeSummary(x))
			for _, a := range x.Args {
				walkSum(a)
			}
		case SLen:
			out[""] = true // a length test distinguishes the empty string
			walkSum(x.M)
		case SCmp:
			walkSum(x.A)
			walkSum(x.B)
		case SOrd:
			walkSum(x.A)
			walkSum(x.B)
		case SArith:
			walkSum(x.A)
			walkSum(x.B)
		case SConv:
			walkSum(x.X)
		case SField:
			walkSum(x.X)
		case STuple:
			for _, v := range x.Elems {
				walkSum(v)
			}
		case SProj:
			walkSum(x.X)
		case SStruct:
			for _, v := range x.Vals {
				walkSum(v)
			}
		case SNot:
			walkSum(x.X)
		case SBin:
			walkSum(x.A)
			walkSum(x.B)
		case SIte:
			walkSum(x.C)
			walkSum(x.T)
			walkSum(x.E)
		}
	}
	visit(fn)
	return out
}

// sameFold: two string constants equal under Unicode case folding.
func sameFold(a, b Value) bool {
	if a.Kind != VConst || b.Kind != VConst || a.C == nil || b.C == nil || a.C.Kind() != constant.String || b.C.Kind() != constant.String {
		return false
	}
	return strings.EqualFold(constant.StringVal(a.C), constant.StringVal(b.C))
}
