// Package facts derives the repository-specific facts the rules are phrased
// in: package-level tables, enumeration types, leaf-function summaries,
// struct layout of the metrics types, write effects.
package facts

import (
	"fmt"
	"go/ast"
	"go/constant"
	"go/token"
	"go/types"
	"sort"

	"cvsslint/internal/load"

	"golang.org/x/tools/go/packages"
)

// Enum describes a named integer type and the constants declared for it.
type Enum struct {
	Named  *types.Named
	Consts []*types.Const // sorted by value
	Zero   *types.Const   // the constant with value 0, if any
}

func (e *Enum) Name() string { return e.Named.Obj().Name() }

// ConstByVal returns the declared constant with the given integer value.
func (e *Enum) ConstByVal(v int64) *types.Const {
	for _, c := range e.Consts {
		if i, ok := constant.Int64Val(c.Val()); ok && i == v {
			return c
		}
	}
	return nil
}

// Table is a package-level map, array or slice variable initialised by a composite literal.
type Table struct {
	Var     *types.Var // nil for nested literals
	Name    string
	Pkg     *packages.Package
	Pos     token.Pos
	KeyT    types.Type // key type of a map, int for an array or slice
	ElemT   types.Type
	Entries []*Entry
	Parent  *Table
	// Arr: an array or slice literal of Len elements; the indices without an entry hold the zero value of ElemT
	Arr bool
	Len int
	// Struct: a struct literal (a row of a table of structs): the keys are the field names, a field the literal
	// leaves out holds the zero value of its type
	Struct *types.Struct
}

// tableTypes returns key and element type when t is a type the table model represents.
func tableTypes(t types.Type) (key, elem types.Type, arr, ok bool) {
	// a pointer to an array is indexed, measured and ranged over like the array (a method of an array type
	// with a pointer receiver, called on the package-level table)
	if p, isPtr := t.Underlying().(*types.Pointer); isPtr {
		if a, isArr := p.Elem().Underlying().(*types.Array); isArr {
			return types.Typ[types.Int], a.Elem(), true, true
		}
	}
	switch u := t.Underlying().(type) {
	case *types.Map:
		return u.Key(), u.Elem(), false, true
	case *types.Array:
		return types.Typ[types.Int], u.Elem(), true, true
	case *types.Slice:
		return types.Typ[types.Int], u.Elem(), true, true
	}
	return nil, nil, false, false
}

type Entry struct {
	Key     Value
	KeyExpr ast.Expr
	Val     Value // VConst, VTable, or VPending (call, resolved later)
	ValExpr ast.Expr
	Pos     token.Pos
}

// ValueKind classifies abstract values of the finite domains.
type ValueKind int

const (
	VInvalid   ValueKind = iota
	VConst               // a Go constant (C); Obj set when it is a declared named constant
	VObj                 // a package-level variable used as an opaque comparable value (language.English)
	VOther               // "any other value" of the type: unequal to every named value
	VTable               // a map value
	VNilTable            // nil map
	VPending             // unresolved initialiser expression
	VAmbiguous           // result depends on map iteration order
	VTuple               // the results of a multi-result function (Elems)
)

type Value struct {
	Kind ValueKind
	C    constant.Value
	Obj  types.Object
	T    *Table
	Type types.Type
	Why  string
	// Elems: the components of a VTuple
	Elems []Value
}

func (v Value) String() string {
	switch v.Kind {
	case VConst:
		if v.Obj != nil {
			return v.Obj.Name()
		}
		if v.C != nil {
			return v.C.ExactString()
		}
		return "<const?>"
	case VObj:
		return v.Obj.Pkg().Name() + "." + v.Obj.Name()
	case VOther:
		if v.C != nil {
			return "<other:" + v.C.ExactString() + ">"
		}
		return "<other>"
	case VTable:
		return "table:" + v.T.Name
	case VNilTable:
		return "nil-map"
	case VPending:
		return "<pending>"
	case VAmbiguous:
		return "<order-dependent: " + v.Why + ">"
	}
	return "<invalid:" + v.Why + ">"
}

// Same reports whether two abstract values are equal under Go's ==.
// VOther is unequal to everything, including another VOther (callers only
// use one representative per type).
func Same(a, b Value) bool {
	if (a.Kind == VOther && a.C != nil && (b.Kind == VConst || b.Kind == VOther)) || (b.Kind == VOther && b.C != nil && a.Kind == VConst) {
		// a concrete out-of-range representative is the number it carries
		return a.C != nil && b.C != nil && a.C.Kind() == b.C.Kind() && constant.Compare(a.C, token.EQL, b.C)
	}
	if a.Kind != b.Kind {
		return false
	}
	switch a.Kind {
	case VConst:
		if a.C == nil || b.C == nil {
			return false
		}
		if a.C.Kind() != b.C.Kind() {
			// int vs float etc.
			return constant.Compare(constant.ToFloat(a.C), token.EQL, constant.ToFloat(b.C))
		}
		return constant.Compare(a.C, token.EQL, b.C)
	case VObj:
		return a.Obj == b.Obj
	case VTable:
		return a.T == b.T
	case VNilTable:
		return true
	}
	return false
}

// TableProblem is something about a package-level map the table model cannot represent.
type TableProblem struct {
	T   *Table
	Msg string
}

type Facts struct {
	Prog     *load.Program
	Enums    map[*types.Named]*Enum
	Tables   map[*types.Var]*Table
	AllTabs  []*Table // package-level tables, deterministic order
	sums     map[sumKey]*Summary
	busy     map[sumKey]bool
	eff      *Effects
	Problems []string
	// TableProblems: what the table model could not represent, per table (Problems holds the same texts)
	TableProblems []TableProblem
	zeroStructs   map[*types.Struct]*Table
}

func Build(p *load.Program) *Facts {
	f := &Facts{Prog: p, Enums: map[*types.Named]*Enum{}, Tables: map[*types.Var]*Table{}, sums: map[sumKey]*Summary{}, busy: map[sumKey]bool{}}
	for _, rel := range p.LibRels() {
		pk := p.Lib(rel)
		f.collectEnums(pk)
	}
	for _, rel := range p.LibRels() {
		pk := p.Lib(rel)
		f.collectTables(pk)
	}
	sort.Slice(f.AllTabs, func(i, j int) bool {
		a, b := f.AllTabs[i], f.AllTabs[j]
		if a.Pkg.PkgPath != b.Pkg.PkgPath {
			return a.Pkg.PkgPath < b.Pkg.PkgPath
		}
		return a.Name < b.Name
	})
	f.resolvePending()
	return f
}

func (f *Facts) collectEnums(pk *packages.Package) {
	scope := pk.Types.Scope()
	for _, name := range scope.Names() {
		c, ok := scope.Lookup(name).(*types.Const)
		if !ok {
			continue
		}
		n, ok := c.Type().(*types.Named)
		if !ok || n.Obj().Pkg() != pk.Types {
			continue
		}
		b, ok := n.Underlying().(*types.Basic)
		if !ok || b.Info()&types.IsInteger == 0 {
			continue
		}
		e := f.Enums[n]
		if e == nil {
			e = &Enum{Named: n}
			f.Enums[n] = e
		}
		e.Consts = append(e.Consts, c)
	}
	for _, e := range f.Enums {
		sort.Slice(e.Consts, func(i, j int) bool {
			a, _ := constant.Int64Val(e.Consts[i].Val())
			b, _ := constant.Int64Val(e.Consts[j].Val())
			if a != b {
				return a < b
			}
			return e.Consts[i].Name() < e.Consts[j].Name()
		})
		e.Zero = nil
		for _, c := range e.Consts {
			if v, ok := constant.Int64Val(c.Val()); ok && v == 0 && e.Zero == nil {
				e.Zero = c
			}
		}
	}
}

func (f *Facts) EnumOf(t types.Type) *Enum {
	n, ok := t.(*types.Named)
	if !ok {
		return nil
	}
	return f.Enums[n]
}

func (f *Facts) collectTables(pk *packages.Package) {
	for _, file := range pk.Syntax {
		for _, d := range file.Decls {
			gd, ok := d.(*ast.GenDecl)
			if !ok || gd.Tok != token.VAR {
				continue
			}
			for _, s := range gd.Specs {
				vs := s.(*ast.ValueSpec)
				for i, name := range vs.Names {
					v, ok := pk.TypesInfo.Defs[name].(*types.Var)
					if !ok {
						continue
					}
					kt, et, arr, ok := tableTypes(v.Type())
					if st, isStruct := v.Type().Underlying().(*types.Struct); isStruct && i < len(vs.Values) {
						// a package-level struct literal whose fields are data (a merged table row, a template row)
						if cl, isLit := ast.Unparen(vs.Values[i]).(*ast.CompositeLit); isLit && dataStruct(st) {
							t := &Table{Var: v, Name: v.Name(), Pkg: pk, Pos: name.Pos(), KeyT: types.Typ[types.String], Struct: st}
							f.Tables[v] = t
							f.AllTabs = append(f.AllTabs, t)
							f.fillStruct(t, cl)
						}
						continue
					}
					if !ok {
						continue
					}
					if arr {
						// an array or slice is a table only when it is written as a literal (anything else stays an ordinary variable)
						if i >= len(vs.Values) {
							continue
						}
						if _, isLit := ast.Unparen(vs.Values[i]).(*ast.CompositeLit); !isLit {
							continue
						}
					}
					t := &Table{Var: v, Name: v.Name(), Pkg: pk, Pos: name.Pos(), KeyT: kt, ElemT: et, Arr: arr}
					f.Tables[v] = t
					f.AllTabs = append(f.AllTabs, t)
					if i < len(vs.Values) {
						if cl, ok := ast.Unparen(vs.Values[i]).(*ast.CompositeLit); ok {
							f.fillTable(t, cl)
							continue
						}
						f.problem(t, fmt.Sprintf("%s: map variable %s is not initialised by a composite literal", p(pk, f, name.Pos()), v.Name()))
					} else {
						f.problem(t, fmt.Sprintf("%s: map variable %s has no initialiser (nil map or filled at run time)", p(pk, f, name.Pos()), v.Name()))
					}
				}
			}
		}
	}
}

func p(pk *packages.Package, f *Facts, pos token.Pos) string { return f.Prog.Pos(pos) }

func (f *Facts) problem(t *Table, msg string) {
	f.Problems = append(f.Problems, msg)
	f.TableProblems = append(f.TableProblems, TableProblem{T: t, Msg: msg})
}

// Root is the package-level table a (nested) table belongs to.
func (t *Table) Root() *Table {
	for t.Parent != nil {
		t = t.Parent
	}
	return t
}

// IsData: the table's cells (through nested maps) are strings, numbers, booleans or enumeration values - the
// kind of table the specification's code, weight and name tables are; a map of functions or structs is not.
func (t *Table) IsData() bool {
	r := t.Root()
	if r.Struct != nil {
		return dataStruct(r.Struct)
	}
	return dataType(r.ElemT, 0)
}

func (f *Facts) fillTable(t *Table, cl *ast.CompositeLit) {
	info := t.Pkg.TypesInfo
	if at, ok := info.TypeOf(cl).Underlying().(*types.Array); ok {
		t.Len = int(at.Len())
	}
	next := int64(0) // index of the next positional element of an array literal
	for _, el := range cl.Elts {
		kv, ok := el.(*ast.KeyValueExpr)
		if !ok && !t.Arr {
			f.problem(t, fmt.Sprintf("%s: table %s has a non key:value element", f.Prog.Pos(el.Pos()), t.Name))
			continue
		}
		var e *Entry
		if ok {
			e = &Entry{KeyExpr: kv.Key, ValExpr: kv.Value, Pos: kv.Pos()}
			e.Key = f.StaticValue(info, kv.Key)
		} else {
			e = &Entry{ValExpr: el, Pos: el.Pos()}
			e.Key = Value{Kind: VConst, C: constant.MakeInt64(next), Type: types.Typ[types.Int]}
		}
		if t.Arr {
			// the compiler requires constant integer indices
			i, exact := int64(0), false
			if e.Key.Kind == VConst && e.Key.C != nil {
				i, exact = constant.Int64Val(constant.ToInt(e.Key.C))
			}
			if !exact {
				f.problem(t, fmt.Sprintf("%s: table %s has an index that is not an integer constant", f.Prog.Pos(e.Pos), t.Name))
				continue
			}
			next = i + 1
			if int(next) > t.Len {
				t.Len = int(next)
			}
		} else if e.Key.Kind != VConst && e.Key.Kind != VObj {
			f.problem(t, fmt.Sprintf("%s: table %s has a key that is neither a constant nor a package-level value", f.Prog.Pos(kv.Key.Pos()), t.Name))
		}
		if sub, ok := ast.Unparen(e.ValExpr).(*ast.CompositeLit); ok {
			if st, isStruct := info.TypeOf(sub).Underlying().(*types.Struct); isStruct {
				row := &Table{Name: t.Name + "[" + e.Key.String() + "]", Pkg: t.Pkg, Pos: sub.Pos(), KeyT: types.Typ[types.String], Struct: st, Parent: t}
				f.fillStruct(row, sub)
				e.Val = Value{Kind: VTable, T: row}
				t.Entries = append(t.Entries, e)
				continue
			}
			// the literal's type may be elided; go/types records it all the same
			if kt, et, arr, ok := tableTypes(info.TypeOf(sub)); ok {
				st := &Table{Name: t.Name + "[" + e.Key.String() + "]", Pkg: t.Pkg, Pos: sub.Pos(), KeyT: kt, ElemT: et, Arr: arr, Parent: t}
				f.fillTable(st, sub)
				e.Val = Value{Kind: VTable, T: st}
				t.Entries = append(t.Entries, e)
				continue
			}
		}
		e.Val = f.StaticValue(info, e.ValExpr)
		if e.Val.Kind == VInvalid {
			e.Val = Value{Kind: VPending}
		}
		t.Entries = append(t.Entries, e)
	}
}

// dataStruct: every field is a string, number, boolean, or again such a struct, array, slice or map of them.
func dataStruct(st *types.Struct) bool {
	for i := 0; i < st.NumFields(); i++ {
		if !dataType(st.Field(i).Type(), 0) {
			return false
		}
	}
	return true
}

func dataType(t types.Type, depth int) bool {
	if depth > 6 {
		return false
	}
	if _, ok := t.(*types.TypeParam); ok {
		return true // a field of a generic row type: data whenever the rows of a literal table are
	}
	switch u := t.Underlying().(type) {
	case *types.Basic:
		return true
	case *types.Struct:
		for i := 0; i < u.NumFields(); i++ {
			if !dataType(u.Field(i).Type(), depth+1) {
				return false
			}
		}
		return true
	case *types.Map:
		return dataType(u.Elem(), depth+1) // whatever the keys are (enumeration values, language tags)
	case *types.Array:
		return dataType(u.Elem(), depth+1)
	case *types.Slice:
		return dataType(u.Elem(), depth+1)
	}
	return false
}

// fillStruct records the fields a struct literal spells out (positional or keyed).
func (f *Facts) fillStruct(t *Table, cl *ast.CompositeLit) {
	info := t.Pkg.TypesInfo
	for i, el := range cl.Elts {
		var fv *types.Var
		valExpr := el
		if kv, ok := el.(*ast.KeyValueExpr); ok {
			if id, ok := kv.Key.(*ast.Ident); ok {
				fv, _ = info.Uses[id].(*types.Var)
			}
			valExpr = kv.Value
		} else if i < t.Struct.NumFields() {
			fv = t.Struct.Field(i)
		}
		if fv == nil {
			f.problem(t, fmt.Sprintf("%s: table %s: struct literal element without a resolvable field", f.Prog.Pos(el.Pos()), t.Name))
			continue
		}
		e := &Entry{Key: StringValue(fv.Name()), ValExpr: valExpr, Pos: el.Pos()}
		if sub, ok := ast.Unparen(valExpr).(*ast.CompositeLit); ok {
			if st, isStruct := info.TypeOf(sub).Underlying().(*types.Struct); isStruct {
				row := &Table{Name: t.Name + "." + fv.Name(), Pkg: t.Pkg, Pos: sub.Pos(), KeyT: types.Typ[types.String], Struct: st, Parent: t}
				f.fillStruct(row, sub)
				e.Val = Value{Kind: VTable, T: row}
				t.Entries = append(t.Entries, e)
				continue
			}
			if kt, et, arr, ok := tableTypes(info.TypeOf(sub)); ok {
				st := &Table{Name: t.Name + "." + fv.Name(), Pkg: t.Pkg, Pos: sub.Pos(), KeyT: kt, ElemT: et, Arr: arr, Parent: t}
				f.fillTable(st, sub)
				e.Val = Value{Kind: VTable, T: st}
				t.Entries = append(t.Entries, e)
				continue
			}
		}
		e.Val = f.StaticValue(info, valExpr)
		if e.Val.Kind == VInvalid {
			e.Val = Value{Kind: VPending}
		}
		t.Entries = append(t.Entries, e)
	}
}

// Field returns the value of a struct row's field: what the literal says, or the zero value of the field's type.
func (f *Facts) Field(t *Table, fv *types.Var) Value {
	if v, ok := t.Lookup(StringValue(fv.Name())); ok {
		return v
	}
	return f.ZeroOf(fv.Type())
}

// staticValue classifies an initialiser expression: constant, named constant,
// or a package-level variable of another package used as an opaque value.
func (f *Facts) StaticValue(info *types.Info, e ast.Expr) Value {
	e = ast.Unparen(e)
	tv, ok := info.Types[e]
	if ok && tv.Value != nil {
		v := Value{Kind: VConst, C: tv.Value, Type: tv.Type}
		switch x := e.(type) {
		case *ast.Ident:
			if c, ok := info.Uses[x].(*types.Const); ok {
				v.Obj = c
			}
		case *ast.SelectorExpr:
			if c, ok := info.Uses[x.Sel].(*types.Const); ok {
				v.Obj = c
			}
		}
		return v
	}
	switch x := e.(type) {
	case *ast.Ident:
		if vr, ok := info.Uses[x].(*types.Var); ok && vr.Parent() == vr.Pkg().Scope() {
			return Value{Kind: VObj, Obj: vr, Type: vr.Type()}
		}
	case *ast.SelectorExpr:
		if vr, ok := info.Uses[x.Sel].(*types.Var); ok && vr.Pkg() != nil && vr.Parent() == vr.Pkg().Scope() {
			return Value{Kind: VObj, Obj: vr, Type: vr.Type()}
		}
	}
	return Value{Kind: VInvalid}
}

// resolvePending evaluates table cells written as a method call on a constant
// receiver (names/severity.go: metric.SeverityNone.String()) through the
// callee's summary.
func (f *Facts) resolvePending() {
	var walk func(t *Table)
	walk = func(t *Table) {
		for _, e := range t.Entries {
			if e.Val.Kind == VTable {
				walk(e.Val.T)
				continue
			}
			if e.Val.Kind != VPending {
				continue
			}
			call, ok := ast.Unparen(e.ValExpr).(*ast.CallExpr)
			if !ok {
				f.problem(t, fmt.Sprintf("%s: table %s: value is not a constant, a map literal or a call", f.Prog.Pos(e.Pos), t.Name))
				continue
			}
			v := f.EvalCallExpr(t.Pkg.TypesInfo, call)
			if v.Kind != VConst {
				f.problem(t, fmt.Sprintf("%s: table %s: call in initialiser could not be summarised (%s)", f.Prog.Pos(e.Pos), t.Name, v.Why))
				continue
			}
			e.Val = v
		}
	}
	for _, t := range f.AllTabs {
		walk(t)
	}
}

// Lookup returns the value stored under key (for an array: only the elements the literal spells out; At gives
// the implicit zero elements as well).
func (t *Table) Lookup(key Value) (Value, bool) {
	for _, e := range t.Entries {
		if Same(e.Key, key) {
			return e.Val, true
		}
	}
	return Value{}, false
}

// Strings returns every string constant that occurs as a key or a value in the table or in the tables nested in
// it (rows of structs, nested maps).
func (t *Table) Strings() []string {
	var out []string
	var walk func(t *Table, depth int)
	add := func(v Value) {
		if v.Kind == VConst && v.C != nil && v.C.Kind() == constant.String {
			out = append(out, constant.StringVal(v.C))
		}
	}
	walk = func(t *Table, depth int) {
		if depth > 6 {
			return
		}
		for _, e := range t.Entries {
			if t.Struct == nil {
				add(e.Key)
			}
			if e.Val.Kind == VTable && e.Val.T != nil {
				walk(e.Val.T, depth+1)
			} else {
				add(e.Val)
			}
		}
	}
	walk(t, 0)
	return out
}

// InRange: key is a valid index of an array table.
func (t *Table) InRange(key Value) bool {
	c, ok := numOf(key)
	if !t.Arr || !ok {
		return false
	}
	i, exact := constant.Int64Val(c)
	return exact && 0 <= i && i < int64(t.Len)
}

// DuplicateKeys lists keys that occur more than once (possible only for
// non-constant keys; the compiler rejects duplicate constant keys).
func (t *Table) DuplicateKeys() []string {
	var out []string
	for i, a := range t.Entries {
		for _, b := range t.Entries[i+1:] {
			if Same(a.Key, b.Key) {
				out = append(out, a.Key.String())
			}
		}
	}
	return out
}

// Injective reports whether all values are pairwise different, and names a
// colliding pair otherwise.
func (t *Table) Injective() (bool, string) {
	for i, a := range t.Entries {
		for _, b := range t.Entries[i+1:] {
			if Same(a.Val, b.Val) {
				return false, fmt.Sprintf("%s and %s both map to %s", a.Key, b.Key, a.Val)
			}
		}
	}
	return true, ""
}

// ZeroOf returns the zero value of a type as an abstract value.
func (f *Facts) ZeroOf(t types.Type) Value {
	switch u := t.Underlying().(type) {
	case *types.Basic:
		switch {
		case u.Info()&types.IsString != 0:
			return Value{Kind: VConst, C: constant.MakeString(""), Type: t}
		case u.Info()&types.IsBoolean != 0:
			return Value{Kind: VConst, C: constant.MakeBool(false), Type: t}
		case u.Info()&types.IsInteger != 0:
			v := Value{Kind: VConst, C: constant.MakeInt64(0), Type: t}
			if e := f.EnumOf(t); e != nil && e.Zero != nil {
				v.Obj = e.Zero
			}
			return v
		case u.Info()&types.IsFloat != 0:
			return Value{Kind: VConst, C: constant.MakeFloat64(0), Type: t}
		}
	case *types.Map:
		return Value{Kind: VNilTable, Type: t}
	case *types.Slice:
		return Value{Kind: VNilTable, Type: t}
	case *types.Struct:
		if dataStruct(u) {
			if f.zeroStructs == nil {
				f.zeroStructs = map[*types.Struct]*Table{}
			}
			z := f.zeroStructs[u]
			if z == nil {
				z = &Table{Name: "zero " + t.String(), KeyT: types.Typ[types.String], Struct: u}
				f.zeroStructs[u] = z
			}
			return Value{Kind: VTable, T: z, Type: t}
		}
	}
	return Value{Kind: VInvalid, Why: "no abstract zero value for " + t.String()}
}

// ConstValue wraps a declared constant.
func ConstValue(c *types.Const) Value {
	return Value{Kind: VConst, C: c.Val(), Obj: c, Type: c.Type()}
}

func StringValue(s string) Value {
	return Value{Kind: VConst, C: constant.MakeString(s), Type: types.Typ[types.String]}
}

// Domain returns the abstract domain of an enum type: every declared
// constant plus one out-of-range representative.
func (f *Facts) Domain(t types.Type) []Value {
	e := f.EnumOf(t)
	if e == nil {
		return nil
	}
	var out []Value
	seen := map[int64]bool{}
	for _, c := range e.Consts {
		v, _ := constant.Int64Val(c.Val())
		if seen[v] {
			continue
		}
		seen[v] = true
		out = append(out, ConstValue(c))
	}
	if !seen[0] {
		out = append(out, Value{Kind: VConst, C: constant.MakeInt64(0), Type: t})
		seen[0] = true
	}
	// out-of-range representatives: the number just below and just above the declared ones (what an ordered
	// comparison or an array index can tell apart), and the abstract "any other value", which ordered
	// comparisons read as a number above every other
	lo, hi := int64(0), int64(0)
	for v := range seen {
		if v < lo {
			lo = v
		}
		if v > hi {
			hi = v
		}
	}
	if b, ok := t.Underlying().(*types.Basic); ok && b.Info()&types.IsUnsigned == 0 {
		out = append(out, Value{Kind: VOther, C: constant.MakeInt64(lo - 1), Type: t})
	}
	out = append(out, Value{Kind: VOther, C: constant.MakeInt64(hi + 1), Type: t})
	out = append(out, Value{Kind: VOther, Type: t})
	return out
}
