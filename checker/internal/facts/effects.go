package facts

import (
	"fmt"
	"go/token"
	"go/types"
	"sort"
	"strings"

	"cvsslint/internal/load"

	"golang.org/x/tools/go/ssa"
)

// RootKind says where a piece of memory (or a value pointing into it) comes from.
type RootKind int

const (
	RLocal   RootKind = iota // allocated in this function (Alloc, MakeMap, MakeSlice, fresh call result)
	RParam                   // reachable from parameter Param (0 = receiver for methods)
	RGlobal                  // a package-level variable, or memory reachable from it
	RFree                    // captured variable of a closure
	RUnknown                 // result of a call whose freshness is not known, etc.
	RNone                    // constants, nil
)

type Root struct {
	Kind   RootKind
	Param  int
	Global *ssa.Global
	Why    string
}

func (r Root) String() string {
	switch r.Kind {
	case RLocal:
		return "local"
	case RParam:
		return fmt.Sprintf("param#%d", r.Param)
	case RGlobal:
		return "global " + r.Global.Pkg.Pkg.Name() + "." + r.Global.Name()
	case RFree:
		return "captured " + r.Why
	case RUnknown:
		return "unknown(" + r.Why + ")"
	}
	return "none"
}

// Write is one instruction that modifies memory not allocated by its own function.
type Write struct {
	Fn    *ssa.Function // function containing the instruction
	Pos   token.Pos
	Root  Root
	Field *types.Var // innermost struct field addressed, if the write is to X.f or to a map loaded from X.f
	Kind  string     // store, map-update, delete, append, extern:<callee>
	Via   []string   // call chain from the summarised function down to Fn
	Instr ssa.Instruction
}

type CallSite struct {
	Instr   ssa.CallInstruction
	Callee  *ssa.Function // static in-module callee, or nil
	Extern  string        // qualified name of an external static callee
	Dynamic bool
	Targets []*ssa.Function // resolved targets of a dynamic call
	// ViaParam >= 0: the call goes through a function value that is this parameter of the enclosing function; what
	// it does is attributed at the enclosing function's call sites, where the value passed is known
	ViaParam int
}

type FuncEffects struct {
	Fn           *ssa.Function
	Direct       []Write
	Calls        []CallSite
	Writes       []Write // transitive, roots expressed in Fn's own terms (never RLocal)
	Undecided    []string
	ReturnsFresh bool
	retRoots     []Root
	// ParamCalls: parameters (function-typed) the function calls through
	ParamCalls map[int]bool
}

// ExternEffect describes what a function outside the module may write.
type ExternEffect struct {
	WritesParams []int // indices into the call's argument list (receiver first)
	Fresh        bool  // results do not alias arguments or globals
	Note         string
}

// Externs is the allow-list of calls out of the module, with their stated
// effects on memory the caller can see. Anything not listed is UNDECIDED.
var Externs = map[string]ExternEffect{
	"fmt.Sprintf":                       {Fresh: true, Note: "formats; calls String() of arguments (module Stringers are themselves checked)"},
	"fmt.Sprint":                        {Fresh: true},
	"fmt.Errorf":                        {Fresh: true},
	"errors.New":                        {Fresh: true},
	"strings.Split":                     {Fresh: true},
	"strings.Join":                      {Fresh: true},
	"(*strings.Builder).WriteString":    {WritesParams: []int{0}},
	"(*strings.Builder).String":         {Fresh: true},
	"(*strings.Builder).Grow":           {WritesParams: []int{0}},
	"(*strings.Builder).WriteByte":      {WritesParams: []int{0}},
	"(*strings.Builder).WriteRune":      {WritesParams: []int{0}},
	"(*strings.Builder).Len":            {Fresh: true},
	"(*strings.Builder).Reset":          {WritesParams: []int{0}},
	"(*bytes.Buffer).String":            {Fresh: true},
	"(*bytes.Buffer).WriteString":       {WritesParams: []int{0}},
	"strconv.FormatFloat":               {Fresh: true},
	"math.Pow":                          {Fresh: true},
	"math.Min":                          {Fresh: true},
	"math.Max":                          {Fresh: true},
	"math.Round":                        {Fresh: true},
	"math.Floor":                        {Fresh: true},
	"math.Ceil":                         {Fresh: true},
	"math.Trunc":                        {Fresh: true},
	"github.com/goark/errs.Wrap":        {Fresh: true, Note: "allocates a new *errs.Error; does not modify the wrapped error"},
	"github.com/goark/errs.New":         {Fresh: true},
	"github.com/goark/errs.Is":          {Fresh: true},
	"errors.Is":                         {Fresh: true},
	"github.com/goark/errs.WithContext": {Fresh: true},
	"github.com/goark/errs.WithCause":   {Fresh: true},
	"io.Copy":                           {WritesParams: []int{0, 1}, Fresh: true, Note: "writes dst, consumes src"},
	"io.ReadAll":                        {WritesParams: []int{0}, Fresh: true},
	"text/template.New":                 {Fresh: true},
	"(*text/template.Template).Parse":   {WritesParams: []int{0}, Fresh: false, Note: "returns its receiver"},
	"(*text/template.Template).Execute": {WritesParams: []int{1}, Fresh: true, Note: "writes the writer; reads data by reflection"},
}

type Effects struct {
	f     *Facts
	Funcs map[*ssa.Function]*FuncEffects
	All   []*ssa.Function
}

// AllFunctions lists every function (including closures and package
// initialisers) of the module packages present in this variant.
func (f *Facts) AllFunctions() []*ssa.Function {
	var out []*ssa.Function
	seen := map[*ssa.Function]bool{}
	var add func(fn *ssa.Function)
	add = func(fn *ssa.Function) {
		if fn == nil || seen[fn] {
			return
		}
		seen[fn] = true
		out = append(out, fn)
		for _, a := range fn.AnonFuncs {
			add(a)
		}
	}
	for path, sp := range f.Prog.SSAPkg {
		if !load.IsModule(path) {
			continue
		}
		for _, m := range sp.Members {
			switch x := m.(type) {
			case *ssa.Function:
				add(x)
			case *ssa.Type:
				// the methods of a generic type have no method value of their own; their generic bodies stand for
				// every instance (calls of an instance are attributed to them through Origin)
				if named, ok := x.Type().(*types.Named); ok && named.TypeParams().Len() > 0 {
					for i := 0; i < named.NumMethods(); i++ {
						if fn := f.Prog.SSA.FuncValue(named.Method(i)); fn != nil && fn.Synthetic == "" && len(fn.Blocks) > 0 {
							add(fn)
						}
					}
					continue
				}
				for _, t := range []types.Type{x.Type(), types.NewPointer(x.Type())} {
					ms := f.Prog.SSA.MethodSets.MethodSet(t)
					for i := 0; i < ms.Len(); i++ {
						fn := f.Prog.SSA.MethodValue(ms.At(i))
						if fn != nil && fn.Synthetic == "" && fn.Pkg == sp {
							add(fn)
						}
					}
				}
			}
		}
	}
	sort.Slice(out, func(i, j int) bool { return out[i].String() < out[j].String() })
	return out
}

func (f *Facts) Effects() *Effects {
	if f.eff != nil {
		return f.eff
	}
	ef := &Effects{f: f, Funcs: map[*ssa.Function]*FuncEffects{}}
	ef.All = f.AllFunctions()
	for _, fn := range ef.All {
		ef.Funcs[fn] = &FuncEffects{Fn: fn}
	}
	// returns-fresh fixpoint (optimistic start, then refute)
	for _, fe := range ef.Funcs {
		fe.ReturnsFresh = true
	}
	for changed := true; changed; {
		changed = false
		for _, fn := range ef.All {
			fe := ef.Funcs[fn]
			if !fe.ReturnsFresh {
				continue
			}
			if !ef.computeFresh(fn) {
				fe.ReturnsFresh = false
				changed = true
			}
		}
	}
	for _, fn := range ef.All {
		ef.direct(fn)
	}
	// propagate to fixpoint
	for _, fn := range ef.All {
		fe := ef.Funcs[fn]
		fe.Writes = append(fe.Writes, fe.Direct...)
	}
	for changed := true; changed; {
		changed = false
		for _, fn := range ef.All {
			if ef.propagate(fn) {
				changed = true
			}
		}
	}
	f.eff = ef
	return ef
}

func qualified(fn *ssa.Function) string {
	if fn.Object() != nil {
		if o, ok := fn.Object().(*types.Func); ok {
			return o.FullName()
		}
	}
	return fn.String()
}

// Roots traces a value back to where the memory it denotes (or points to) comes from.
func (ef *Effects) Roots(v ssa.Value) []Root {
	seen := map[ssa.Value]bool{}
	var out []Root
	add := func(r Root) {
		for _, o := range out {
			if o == r {
				return
			}
		}
		out = append(out, r)
	}
	var walk func(v ssa.Value)
	walk = func(v ssa.Value) {
		if v == nil || seen[v] {
			return
		}
		seen[v] = true
		switch x := v.(type) {
		case *ssa.Alloc, *ssa.MakeMap, *ssa.MakeSlice, *ssa.MakeChan:
			add(Root{Kind: RLocal})
		case *ssa.MakeClosure:
			add(Root{Kind: RLocal})
		case *ssa.Const:
			add(Root{Kind: RNone})
		case *ssa.Function, *ssa.Builtin:
			add(Root{Kind: RNone})
		case *ssa.Global:
			add(Root{Kind: RGlobal, Global: x})
		case *ssa.Parameter:
			idx := -1
			for i, p := range x.Parent().Params {
				if p == x {
					idx = i
				}
			}
			add(Root{Kind: RParam, Param: idx})
		case *ssa.FreeVar:
			add(Root{Kind: RFree, Why: x.Name()})
		case *ssa.FieldAddr:
			walk(x.X)
		case *ssa.Field:
			walk(x.X)
		case *ssa.IndexAddr:
			walk(x.X)
		case *ssa.Index:
			walk(x.X)
		case *ssa.Slice:
			walk(x.X)
		case *ssa.UnOp:
			if x.Op == token.MUL {
				if !pointerLike(x.Type()) {
					add(Root{Kind: RNone}) // a loaded scalar carries no reference
					return
				}
				// a reference loaded out of a local allocation is whatever was stored into that allocation
				// (m := *em copies em's pointers: memory reached through m is em's memory)
				if al := baseAlloc(x.X); al != nil {
					n := 0
					for _, st := range storesInto(al) {
						if pointerLike(st.Val.Type()) {
							n++
							walk(st.Val)
						}
					}
					if n == 0 {
						add(Root{Kind: RLocal})
					}
					return
				}
				walk(x.X)
				return
			}
			add(Root{Kind: RNone})
		case *ssa.BinOp:
			add(Root{Kind: RNone})
		case *ssa.Phi:
			for _, e := range x.Edges {
				walk(e)
			}
		case *ssa.ChangeType:
			walk(x.X)
		case *ssa.Convert:
			if pointerLike(x.Type()) {
				walk(x.X)
			} else {
				add(Root{Kind: RNone})
			}
		case *ssa.ChangeInterface:
			walk(x.X)
		case *ssa.MakeInterface:
			if pointerLike(x.X.Type()) {
				walk(x.X)
			} else {
				add(Root{Kind: RNone})
			}
		case *ssa.TypeAssert:
			walk(x.X)
		case *ssa.Extract:
			walk(x.Tuple)
		case *ssa.Lookup:
			if !pointerLike(x.Type()) {
				add(Root{Kind: RNone})
				return
			}
			walk(x.X)
		case *ssa.Next:
			walk(x.Iter)
		case *ssa.Range:
			walk(x.X)
		case *ssa.Call:
			if !pointerLikeResult(x.Type()) {
				add(Root{Kind: RNone})
				return
			}
			if callee := x.Call.StaticCallee(); callee != nil {
				if o := callee.Origin(); o != nil && ef.Funcs[o] != nil {
					callee = o
				}
				if fe := ef.Funcs[callee]; fe != nil {
					if fe.ReturnsFresh {
						add(Root{Kind: RLocal})
					} else {
						// result may alias arguments or globals: map the callee's return roots
						for _, r := range ef.returnRoots(callee) {
							switch r.Kind {
							case RParam:
								args := callArgs(x)
								if r.Param >= 0 && r.Param < len(args) {
									walk(args[r.Param])
								}
							case RLocal, RNone:
								add(Root{Kind: RLocal})
							default:
								add(r)
							}
						}
					}
					return
				}
				if eff, ok := externEffect(callee); ok && eff.Fresh {
					add(Root{Kind: RLocal})
					return
				}
				if qualified(callee) == "(*text/template.Template).Parse" {
					walk(callArgs(x)[0])
					return
				}
				add(Root{Kind: RUnknown, Why: "result of " + qualified(callee)})
				return
			}
			if b, ok := x.Call.Value.(*ssa.Builtin); ok {
				switch b.Name() {
				case "append":
					walk(x.Call.Args[0])
					return
				}
				add(Root{Kind: RNone})
				return
			}
			// a dynamic call: the union over the module functions it can resolve to, if all of them are known
			if targets := ef.dynamicTargets(&x.Call); len(targets) > 0 {
				known := true
				for _, t := range targets {
					if ef.Funcs[t] == nil {
						known = false
					}
				}
				if known {
					for _, t := range targets {
						if ef.Funcs[t].ReturnsFresh {
							add(Root{Kind: RLocal})
							continue
						}
						for _, r := range ef.returnRoots(t) {
							switch r.Kind {
							case RParam:
								args := callArgs(x)
								if r.Param >= 0 && r.Param < len(args) {
									walk(args[r.Param])
								}
							case RLocal, RNone:
								add(Root{Kind: RLocal})
							default:
								add(r)
							}
						}
					}
					return
				}
			}
			add(Root{Kind: RUnknown, Why: "result of a dynamic call"})
		default:
			add(Root{Kind: RUnknown, Why: fmt.Sprintf("%T", v)})
		}
	}
	walk(v)
	return out
}

func pointerLike(t types.Type) bool {
	switch u := t.Underlying().(type) {
	case *types.Pointer, *types.Map, *types.Slice, *types.Chan, *types.Interface, *types.Signature:
		return true
	case *types.Struct:
		for i := 0; i < u.NumFields(); i++ {
			if pointerLike(u.Field(i).Type()) {
				return true
			}
		}
	case *types.Array:
		return pointerLike(u.Elem())
	}
	return false
}

func pointerLikeResult(t types.Type) bool {
	if tu, ok := t.(*types.Tuple); ok {
		for i := 0; i < tu.Len(); i++ {
			if pointerLike(tu.At(i).Type()) {
				return true
			}
		}
		return false
	}
	return pointerLike(t)
}

func callArgs(c ssa.CallInstruction) []ssa.Value {
	cc := c.Common()
	if cc.IsInvoke() {
		return append([]ssa.Value{cc.Value}, cc.Args...)
	}
	return cc.Args
}

func (ef *Effects) returnRoots(fn *ssa.Function) []Root {
	fe := ef.Funcs[fn]
	if fe.retRoots != nil {
		return fe.retRoots
	}
	fe.retRoots = []Root{} // cycle guard
	var out []Root
	for _, b := range fn.Blocks {
		for _, in := range b.Instrs {
			if r, ok := in.(*ssa.Return); ok {
				for _, res := range r.Results {
					if !pointerLike(res.Type()) {
						continue
					}
					out = append(out, ef.Roots(res)...)
				}
			}
		}
	}
	fe.retRoots = out
	return out
}

func (ef *Effects) computeFresh(fn *ssa.Function) bool {
	if len(fn.Blocks) == 0 {
		return false
	}
	for _, b := range fn.Blocks {
		for _, in := range b.Instrs {
			r, ok := in.(*ssa.Return)
			if !ok {
				continue
			}
			for _, res := range r.Results {
				if !pointerLike(res.Type()) {
					continue
				}
				if types.Identical(res.Type(), types.Universe.Lookup("error").Type()) {
					continue // error values are immutable for our purposes
				}
				for _, rt := range ef.Roots(res) {
					if rt.Kind != RLocal && rt.Kind != RNone {
						return false
					}
				}
			}
		}
	}
	return true
}

// fieldOfAddr returns the struct field addressed by an address value, if any,
// and the base object pointer.
func fieldOfAddr(v ssa.Value) *types.Var {
	switch x := v.(type) {
	case *ssa.FieldAddr:
		st := x.X.Type().Underlying().(*types.Pointer).Elem().Underlying().(*types.Struct)
		return st.Field(x.Field)
	case *ssa.UnOp:
		if x.Op == token.MUL {
			return fieldOfAddr(x.X)
		}
	case *ssa.IndexAddr:
		return fieldOfAddr(x.X)
	case *ssa.ChangeType:
		return fieldOfAddr(x.X)
	}
	return nil
}

func (ef *Effects) direct(fn *ssa.Function) {
	fe := ef.Funcs[fn]
	addWrite := func(in ssa.Instruction, target ssa.Value, kind string) {
		for _, r := range ef.Roots(target) {
			if r.Kind == RLocal || r.Kind == RNone {
				continue
			}
			fe.Direct = append(fe.Direct, Write{Fn: fn, Pos: in.Pos(), Root: r, Field: fieldOfAddr(target), Kind: kind, Instr: in})
		}
	}
	for _, b := range fn.Blocks {
		for _, in := range b.Instrs {
			switch x := in.(type) {
			case *ssa.Store:
				addWrite(in, x.Addr, "store")
			case *ssa.MapUpdate:
				addWrite(in, x.Map, "map-update")
			case *ssa.Send:
				fe.Undecided = append(fe.Undecided, "channel send")
			case *ssa.Go:
				fe.Undecided = append(fe.Undecided, "go statement")
			case ssa.CallInstruction:
				cc := x.Common()
				if b, ok := cc.Value.(*ssa.Builtin); ok {
					switch b.Name() {
					case "delete", "clear", "copy":
						addWrite(in, cc.Args[0], b.Name())
					case "append":
						addWrite(in, cc.Args[0], "append")
					}
					continue
				}
				cs := CallSite{Instr: x, ViaParam: -1}
				if callee := cc.StaticCallee(); callee != nil {
					if o := callee.Origin(); o != nil && ef.Funcs[o] != nil {
						callee = o // an instance of a generic function of the module: use the generic body
					}
					if ef.Funcs[callee] != nil {
						cs.Callee = callee
					} else {
						cs.Extern = qualified(callee)
					}
				} else {
					cs.Dynamic = true
					if pv, ok := cc.Value.(*ssa.Parameter); ok && !cc.IsInvoke() && fn.Object() != nil && load.IsHelper(fn.Object()) {
						// an unexported helper calling the function it is handed: judged where it is called
						for i, q := range fn.Params {
							if q == pv {
								cs.ViaParam = i
							}
						}
					}
					if cs.ViaParam < 0 {
						cs.Targets = ef.dynamicTargets(cc)
					}
				}
				fe.Calls = append(fe.Calls, cs)
			}
		}
	}
}

// dynamicTargets resolves a call through a function value or interface to
// the module functions/closures of identical signature (CHA restricted to the
// module). For interface invokes nothing is resolved here.
func (ef *Effects) dynamicTargets(cc *ssa.CallCommon) []*ssa.Function {
	if cc.IsInvoke() {
		// class-hierarchy resolution restricted to the module: every module type implementing the interface
		iface, ok := cc.Value.Type().Underlying().(*types.Interface)
		if !ok {
			return nil
		}
		var out []*ssa.Function
		seen := map[*ssa.Function]bool{}
		for path, sp := range ef.f.Prog.SSAPkg {
			if !load.IsModule(path) {
				continue
			}
			for _, m := range sp.Members {
				t, ok := m.(*ssa.Type)
				if !ok {
					continue
				}
				for _, T := range []types.Type{t.Type(), types.NewPointer(t.Type())} {
					if !types.Implements(T, iface) {
						continue
					}
					sel := ef.f.Prog.SSA.MethodSets.MethodSet(T).Lookup(cc.Method.Pkg(), cc.Method.Name())
					if sel == nil {
						continue
					}
					fn := ef.f.Prog.SSA.MethodValue(sel)
					if fn != nil && ef.Funcs[fn] != nil && !seen[fn] {
						seen[fn] = true
						out = append(out, fn)
					}
				}
			}
		}
		return out
	}
	sig, ok := cc.Value.Type().Underlying().(*types.Signature)
	if !ok {
		return nil
	}
	generic := sigMentionsTypeParam(sig)
	var out []*ssa.Function
	for _, fn := range ef.All {
		if fn.Signature.Recv() != nil {
			// a method value (x.M passed as a function): the function type is the method's without its receiver
			ms := fn.Signature
			if types.Identical(types.NewSignatureType(nil, nil, nil, ms.Params(), ms.Results(), ms.Variadic()), sig) {
				out = append(out, fn)
			}
			continue
		}
		if types.Identical(fn.Signature, sig) || (generic && wildMatch(fn.Signature, sig)) {
			out = append(out, fn)
		}
	}
	return out
}

// sigMentionsTypeParam: the function type of a call inside a generic body may mention the body's type parameters.
func sigMentionsTypeParam(sig *types.Signature) bool {
	for _, tup := range []*types.Tuple{sig.Params(), sig.Results()} {
		for i := 0; i < tup.Len(); i++ {
			if mentionsTP(tup.At(i).Type(), 0) {
				return true
			}
		}
	}
	return false
}

func mentionsTP(t types.Type, depth int) bool {
	if depth > 6 {
		return false
	}
	switch u := t.(type) {
	case *types.TypeParam:
		return true
	case *types.Pointer:
		return mentionsTP(u.Elem(), depth+1)
	case *types.Slice:
		return mentionsTP(u.Elem(), depth+1)
	case *types.Array:
		return mentionsTP(u.Elem(), depth+1)
	case *types.Map:
		return mentionsTP(u.Key(), depth+1) || mentionsTP(u.Elem(), depth+1)
	case *types.Named:
		if ta := u.TypeArgs(); ta != nil {
			for i := 0; i < ta.Len(); i++ {
				if mentionsTP(ta.At(i), depth+1) {
					return true
				}
			}
		}
	}
	return false
}

// wildMatch: fn's type fits the call's function type when the positions of the latter that mention a type
// parameter are read as "any type" (every instance of the generic body is covered).
func wildMatch(fn, call *types.Signature) bool {
	if fn.Params().Len() != call.Params().Len() || fn.Results().Len() != call.Results().Len() || fn.Variadic() != call.Variadic() {
		return false
	}
	for _, pr := range [][2]*types.Tuple{{fn.Params(), call.Params()}, {fn.Results(), call.Results()}} {
		for i := 0; i < pr[0].Len(); i++ {
			a, b := pr[0].At(i).Type(), pr[1].At(i).Type()
			if !mentionsTP(b, 0) && !types.Identical(a, b) {
				return false
			}
		}
	}
	return true
}

// propagate folds callee effects into fn; returns true if something was added.
func (ef *Effects) propagate(fn *ssa.Function) bool {
	fe := ef.Funcs[fn]
	changed := false
	have := map[string]bool{}
	for _, w := range fe.Writes {
		have[writeKey(w)] = true
	}
	add := func(w Write) {
		k := writeKey(w)
		if have[k] {
			return
		}
		have[k] = true
		fe.Writes = append(fe.Writes, w)
		changed = true
	}
	undec := map[string]bool{}
	for _, u := range fe.Undecided {
		undec[u] = true
	}
	addUndec := func(s string) {
		if !undec[s] {
			undec[s] = true
			fe.Undecided = append(fe.Undecided, s)
			changed = true
		}
	}
	mapWrite := func(cs CallSite, w Write, calleeName string) {
		args := callArgs(cs.Instr)
		switch w.Root.Kind {
		case RParam:
			if w.Root.Param < 0 || w.Root.Param >= len(args) {
				addUndec(fmt.Sprintf("call of %s: parameter index out of range", calleeName))
				return
			}
			for _, r := range ef.Roots(args[w.Root.Param]) {
				if r.Kind == RLocal || r.Kind == RNone {
					continue
				}
				nw := w
				nw.Root = r
				nw.Via = append([]string{calleeName}, w.Via...)
				add(nw)
			}
		case RFree:
			// a closure writing a captured variable: the variable lives in the enclosing function
			nw := w
			nw.Via = append([]string{calleeName}, w.Via...)
			add(nw)
		default:
			nw := w
			nw.Via = append([]string{calleeName}, w.Via...)
			add(nw)
		}
	}
	for _, cs := range fe.Calls {
		switch {
		case cs.Callee != nil:
			ce := ef.Funcs[cs.Callee]
			for _, w := range ce.Writes {
				mapWrite(cs, w, cs.Callee.String())
			}
			for _, u := range ce.Undecided {
				addUndec(u + " (via " + cs.Callee.String() + ")")
			}
			// the callee calls a function value it is handed: attribute what that function does, here, where it is known
			if len(ce.ParamCalls) > 0 {
				args := callArgs(cs.Instr)
				for pi := range ce.ParamCalls {
					if pi >= len(args) {
						addUndec("call of " + cs.Callee.String() + ": function-valued argument not found")
						continue
					}
					switch a := args[pi].(type) {
					case *ssa.Parameter:
						// handed on: judged at this function's own call sites
						for i, q := range fn.Params {
							if q == a && fn.Object() != nil && load.IsHelper(fn.Object()) {
								if fe.ParamCalls == nil {
									fe.ParamCalls = map[int]bool{}
								}
								if !fe.ParamCalls[i] {
									fe.ParamCalls[i] = true
									changed = true
								}
								a = nil
							}
						}
						if a != nil {
							addUndec("a function value of unknown origin is handed to " + cs.Callee.String() + ", which calls it")
						}
					case *ssa.MakeClosure:
						target, _ := a.Fn.(*ssa.Function)
						var recv ssa.Value
						if target != nil && strings.HasPrefix(target.Synthetic, "bound method wrapper") && len(a.Bindings) == 1 {
							// x.M: the method M on the bound receiver
							recv = a.Bindings[0]
							var m *ssa.Function
							for _, blk := range target.Blocks {
								for _, in := range blk.Instrs {
									if c, ok := in.(*ssa.Call); ok && c.Call.StaticCallee() != nil {
										m = c.Call.StaticCallee()
									}
								}
							}
							target = m
						}
						te := ef.Funcs[target]
						if target == nil || te == nil {
							addUndec("a closure or method value without an in-module body is handed to " + cs.Callee.String())
							continue
						}
						for _, u := range te.Undecided {
							addUndec(u + " (via " + target.String() + ")")
						}
						for _, w := range te.Writes {
							switch {
							case w.Root.Kind == RParam && recv != nil && w.Root.Param == 0:
								for _, r := range ef.Roots(recv) {
									if r.Kind == RLocal || r.Kind == RNone {
										continue
									}
									nw := w
									nw.Root = r
									nw.Via = append([]string{cs.Callee.String(), target.String()}, w.Via...)
									add(nw)
								}
							case w.Root.Kind == RParam:
								addUndec("the function value handed to " + cs.Callee.String() + " (" + target.String() + ") writes through an argument it is given there")
							default:
								nw := w
								nw.Via = append([]string{cs.Callee.String(), target.String()}, w.Via...)
								add(nw)
							}
						}
					case *ssa.Function:
						te := ef.Funcs[a]
						if te == nil {
							addUndec("a function without an in-module body is handed to " + cs.Callee.String())
							continue
						}
						for _, u := range te.Undecided {
							addUndec(u + " (via " + a.String() + ")")
						}
						for _, w := range te.Writes {
							if w.Root.Kind == RParam {
								addUndec("the function handed to " + cs.Callee.String() + " (" + a.String() + ") writes through an argument it is given there")
								continue
							}
							nw := w
							nw.Via = append([]string{cs.Callee.String(), a.String()}, w.Via...)
							add(nw)
						}
					default:
						addUndec("a function value of unknown origin is handed to " + cs.Callee.String() + ", which calls it")
					}
				}
			}
		case cs.Extern != "":
			eff, ok := externEffect(cs.Instr.Common().StaticCallee())
			if !ok {
				addUndec("call of " + cs.Extern + " is not in the external-effects allow-list")
				continue
			}
			args := callArgs(cs.Instr)
			for _, pi := range eff.WritesParams {
				if pi >= len(args) {
					continue
				}
				for _, r := range ef.Roots(args[pi]) {
					if r.Kind == RLocal || r.Kind == RNone {
						continue
					}
					add(Write{Fn: fn, Pos: cs.Instr.Pos(), Root: r, Kind: "extern:" + cs.Extern, Instr: cs.Instr})
				}
			}
		case cs.Dynamic && cs.ViaParam >= 0:
			if fe.ParamCalls == nil {
				fe.ParamCalls = map[int]bool{}
			}
			if !fe.ParamCalls[cs.ViaParam] {
				fe.ParamCalls[cs.ViaParam] = true
				changed = true
			}
		case cs.Dynamic:
			if cs.Instr.Common().IsInvoke() && len(cs.Targets) == 0 {
				m := cs.Instr.Common().Method
				name := m.FullName()
				if eff, ok := ExternInvokes[name]; ok {
					args := callArgs(cs.Instr)
					for _, pi := range eff.WritesParams {
						for _, r := range ef.Roots(args[pi]) {
							if r.Kind == RLocal || r.Kind == RNone {
								continue
							}
							add(Write{Fn: fn, Pos: cs.Instr.Pos(), Root: r, Kind: "invoke:" + name, Instr: cs.Instr})
						}
					}
					continue
				}
				addUndec("interface method call " + name + " is not in the allow-list")
				continue
			}
			if len(cs.Targets) == 0 {
				addUndec("call through a function value with no in-module target")
				continue
			}
			for _, t := range cs.Targets {
				ce := ef.Funcs[t]
				for _, w := range ce.Writes {
					if t.Signature.Recv() != nil && !cs.Instr.Common().IsInvoke() && w.Root.Kind == RParam {
						// a method reached as a method value: its receiver is bound in the function value, not among the
						// call's arguments; what it writes through the receiver cannot be attributed here
						if w.Root.Param == 0 {
							addUndec("call through a function value that may be the method value of " + t.String() + ", which writes through its receiver")
							continue
						}
						sw := w
						sw.Root.Param--
						mapWrite(cs, sw, t.String())
						continue
					}
					mapWrite(cs, w, t.String())
				}
				for _, u := range ce.Undecided {
					addUndec(u + " (via " + t.String() + ")")
				}
			}
		}
	}
	return changed
}

// purePkgs: every package-level function and every value-receiver method of
// these packages neither writes memory its caller can see nor returns
// references into caller-visible memory (beyond immutable strings).
var purePkgs = map[string]bool{
	"strings": true, "strconv": true, "math": true, "math/bits": true, "unicode": true, "unicode/utf8": true,
	"errors": true, "fmt": true, "golang.org/x/text/language": true, "github.com/goark/errs": true, "cmp": true,
}

// argWriters: standard-library functions that modify exactly the listed arguments (sorting in place, copying into
// a destination) and nothing else the caller can see.
var argWriters = map[string][]int{
	"sort.Slice": {0}, "sort.SliceStable": {0}, "sort.Ints": {0}, "sort.Strings": {0}, "sort.Float64s": {0}, "sort.Sort": {0}, "sort.Stable": {0},
	"slices.Sort": {0}, "slices.SortFunc": {0}, "slices.SortStableFunc": {0}, "slices.Reverse": {0},
	"maps.Copy": {0}, "maps.DeleteFunc": {0},
	"io.WriteString": {0},
}

// freshFuncs: standard-library functions that only read their arguments; what they return does not alias them in
// a way a later write could exploit (a clone, an index, a boolean).
var freshFuncs = map[string]bool{
	"maps.Clone": true, "maps.Equal": true, "maps.EqualFunc": true,
	"slices.Clone": true, "slices.Contains": true, "slices.ContainsFunc": true, "slices.Index": true, "slices.IndexFunc": true,
	"slices.Equal": true, "slices.BinarySearch": true, "slices.Max": true, "slices.Min": true,
	"sort.SearchInts": true, "sort.SearchStrings": true, "sort.Search": true,
}

// externEffect looks a callee up in the explicit table, then in the pure-package rule.
func externEffect(callee *ssa.Function) (ExternEffect, bool) {
	q := qualified(callee)
	if eff, ok := Externs[q]; ok {
		return eff, true
	}
	// sort / slices / maps / io helpers, by name without type arguments (callees may be generic instances)
	base := q
	if i := strings.Index(base, "["); i >= 0 {
		base = base[:i]
	}
	if ps, ok := argWriters[base]; ok {
		return ExternEffect{WritesParams: ps, Fresh: true, Note: "writes only the listed arguments"}, true
	}
	if freshFuncs[base] {
		return ExternEffect{Fresh: true, Note: "reads its arguments, returns a fresh value"}, true
	}
	if callee.Pkg != nil && purePkgs[callee.Pkg.Pkg.Path()] {
		recv := callee.Signature.Recv()
		if recv == nil {
			return ExternEffect{Fresh: true, Note: "package-level function of a pure package"}, true
		}
		if _, isPtr := recv.Type().(*types.Pointer); !isPtr {
			return ExternEffect{Fresh: true, Note: "value-receiver method of a pure package"}, true
		}
	}
	return ExternEffect{}, false
}

// ExternInvokes lists interface methods the library calls, with their effects.
var ExternInvokes = map[string]ExternEffect{
	"(error).Error": {},
	"(golang.org/x/text/language.Matcher).Match": {Fresh: true, Note: "x/text matcher: read-only"},
	"(fmt.Stringer).String":                      {Fresh: true},
}

func writeKey(w Write) string {
	f := ""
	if w.Field != nil {
		f = w.Field.Name()
	}
	// (the chain of calls a write is reached through is kept for the report only: with it in the key a cycle of
	// calls - a generic helper and the function values it may call - would produce a new write on every round)
	return fmt.Sprintf("%p|%s|%v|%s", w.Instr, w.Kind, w.Root, f)
}

// Describe renders a write for a report.
func (ef *Effects) Describe(w Write) string {
	f := ""
	if w.Field != nil {
		f = " field " + w.Field.Name()
	}
	via := ""
	if len(w.Via) > 0 {
		via = " via " + strings.Join(w.Via, " -> ")
	}
	return fmt.Sprintf("%s to %s%s in %s at %s%s", w.Kind, w.Root, f, w.Fn.String(), ef.f.Prog.Pos(w.Pos), via)
}

// baseAlloc strips field/index addressing from an address and returns the local allocation it is based on.
func baseAlloc(v ssa.Value) *ssa.Alloc {
	for {
		switch x := v.(type) {
		case *ssa.Alloc:
			return x
		case *ssa.FieldAddr:
			v = x.X
		case *ssa.IndexAddr:
			v = x.X
		default:
			return nil
		}
	}
}

// storesInto lists the stores into a local allocation or into any of its fields/elements.
func storesInto(al *ssa.Alloc) []*ssa.Store {
	var out []*ssa.Store
	seen := map[ssa.Value]bool{}
	var visit func(addr ssa.Value)
	visit = func(addr ssa.Value) {
		if seen[addr] {
			return
		}
		seen[addr] = true
		refs := addr.Referrers()
		if refs == nil {
			return
		}
		for _, r := range *refs {
			switch x := r.(type) {
			case *ssa.Store:
				if x.Addr == addr {
					out = append(out, x)
				}
			case *ssa.FieldAddr:
				if x.X == addr {
					visit(x)
				}
			case *ssa.IndexAddr:
				if x.X == addr {
					visit(x)
				}
			}
		}
	}
	visit(al)
	return out
}
