// Package report collects obligations, matches them against the committed
// known-findings file and writes the evidence / violations files.
package report

import (
	"bufio"
	"encoding/json"
	"fmt"
	"os"
	"path/filepath"
	"sort"
	"strings"
)

type Status string

const (
	OK        Status = "ok"
	Violation Status = "violation"
	Undecided Status = "undecided"
	Known     Status = "known-finding"
)

type Obligation struct {
	Rule      string `json:"rule"`
	Construct string `json:"construct"`
	Pos       string `json:"pos,omitempty"`
	Status    Status `json:"status"`
	Detail    string `json:"detail,omitempty"`
	Variant   string `json:"variant,omitempty"`
}

// Ctx is what a property's rule set writes into.
type Ctx struct {
	Prop        string
	Tier        string
	Level       string
	Variant     string
	Obs         []Obligation
	Floors      map[string]int
	Assumptions []string
	Trusted     []string
	Explanation string
	NotDecided  []string
	Analysed    map[string]interface{}
	Extra       map[string]interface{}
	seen        map[string]bool
	evaluated   *Result
	// SelfCheckFailed is set by the thorough tier when a mutant was not caught or a
	// neutral refactoring raised an alarm: the run then exits 2 without a VIOLATION line.
	SelfCheckFailed string
}

func NewCtx(prop, tier string) *Ctx {
	return &Ctx{Prop: prop, Tier: tier, Level: "other", Floors: map[string]int{}, Analysed: map[string]interface{}{}, Extra: map[string]interface{}{}, seen: map[string]bool{}}
}

func (c *Ctx) add(st Status, rule, construct, pos, detail string) {
	key := c.Variant + "|" + rule + "|" + construct + "|" + string(st) + "|" + detail
	if c.seen[key] {
		return
	}
	c.seen[key] = true
	c.Obs = append(c.Obs, Obligation{Rule: rule, Construct: construct, Pos: pos, Status: st, Detail: detail, Variant: c.Variant})
}

func (c *Ctx) Ok(rule, construct, pos, detail string) { c.add(OK, rule, construct, pos, detail) }
func (c *Ctx) Fail(rule, construct, pos, detail string) {
	c.add(Violation, rule, construct, pos, detail)
}
func (c *Ctx) Undecided(rule, construct, pos, detail string) {
	c.add(Undecided, rule, construct, pos, "UNDECIDED: "+detail)
}

// Check records ok or violation depending on cond.
func (c *Ctx) Check(cond bool, rule, construct, pos, okDetail, failDetail string) bool {
	if cond {
		c.Ok(rule, construct, pos, okDetail)
	} else {
		c.Fail(rule, construct, pos, failDetail)
	}
	return cond
}

// Floor declares the minimum number of obligations a rule must produce.
func (c *Ctx) Floor(rule string, n int) {
	if n > c.Floors[rule] {
		c.Floors[rule] = n
	}
}

// ---------------------------------------------------------------------------

type KnownFinding struct {
	Kind      string // finding | fixed
	Prop      string
	Rule      string
	Construct string
	Raw       string
}

func ReadKnown(path string) ([]KnownFinding, error) {
	f, err := os.Open(path)
	if err != nil {
		if os.IsNotExist(err) {
			return nil, nil
		}
		return nil, err
	}
	defer f.Close()
	var out []KnownFinding
	sc := bufio.NewScanner(f)
	for sc.Scan() {
		line := strings.TrimSpace(sc.Text())
		if line == "" || strings.HasPrefix(line, "#") {
			continue
		}
		var k KnownFinding
		k.Raw = line
		switch {
		case strings.HasPrefix(line, "finding:"):
			k.Kind = "finding"
			rest := strings.TrimSpace(strings.TrimPrefix(line, "finding:"))
			// property=C04 rule=<rule> <construct...>
			fs := strings.SplitN(rest, " ", 3)
			if len(fs) != 3 || !strings.HasPrefix(fs[0], "property=") || !strings.HasPrefix(fs[1], "rule=") {
				return nil, fmt.Errorf("known findings: cannot parse %q", line)
			}
			k.Prop = strings.TrimPrefix(fs[0], "property=")
			k.Rule = strings.TrimPrefix(fs[1], "rule=")
			k.Construct = strings.TrimSpace(fs[2])
		case strings.HasPrefix(line, "fixed:"):
			k.Kind = "fixed"
			rest := strings.TrimSpace(strings.TrimPrefix(line, "fixed:"))
			fs := strings.SplitN(rest, " ", 2)
			if len(fs) >= 1 {
				k.Prop = strings.TrimPrefix(fs[0], "property=")
			}
		default:
			return nil, fmt.Errorf("known findings: cannot parse %q", line)
		}
		out = append(out, k)
	}
	return out, sc.Err()
}

// ---------------------------------------------------------------------------

type Result struct {
	OK         int
	Violations int
	Known      []Obligation
	Stale      []KnownFinding
	Bad        []Obligation
}

// Evaluate applies the instance floors and the known-findings file and
// classifies the obligations. It is idempotent.
func (c *Ctx) Evaluate(verifDir string) Result {
	if c.evaluated != nil {
		return *c.evaluated
	}
	// floors
	counts := map[string]int{}
	for _, o := range c.Obs {
		counts[o.Rule]++
	}
	var floorRules []string
	for r := range c.Floors {
		floorRules = append(floorRules, r)
	}
	sort.Strings(floorRules)
	for _, r := range floorRules {
		if counts[r] < c.Floors[r] {
			c.Obs = append(c.Obs, Obligation{Rule: "instance-floor", Construct: r, Status: Violation,
				Detail: fmt.Sprintf("rule %s matched %d instances, floor confirmed by hand is %d (the rule lost sight of constructs it is responsible for)", r, counts[r], c.Floors[r])})
		} else {
			c.Obs = append(c.Obs, Obligation{Rule: "instance-floor", Construct: r, Status: OK, Detail: fmt.Sprintf("%d instances >= floor %d", counts[r], c.Floors[r])})
		}
	}
	// known findings
	known, err := ReadKnown(filepath.Join(verifDir, "known_findings.txt"))
	if err != nil {
		c.Obs = append(c.Obs, Obligation{Rule: "known-findings-file", Construct: "known_findings.txt", Status: Violation, Detail: err.Error()})
	}
	used := map[int]bool{}
	for i := range c.Obs {
		o := &c.Obs[i]
		if o.Status != Violation {
			continue
		}
		for j, k := range known {
			if k.Kind == "finding" && k.Prop == c.Prop && k.Rule == o.Rule && k.Construct == o.Construct {
				o.Status = Known
				used[j] = true
			}
		}
	}
	res := Result{}
	nOK := 0
	for _, o := range c.Obs {
		switch o.Status {
		case OK:
			nOK++
		case Known:
			res.Known = append(res.Known, o)
		default:
			res.Bad = append(res.Bad, o)
		}
	}
	for j, k := range known {
		if k.Kind == "finding" && k.Prop == c.Prop && !used[j] {
			res.Stale = append(res.Stale, k)
		}
	}
	res.Violations = len(res.Bad)
	res.OK = nOK
	c.evaluated = &res
	return res
}

// Finish evaluates, writes evidence and (on violation) the violations file,
// prints the protocol lines and returns the exit code.
func (c *Ctx) Finish(verifDir string, seed int, wall float64, cmd string) int {
	res := c.Evaluate(verifDir)
	nOK := res.OK
	if c.SelfCheckFailed != "" {
		fmt.Println("SELF-CHECK FAILED (the checker, not go-cvss, is at fault): " + c.SelfCheckFailed)
	}

	// print known findings (dedup by rule+construct)
	printed := map[string]bool{}
	for _, o := range res.Known {
		key := o.Rule + " " + o.Construct
		if printed[key] {
			continue
		}
		printed[key] = true
		fmt.Printf("KNOWN-FINDING: property=%s rule=%s %s -- %s (%s)\n", c.Prop, o.Rule, o.Construct, o.Detail, o.Pos)
	}
	for _, k := range res.Stale {
		fmt.Printf("note: known finding no longer matches anything (stale): %s\n", k.Raw)
	}

	if c.Assumptions == nil {
		c.Assumptions = []string{}
	}
	if c.Trusted == nil {
		c.Trusted = []string{}
	}
	if c.NotDecided == nil {
		c.NotDecided = []string{}
	}
	for _, nd := range c.NotDecided {
		c.Assumptions = append(c.Assumptions, "not decided by this check: "+nd)
	}
	evDir := filepath.Join(verifDir, "evidence")
	os.MkdirAll(evDir, 0o755)
	violPath := filepath.Join(evDir, c.Prop+".violations.json")
	os.Remove(violPath)

	// samples: a spread of obligations, preferring distinct rules
	samples := []Obligation{}
	perRule := map[string]int{}
	for _, o := range c.Obs {
		if perRule[o.Rule] < 2 && len(samples) < 24 {
			samples = append(samples, o)
			perRule[o.Rule]++
		}
	}
	distinct := map[string]bool{}
	for _, o := range c.Obs {
		if o.Rule == "instance-floor" {
			continue
		}
		distinct[o.Rule+"|"+o.Construct] = true
	}
	ruleCounts := map[string]map[string]int{}
	for _, o := range c.Obs {
		if ruleCounts[o.Rule] == nil {
			ruleCounts[o.Rule] = map[string]int{}
		}
		ruleCounts[o.Rule][string(o.Status)]++
	}
	stale := []string{}
	for _, k := range res.Stale {
		stale = append(stale, k.Raw)
	}
	coverage := map[string]interface{}{
		"obligations":          len(c.Obs),
		"discharged":           nOK,
		"known_findings":       len(res.Known),
		"failed":               len(res.Bad),
		"evaluations":          len(c.Obs),
		"distinct_nontrivial":  len(distinct),
		"rule":                 "one obligation per {rule, construct} instance found in /repo's type-checked source; distinct_nontrivial counts distinct {rule, construct} pairs whose construct is a resolved object (function, field, table cell, call site) of /repo; instance-floor bookkeeping obligations are excluded from that count",
		"checker_cmd":          cmd,
		"trusted_base":         c.Trusted,
		"explanation":          c.Explanation,
		"not_decided":          c.NotDecided,
		"samples":              samples,
		"by_rule":              ruleCounts,
		"analysed":             c.Analysed,
		"stale_known_findings": stale,
		"exhaustive":           c.Level == "proof",
	}
	for k, v := range c.Extra {
		coverage[k] = v
	}
	ev := map[string]interface{}{
		"property_id": c.Prop,
		"tier":        c.Tier,
		"seed":        seed,
		"level":       c.Level,
		"coverage":    coverage,
		"assumptions": c.Assumptions,
		"wall_s":      wall,
		"violations":  res.Violations,
	}
	writeJSON(filepath.Join(evDir, c.Prop+".json"), ev)

	if res.Violations > 0 {
		writeJSON(violPath, map[string]interface{}{"property_id": c.Prop, "tier": c.Tier, "failing_obligations": res.Bad, "how_to_read": "each entry names the rule, the construct in /repo it was applied to (file:line in the analysed tree) and what was expected/found; re-run: bin/cvsslint -explain " + violPath})
		for _, o := range res.Bad {
			fmt.Printf("  %s %s [%s] %s: %s\n", strings.ToUpper(string(o.Status)), o.Rule, o.Pos, o.Construct, o.Detail)
		}
		fmt.Printf("VIOLATION property=%s replay=%s\n", c.Prop, violPath)
		return 1
	}
	if c.SelfCheckFailed != "" {
		return 2
	}
	fmt.Printf("ok property=%s tier=%s obligations=%d discharged=%d known_findings=%d wall=%.1fs\n", c.Prop, c.Tier, len(c.Obs), nOK, len(res.Known), wall)
	return 0
}

func writeJSON(path string, v interface{}) {
	b, err := json.MarshalIndent(v, "", " ")
	if err != nil {
		fmt.Fprintln(os.Stderr, "evidence:", err)
		os.Exit(2)
	}
	if err := os.WriteFile(path, append(b, '\n'), 0o644); err != nil {
		fmt.Fprintln(os.Stderr, "evidence:", err)
		os.Exit(2)
	}
}
