// Package spec is the specification side of every comparison: data
// transcribed by hand from the FIRST CVSS v2 guide, the CVSS v3.0 and v3.1
// specification documents and the property statements in
// /verif/properties.jsonl. It is part of the trusted base. Nothing here is
// derived from /repo.
package spec

// Metric describes one metric of one CVSS version: its vector abbreviation and,
// per value code, the numeric weight as the decimal string printed in the
// specification.
type Metric struct {
	Name  string
	Codes []Code
	// PRLike: the weight depends on scope; Codes[i].Weight is the weight under
	// Scope Unchanged and WeightChanged the one under Scope Changed.
	ScopeDependent bool
	// ModifiedOf names the base metric a v3 Modified metric falls back to.
	ModifiedOf string
	NoWeight   bool // Scope / Modified Scope carry no number
}

type Code struct {
	Code          string
	Weight        string
	WeightChanged string
	NotDefined    bool // the X / ND code
	English       string
}

type Level struct {
	Name    string // Base, Temporal, Environmental
	Metrics []Metric
}

type Version struct {
	Name   string // v2, v3
	Pkg    string // module-relative package path
	Levels []Level
}

func (v Version) Level(name string) *Level {
	for i := range v.Levels {
		if v.Levels[i].Name == name {
			return &v.Levels[i]
		}
	}
	return nil
}

func (l *Level) Names() []string {
	var out []string
	for _, m := range l.Metrics {
		out = append(out, m.Name)
	}
	return out
}

func (v Version) Metric(name string) *Metric {
	for i := range v.Levels {
		for j := range v.Levels[i].Metrics {
			if v.Levels[i].Metrics[j].Name == name {
				return &v.Levels[i].Metrics[j]
			}
		}
	}
	return nil
}

func c(code, w string) Code       { return Code{Code: code, Weight: w} }
func nd(code, w string) Code      { return Code{Code: code, Weight: w, NotDefined: true} }
func cs(code, wu, wc string) Code { return Code{Code: code, Weight: wu, WeightChanged: wc} }
func ndm(code string) Code        { return Code{Code: code, NotDefined: true} }

// V3 is CVSS v3.0 / v3.1 (the metric tables are identical in both).
var V3 = Version{Name: "v3", Pkg: "v3/metric", Levels: []Level{
	{Name: "Base", Metrics: []Metric{
		{Name: "AV", Codes: []Code{c("N", "0.85"), c("A", "0.62"), c("L", "0.55"), c("P", "0.2")}},
		{Name: "AC", Codes: []Code{c("L", "0.77"), c("H", "0.44")}},
		{Name: "PR", ScopeDependent: true, Codes: []Code{cs("N", "0.85", "0.85"), cs("L", "0.62", "0.68"), cs("H", "0.27", "0.5")}},
		{Name: "UI", Codes: []Code{c("N", "0.85"), c("R", "0.62")}},
		{Name: "S", NoWeight: true, Codes: []Code{c("U", ""), c("C", "")}},
		{Name: "C", Codes: []Code{c("H", "0.56"), c("L", "0.22"), c("N", "0")}},
		{Name: "I", Codes: []Code{c("H", "0.56"), c("L", "0.22"), c("N", "0")}},
		{Name: "A", Codes: []Code{c("H", "0.56"), c("L", "0.22"), c("N", "0")}},
	}},
	{Name: "Temporal", Metrics: []Metric{
		{Name: "E", Codes: []Code{nd("X", "1"), c("H", "1"), c("F", "0.97"), c("P", "0.94"), c("U", "0.91")}},
		{Name: "RL", Codes: []Code{nd("X", "1"), c("U", "1"), c("W", "0.97"), c("T", "0.96"), c("O", "0.95")}},
		{Name: "RC", Codes: []Code{nd("X", "1"), c("C", "1"), c("R", "0.96"), c("U", "0.92")}},
	}},
	{Name: "Environmental", Metrics: []Metric{
		{Name: "CR", Codes: []Code{nd("X", "1"), c("H", "1.5"), c("M", "1"), c("L", "0.5")}},
		{Name: "IR", Codes: []Code{nd("X", "1"), c("H", "1.5"), c("M", "1"), c("L", "0.5")}},
		{Name: "AR", Codes: []Code{nd("X", "1"), c("H", "1.5"), c("M", "1"), c("L", "0.5")}},
		{Name: "MAV", ModifiedOf: "AV", Codes: []Code{ndm("X"), c("N", "0.85"), c("A", "0.62"), c("L", "0.55"), c("P", "0.2")}},
		{Name: "MAC", ModifiedOf: "AC", Codes: []Code{ndm("X"), c("L", "0.77"), c("H", "0.44")}},
		{Name: "MPR", ModifiedOf: "PR", ScopeDependent: true, Codes: []Code{ndm("X"), cs("N", "0.85", "0.85"), cs("L", "0.62", "0.68"), cs("H", "0.27", "0.5")}},
		{Name: "MUI", ModifiedOf: "UI", Codes: []Code{ndm("X"), c("N", "0.85"), c("R", "0.62")}},
		{Name: "MS", ModifiedOf: "S", NoWeight: true, Codes: []Code{ndm("X"), c("U", ""), c("C", "")}},
		{Name: "MC", ModifiedOf: "C", Codes: []Code{ndm("X"), c("H", "0.56"), c("L", "0.22"), c("N", "0")}},
		{Name: "MI", ModifiedOf: "I", Codes: []Code{ndm("X"), c("H", "0.56"), c("L", "0.22"), c("N", "0")}},
		{Name: "MA", ModifiedOf: "A", Codes: []Code{ndm("X"), c("H", "0.56"), c("L", "0.22"), c("N", "0")}},
	}},
}}

// V2 is CVSS v2.0.
var V2 = Version{Name: "v2", Pkg: "v2/metric", Levels: []Level{
	{Name: "Base", Metrics: []Metric{
		{Name: "AV", Codes: []Code{c("L", "0.395"), c("A", "0.646"), c("N", "1.0")}},
		{Name: "AC", Codes: []Code{c("H", "0.35"), c("M", "0.61"), c("L", "0.71")}},
		{Name: "Au", Codes: []Code{c("M", "0.45"), c("S", "0.56"), c("N", "0.704")}},
		{Name: "C", Codes: []Code{c("N", "0"), c("P", "0.275"), c("C", "0.660")}},
		{Name: "I", Codes: []Code{c("N", "0"), c("P", "0.275"), c("C", "0.660")}},
		{Name: "A", Codes: []Code{c("N", "0"), c("P", "0.275"), c("C", "0.660")}},
	}},
	{Name: "Temporal", Metrics: []Metric{
		{Name: "E", Codes: []Code{c("U", "0.85"), c("POC", "0.9"), c("F", "0.95"), c("H", "1.00"), nd("ND", "1.00")}},
		{Name: "RL", Codes: []Code{c("OF", "0.87"), c("TF", "0.90"), c("W", "0.95"), c("U", "1.00"), nd("ND", "1.00")}},
		{Name: "RC", Codes: []Code{c("UC", "0.90"), c("UR", "0.95"), c("C", "1.00"), nd("ND", "1.00")}},
	}},
	{Name: "Environmental", Metrics: []Metric{
		{Name: "CDP", Codes: []Code{c("N", "0"), c("L", "0.1"), c("LM", "0.3"), c("MH", "0.4"), c("H", "0.5"), nd("ND", "0")}},
		{Name: "TD", Codes: []Code{c("N", "0"), c("L", "0.25"), c("M", "0.75"), c("H", "1.00"), nd("ND", "1.00")}},
		{Name: "CR", Codes: []Code{c("L", "0.5"), c("M", "1.0"), c("H", "1.51"), nd("ND", "1.0")}},
		{Name: "IR", Codes: []Code{c("L", "0.5"), c("M", "1.0"), c("H", "1.51"), nd("ND", "1.0")}},
		{Name: "AR", Codes: []Code{c("L", "0.5"), c("M", "1.0"), c("H", "1.51"), nd("ND", "1.0")}},
	}},
}}

// VersionLabels are the supported labels after "CVSS:".
var VersionLabels = []string{"3.0", "3.1"}

// Band is one qualitative severity rating band on the tenth grid (inclusive
// bounds in tenths).
type Band struct {
	Name   string
	Lo, Hi int // tenths
}

var BandsV3 = []Band{{"None", 0, 0}, {"Low", 1, 39}, {"Medium", 40, 69}, {"High", 70, 89}, {"Critical", 90, 100}}
var BandsV2 = []Band{{"Low", 0, 39}, {"Medium", 40, 69}, {"High", 70, 100}}

// Sentinel names of package cvsserr, by defect kind (property C11 / C19).
var Sentinels = map[string]string{
	"malformed":         "ErrInvalidVector",
	"version":           "ErrNotSupportVer",
	"duplicate":         "ErrSameMetric",
	"bad-code":          "ErrInvalidValue",
	"foreign-name":      "ErrNotSupportMetric",
	"base-incomplete":   "ErrNoBaseMetrics",
	"temporal-group":    "ErrNoTemporalMetrics",
	"environment-group": "ErrNoEnvironmentalMetrics",
	"order":             "ErrMisordered",
	"template":          "ErrInvalidTemplate",
	"nil-report":        "ErrNullPointer",
}
