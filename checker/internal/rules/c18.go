package rules

import (
	"fmt"
	"go/types"
	"sort"
	"strings"

	"cvsslint/internal/facts"
	"cvsslint/internal/spec"
)

func init() { register("C18", c18) }

type nameFuncs struct {
	titles  []*types.Func                // func(language.Tag) string
	values  []*types.Func                // func(T, language.Tag) string
	byType  map[*types.Named]*types.Func // value function per enum type
	english facts.Value
	japan   facts.Value
	other   facts.Value
	langs   []facts.Value
	tagType types.Type
	extra   []facts.Value // further language tags that occur as table keys
}

func isString(t types.Type) bool {
	b, ok := t.Underlying().(*types.Basic)
	return ok && b.Kind() == types.String
}

// nameFunctions classifies the exported functions of v3/report/names by signature.
func (e *Env) nameFunctions(rule string) *nameFuncs {
	pk := e.P.Lib("v3/report/names")
	nf := &nameFuncs{byType: map[*types.Named]*types.Func{}}
	var lang *types.Package
	for _, imp := range pk.Types.Imports() {
		if imp.Path() == "golang.org/x/text/language" {
			lang = imp
		}
	}
	if lang == nil {
		e.C.Undecided(rule, "v3/report/names", "", "package does not import golang.org/x/text/language")
		return nil
	}
	en, _ := lang.Scope().Lookup("English").(*types.Var)
	ja, _ := lang.Scope().Lookup("Japanese").(*types.Var)
	tag, _ := lang.Scope().Lookup("Tag").(*types.TypeName)
	if en == nil || ja == nil || tag == nil {
		e.C.Undecided(rule, "golang.org/x/text/language", "", "English/Japanese/Tag not found")
		return nil
	}
	nf.tagType = tag.Type()
	nf.english = facts.Value{Kind: facts.VObj, Obj: en, Type: en.Type()}
	nf.japan = facts.Value{Kind: facts.VObj, Obj: ja, Type: ja.Type()}
	nf.other = facts.Value{Kind: facts.VOther, Type: tag.Type()}
	nf.langs = []facts.Value{nf.english, nf.japan, nf.other}
	// every other language tag that occurs as a key of a names table is a tag "whose language is neither English
	// nor Japanese" with an entry of its own: it joins the language domain (expected: the English names)
	seenTag := map[types.Object]bool{en: true, ja: true}
	var walkTags func(t *facts.Table, depth int)
	walkTags = func(t *facts.Table, depth int) {
		if depth > 6 {
			return
		}
		for _, ent := range t.Entries {
			if ent.Key.Kind == facts.VObj && ent.Key.Obj != nil && types.Identical(ent.Key.Obj.Type(), tag.Type()) && !seenTag[ent.Key.Obj] {
				seenTag[ent.Key.Obj] = true
				nf.extra = append(nf.extra, facts.Value{Kind: facts.VObj, Obj: ent.Key.Obj, Type: ent.Key.Obj.Type()})
			}
			if ent.Val.Kind == facts.VTable && ent.Val.T != nil {
				walkTags(ent.Val.T, depth+1)
			}
		}
	}
	for _, t := range e.F.AllTabs {
		if t.Pkg == pk {
			walkTags(t, 0)
		}
	}
	sort.Slice(nf.extra, func(i, j int) bool { return nf.extra[i].Obj.Name() < nf.extra[j].Obj.Name() })
	sc := pk.Types.Scope()
	for _, n := range sc.Names() {
		fn, ok := sc.Lookup(n).(*types.Func)
		if !ok || !fn.Exported() {
			continue
		}
		sig := fn.Type().(*types.Signature)
		if sig.Results().Len() != 1 || !isString(sig.Results().At(0).Type()) {
			e.C.Ok(rule, fname(fn), e.P.Pos(fn.Pos()), "exported function that does not return a string: not a title/value-name function, not examined")
			continue
		}
		switch {
		case sig.Params().Len() == 1 && types.Identical(sig.Params().At(0).Type(), tag.Type()):
			nf.titles = append(nf.titles, fn)
		case sig.Params().Len() == 2 && types.Identical(sig.Params().At(1).Type(), tag.Type()):
			named, _ := sig.Params().At(0).Type().(*types.Named)
			if named == nil || e.F.EnumOf(named) == nil {
				e.C.Undecided(rule, fname(fn), e.P.Pos(fn.Pos()), "first parameter is not an enumeration type")
				continue
			}
			if prev := nf.byType[named]; prev != nil {
				e.C.Fail(rule, fname(fn), e.P.Pos(fn.Pos()), fmt.Sprintf("two value-name functions for type %s: %s and %s", named.Obj().Name(), prev.Name(), fn.Name()))
			}
			nf.byType[named] = fn
			nf.values = append(nf.values, fn)
		default:
			// some other exported helper: not one of the name functions the property is about
			e.C.Ok(rule, fname(fn), e.P.Pos(fn.Pos()), "exported function with another signature: not a title/value-name function, not examined")
		}
	}
	return nf
}

func langName(v facts.Value) string {
	switch v.Kind {
	case facts.VObj:
		return v.Obj.Name()
	}
	return "<other tag>"
}

func c18(e *Env) {
	c := e.C
	c.Level = "proof"
	c.Explanation = "Each exported function of v3/report/names is translated into a finite-map expression over the name tables (syntax-directed; anything outside the look-up fragment is UNDECIDED) and tabulated over every declared constant of its metric type plus the zero and an out-of-range representative, times {language.English, language.Japanese, any other tag, and every further language tag that occurs as a key of a names table}. Non-emptiness, per-metric distinctness, the Unknown name for undefined values, equality of Modified and base value names on shared codes, and equality with English for every other tag are checked cell by cell. Table well-formedness (no duplicate language keys, both languages present) is checked on the table model."
	c.Trusted = []string{"go/types", "summary translation and its Go map semantics (facts/summary.go)", "golang.org/x/text/language: English and Japanese are distinct comparable values; any other tag is unequal to both"}
	c.Assumptions = []string{"regional variants of English/Japanese are left unspecified by the property", "name tables are not modified after initialisation (rule table-immutability, shared with C15/C16)"}
	e.nameCells()
}

// nameCells tabulates every title and value-name function of v3/report/names over its finite domain and checks
// the cells (rules title, value-name, modified-equals-base, name-functions); shared by C18 and by C17, whose
// report fields are these functions' results for the requested language.
func (e *Env) nameCells() {
	c := e.C
	c.Floor("title", 29*3)
	c.Floor("value-name", 23*3*3)
	c.Floor("modified-equals-base", 7*2*2)
	nf := e.nameFunctions("name-functions")
	if nf == nil {
		return
	}
	c.Check(len(nf.titles) >= 29 && len(nf.values) >= 23, "name-functions", "v3/report/names exported API", "", fmt.Sprintf("%d title/header functions, %d value-name functions", len(nf.titles), len(nf.values)), fmt.Sprintf("expected at least 29 title/header and 23 value-name functions, found %d and %d", len(nf.titles), len(nf.values)))

	// titles
	for _, fn := range nf.titles {
		pos := e.P.Pos(fn.Pos())
		eng, _ := stringOf(e.F.Eval(fn, nf.english))
		for _, l := range nf.langs {
			r := e.F.Eval(fn, l)
			s, ok := stringOf(r)
			cons := fmt.Sprintf("%s(%s)", fn.Name(), langName(l))
			if !ok {
				c.Undecided("title", cons, pos, r.String())
				continue
			}
			if l.Kind == facts.VOther {
				c.Check(s == eng && s != "", "title", cons, pos, "falls back to the English title "+quote(s), fmt.Sprintf("another language tag yields %q, English is %q", s, eng))
			} else {
				c.Check(s != "", "title", cons, pos, quote(s), "empty title")
			}
		}
		for _, l := range nf.extra {
			r := e.F.Eval(fn, l)
			s, ok := stringOf(r)
			cons := fmt.Sprintf("%s(%s)", fn.Name(), langName(l))
			if !ok {
				c.Undecided("title", cons, pos, r.String())
				continue
			}
			c.Check(s == eng && s != "", "title", cons, pos, "a language that is neither English nor Japanese: the English title "+quote(s), fmt.Sprintf("language tag %s yields %q, English is %q", langName(l), s, eng))
		}
	}

	// value names
	unknownEn, unknownJa := "", ""
	type cell struct{ en, ja string }
	namesOf := map[*types.Func]map[string]cell{} // per function: code -> names
	type defCell struct {
		fn     *types.Func
		v      facts.Value
		en, ja string
	}
	var definedCells []defCell
	for _, fn := range nf.values {
		pos := e.P.Pos(fn.Pos())
		T := fn.Type().(*types.Signature).Params().At(0).Type()
		en := e.F.EnumOf(T)
		seen := map[string]map[string]string{} // lang -> name -> value
		namesOf[fn] = map[string]cell{}
		for _, v := range e.F.Domain(T) {
			defined := v.Kind == facts.VConst && v.Obj != nil && v.Obj != types.Object(en.Zero)
			var perLang [3]string
			bad := false
			for i, l := range nf.langs {
				r := e.F.Eval(fn, v, l)
				s, ok := stringOf(r)
				cons := fmt.Sprintf("%s(%s, %s)", fn.Name(), v, langName(l))
				if !ok {
					c.Undecided("value-name", cons, pos, r.String())
					bad = true
					continue
				}
				perLang[i] = s
				switch {
				case l.Kind == facts.VOther:
					c.Check(s == perLang[0], "value-name", cons, pos, "falls back to English "+quote(s), fmt.Sprintf("another language tag yields %q, English is %q", s, perLang[0]))
				case defined:
					if seen[langName(l)] == nil {
						seen[langName(l)] = map[string]string{}
					}
					if prev, dup := seen[langName(l)][s]; dup {
						c.Fail("value-name", cons, pos, fmt.Sprintf("values %s and %s share the %s name %q", prev, v, langName(l), s))
					} else {
						c.Check(s != "", "value-name", cons, pos, quote(s), "a defined value has an empty name")
					}
					seen[langName(l)][s] = v.String()
				default:
					// zero / out of range
					if i == 0 {
						c.Check(s == "Unknown", "value-name", cons, pos, "Unknown", fmt.Sprintf("undefined value is named %q, not Unknown", s))
						if unknownEn == "" {
							unknownEn = s
						}
					} else {
						if unknownJa == "" {
							unknownJa = s
						}
						c.Check(s != "" && s == unknownJa, "value-name", cons, pos, quote(s), fmt.Sprintf("Japanese name of an undefined value is %q (elsewhere %q)", s, unknownJa))
					}
				}
			}
			for _, l := range nf.extra {
				r := e.F.Eval(fn, v, l)
				s, ok := stringOf(r)
				cons := fmt.Sprintf("%s(%s, %s)", fn.Name(), v, langName(l))
				if !ok {
					c.Undecided("value-name", cons, pos, r.String())
					continue
				}
				c.Check(s == perLang[0], "value-name", cons, pos, "a language that is neither English nor Japanese: the English name "+quote(s), fmt.Sprintf("language tag %s yields %q, English is %q", langName(l), s, perLang[0]))
			}
			if defined && !bad {
				definedCells = append(definedCells, defCell{fn, v, perLang[0], perLang[1]})
				if code, ok, _ := e.codeOf(T, v); ok && code != "" {
					namesOf[fn][code] = cell{perLang[0], perLang[1]}
				}
			}
		}
	}

	// a defined value must have its own entry: it may share the English word
	// "Unknown" (Report Confidence: Unknown does) but not both fall-back names.
	for _, d := range definedCells {
		c.Check(!(d.en == unknownEn && d.ja == unknownJa), "value-name-own-entry", fmt.Sprintf("%s(%s)", d.fn.Name(), d.v), e.P.Pos(d.fn.Pos()), "has a name of its own",
			fmt.Sprintf("defined value %s is displayed with the fall-back names %q/%q of undefined values (no entry of its own)", d.v, d.en, d.ja))
	}
	c.Floor("value-name-own-entry", 80)

	// Modified value names equal the base value names on shared codes
	v3, _ := e.levels("struct-layout")
	fieldType := map[string]types.Type{}
	for _, l := range v3 {
		for n, f := range l.ByName {
			fieldType[n] = f.Type()
		}
	}
	nMetricTypes := 0
	for _, l := range v3 {
		for _, fv := range l.Metrics {
			named, _ := fv.Type().(*types.Named)
			fn := nf.byType[named]
			who := "v3 " + fv.Name()
			if fn == nil {
				c.Fail("value-name-function", who, e.P.Pos(fv.Pos()), "no value-name function takes this metric's type")
				continue
			}
			nMetricTypes++
			c.Ok("value-name-function", who, e.P.Pos(fn.Pos()), fn.Name())
			m := spec.V3.Metric(fv.Name())
			// every specification code has a name
			for _, sc := range m.Codes {
				_, ok := namesOf[fn][sc.Code]
				c.Check(ok, "value-name-total", fmt.Sprintf("%s:%s", fv.Name(), sc.Code), e.P.Pos(fn.Pos()), "named", "no display name for this value")
			}
			if m.ModifiedOf == "" {
				continue
			}
			bt, _ := fieldType[m.ModifiedOf].(*types.Named)
			bfn := nf.byType[bt]
			if bfn == nil {
				c.Fail("modified-equals-base", who, e.P.Pos(fn.Pos()), "no value-name function for base metric "+m.ModifiedOf)
				continue
			}
			for _, code := range sortedKeys(namesOf[fn]) {
				if code == "X" {
					continue
				}
				mc := namesOf[fn][code]
				bc, ok := namesOf[bfn][code]
				if !ok {
					c.Fail("modified-equals-base", fmt.Sprintf("%s:%s", fv.Name(), code), e.P.Pos(fn.Pos()), "base metric has no value with this code")
					continue
				}
				c.Check(mc.en == bc.en, "modified-equals-base", fmt.Sprintf("%s:%s English", fv.Name(), code), e.P.Pos(fn.Pos()), quote(mc.en), fmt.Sprintf("%s names it %q, %s names it %q", fn.Name(), mc.en, bfn.Name(), bc.en))
				c.Check(mc.ja == bc.ja, "modified-equals-base", fmt.Sprintf("%s:%s Japanese", fv.Name(), code), e.P.Pos(fn.Pos()), quote(mc.ja), fmt.Sprintf("%s names it %q, %s names it %q", fn.Name(), mc.ja, bfn.Name(), bc.ja))
			}
		}
	}
	// severity
	sev, _ := e.P.Lib("v3/metric").Types.Scope().Lookup("Severity").(*types.TypeName)
	if sev == nil || nf.byType[sev.Type().(*types.Named)] == nil {
		c.Fail("value-name-function", "v3 Severity", "", "no value-name function for metric.Severity")
	} else {
		c.Ok("value-name-function", "v3 Severity", e.P.Pos(nf.byType[sev.Type().(*types.Named)].Pos()), nf.byType[sev.Type().(*types.Named)].Name())
	}

	// table well-formedness: language keys
	nTab := 0
	var walk func(t *facts.Table)
	walk = func(t *facts.Table) {
		if t.Struct != nil && t.Struct.NumFields() >= 2 && allStringFields(t.Struct) {
			// a row with one string field per language: no language can be missing or doubled by construction (what
			// each field holds is the value-name / title rules' business)
			nTab++
			c.Ok("language-keys", t.Name, e.P.Pos(t.Pos), "one field per language")
			c.Ok("language-keys", t.Name+" {English,Japanese}", e.P.Pos(t.Pos), "both present (fields of a struct)")
		}
		if t.Struct == nil && types.Identical(t.KeyT, nf.tagType) {
			nTab++
			d := t.DuplicateKeys()
			c.Check(len(d) == 0, "language-keys", t.Name, e.P.Pos(t.Pos), fmt.Sprintf("%d distinct language keys", len(t.Entries)), "duplicate language key(s) "+strings.Join(d, ", ")+": the later entry silently wins")
			_, hasEn := t.Lookup(nf.english)
			_, hasJa := t.Lookup(nf.japan)
			c.Check(hasEn && hasJa, "language-keys", t.Name+" {English,Japanese}", e.P.Pos(t.Pos), "both present", "an English or Japanese entry is missing")
		}
		for _, en := range t.Entries {
			if en.Val.Kind == facts.VTable {
				walk(en.Val.T)
			}
		}
	}
	var tabs []*facts.Table
	for _, t := range e.F.AllTabs {
		if t.Pkg == e.P.Lib("v3/report/names") {
			tabs = append(tabs, t)
		}
	}
	sort.Slice(tabs, func(i, j int) bool { return tabs[i].Name < tabs[j].Name })
	for _, t := range tabs {
		walk(t)
	}
	c.Floor("language-keys", 2*50) // tables may be shared between metrics (Modified X reads X's table)
	e.tableImmutability("table-immutability", "v3/report/names", "v3/metric")
	e.tableModelProblems(func(t *facts.Table) bool {
		return tableInPkgs(t, "v3/report/names") || (t.IsData() && tableInPkgs(t, "v3/metric"))
	})
	c.Analysed["title_functions"] = len(nf.titles)
	c.Analysed["value_functions"] = len(nf.values)
	c.Analysed["language_tables"] = nTab
	c.Analysed["metric_types_with_value_function"] = nMetricTypes
}

func quote(s string) string { return fmt.Sprintf("%q", s) }

func allStringFields(st *types.Struct) bool {
	for i := 0; i < st.NumFields(); i++ {
		b, ok := st.Field(i).Type().Underlying().(*types.Basic)
		if !ok || b.Kind() != types.String {
			return false
		}
	}
	return true
}
