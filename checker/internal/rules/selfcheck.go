package rules

import "cvsslint/internal/report"

func selfCheck(ctx *report.Ctx, prop, repo, verif string) {}
