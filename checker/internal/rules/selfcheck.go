package rules

import (
	"fmt"
	"io"
	"os"
	"os/exec"
	"path/filepath"
	"sort"
	"strings"
	"time"

	"cvsslint/internal/facts"
	"cvsslint/internal/load"
	"cvsslint/internal/report"
)

// RunOn loads one variant of the tree at dir and applies prop's rule set into ctx.
func RunOn(ctx *report.Ctx, prop, dir string, v load.Variant) (pkgs []string, nfuncs int, err error) {
	p, err := load.Load(dir, v)
	if err != nil {
		ctx.Undecided("load", v.Name, "", err.Error())
		return nil, 0, err
	}
	for _, pk := range p.Pkgs {
		pkgs = append(pkgs, load.Rel(pk.PkgPath))
	}
	f := facts.Build(p)
	env := &Env{P: p, F: f, C: ctx}
	env.installAccessorPaths()
	Registry[prop](env)
	env.buildCoverage()
	if sentinelUsers[prop] {
		env.sentinelFacts()
	}
	if pkgs := dataTablesOf[prop]; len(pkgs) > 0 {
		env.tableImmutabilityOf("table-immutability", true, pkgs...)
	}
	return pkgs, p.NFuncs, nil
}

func copyTree(src, dst string) error {
	return filepath.Walk(src, func(path string, info os.FileInfo, err error) error {
		if err != nil {
			return err
		}
		rel, _ := filepath.Rel(src, path)
		if rel == ".git" || strings.HasPrefix(rel, ".git"+string(filepath.Separator)) {
			if info.IsDir() {
				return filepath.SkipDir
			}
			return nil
		}
		target := filepath.Join(dst, rel)
		if info.IsDir() {
			return os.MkdirAll(target, 0o755)
		}
		if !info.Mode().IsRegular() {
			return nil
		}
		in, err := os.Open(path)
		if err != nil {
			return err
		}
		defer in.Close()
		out, err := os.Create(target)
		if err != nil {
			return err
		}
		defer out.Close()
		_, err = io.Copy(out, in)
		return err
	})
}

func failingKeys(ctx *report.Ctx, verif string) map[string]bool {
	out := map[string]bool{}
	res := ctx.Evaluate(verif)
	for _, o := range res.Bad {
		out[o.Rule+" | "+o.Construct] = true
	}
	return out
}

// selfCheck (thorough tier): every /verif/mutants/<prop>-*.patch — a
// one-instance edit that breaks the property — must make this property's
// rule set report a violation on a scratch copy of /repo's working tree, and
// every neutral-*.patch (behaviour-preserving refactoring) must not add a
// single failing obligation. One copy at a time, removed immediately.
func selfCheck(ctx *report.Ctx, prop, repo, verif string) {
	dir := filepath.Join(verif, "mutants")
	ents, err := os.ReadDir(dir)
	if err != nil {
		ctx.Extra["self_check"] = "no mutants directory"
		return
	}
	var patches []string
	for _, en := range ents {
		n := en.Name()
		if strings.HasSuffix(n, ".patch") && (strings.HasPrefix(n, prop+"-") || strings.HasPrefix(n, "neutral-")) {
			patches = append(patches, n)
		}
	}
	sort.Strings(patches)
	// independently seeded changes of this property: seeded/<prop><x>/patch.diff
	full := map[string]string{}
	for _, pn := range patches {
		full[pn] = filepath.Join(dir, pn)
	}
	if sds, err := os.ReadDir(filepath.Join(verif, "seeded")); err == nil {
		for _, sd := range sds {
			if sd.IsDir() && strings.HasPrefix(sd.Name(), prop) {
				pf := filepath.Join(verif, "seeded", sd.Name(), "patch.diff")
				if _, err := os.Stat(pf); err == nil {
					name := "seeded/" + sd.Name()
					patches = append(patches, name)
					full[name] = pf
				}
			}
		}
	}
	base := failingKeys(ctx, verif)
	type result struct {
		Patch   string   `json:"patch"`
		Kind    string   `json:"kind"`
		Outcome string   `json:"outcome"`
		Reports []string `json:"reports,omitempty"`
		WallS   float64  `json:"wall_s"`
	}
	var results []result
	var failures []string
	for _, pn := range patches {
		t0 := time.Now()
		kind := "mutant"
		if strings.HasPrefix(pn, "neutral-") {
			kind = "neutral"
		}
		if strings.HasPrefix(pn, "seeded/") {
			kind = "seeded"
		}
		r := result{Patch: pn, Kind: kind}
		tmp, err := os.MkdirTemp("", "cvsslint-self-")
		if err != nil {
			r.Outcome = "skipped: " + err.Error()
			results = append(results, r)
			continue
		}
		func() {
			defer os.RemoveAll(tmp)
			scratch := filepath.Join(tmp, "repo")
			if err := copyTree(repo, scratch); err != nil {
				r.Outcome = "skipped: copy failed: " + err.Error()
				return
			}
			cmd := exec.Command("patch", "-p1", "-s", "-f", "--no-backup-if-mismatch", "-i", full[pn])
			cmd.Dir = scratch
			if out, err := cmd.CombinedOutput(); err != nil {
				r.Outcome = "skipped: patch does not apply to the current tree (" + strings.TrimSpace(firstLine(string(out))) + ")"
				return
			}
			sub := report.NewCtx(prop, "self-check")
			func() {
				defer func() {
					if rec := recover(); rec != nil {
						sub.Undecided("checker-panic", pn, "", fmt.Sprint(rec))
					}
				}()
				RunOn(sub, prop, scratch, load.Variant{Name: "default"})
			}()
			got := failingKeys(sub, verif)
			var added []string
			for k := range got {
				if !base[k] {
					added = append(added, k)
				}
			}
			sort.Strings(added)
			if len(added) > 6 {
				added = append(added[:6], fmt.Sprintf("... %d more", len(added)-6))
			}
			r.Reports = added
			switch {
			case kind != "neutral" && len(added) > 0:
				r.Outcome = "caught"
			case kind != "neutral":
				r.Outcome = "MISSED"
				failures = append(failures, pn+" (a property-breaking edit was not reported)")
			case len(added) == 0:
				r.Outcome = "silent"
			default:
				r.Outcome = "FALSE ALARM"
				failures = append(failures, pn+" (a behaviour-preserving refactoring was reported: "+added[0]+")")
			}
		}()
		r.WallS = time.Since(t0).Seconds()
		results = append(results, r)
	}
	ctx.Extra["self_check"] = results
	n := map[string]int{}
	for _, r := range results {
		n[strings.SplitN(r.Outcome, ":", 2)[0]]++
	}
	ctx.Extra["self_check_summary"] = n
	if len(failures) > 0 {
		ctx.SelfCheckFailed = strings.Join(failures, "; ")
	}
}

func firstLine(s string) string {
	if i := strings.IndexByte(s, '\n'); i >= 0 {
		return s[:i]
	}
	return s
}
