package rules

import (
	"go/token"

	"golang.org/x/tools/go/ssa"
)

// indexLoop describes a loop that visits x[start], x[start+1], ..., x[len(x)-1]
// once each, in order, with no way to skip an element or to leave early other
// than by returning from the function.
type indexLoop struct {
	Slice  ssa.Value
	Start  int64
	Header *ssa.BasicBlock
	Body   *ssa.BasicBlock // first block of the body (header's true successor)
	Index  ssa.Value       // the value used as index inside the body
}

// analyseIndexLoop recognises the two loop forms the compiler produces for
//
//	for _, e := range x { ... }            (index = φ+1, φ from -1)
//	for i := s; i < len(x); i++ { ... }    (index = φ,   φ from s, step +1)
//
// given the address x[i] of the element used in the body.
func analyseIndexLoop(ia *ssa.IndexAddr) (*indexLoop, string) {
	idx := ia.Index
	var phi *ssa.Phi
	var cmpX ssa.Value // value compared with len(x) in the header
	start := int64(0)
	rangeForm := false
	switch v := idx.(type) {
	case *ssa.BinOp:
		if v.Op != token.ADD || !isIntConst(v.Y, 1) {
			return nil, "index is not a loop variable"
		}
		p, ok := v.X.(*ssa.Phi)
		if !ok {
			return nil, "index is not a loop variable"
		}
		phi, cmpX, rangeForm = p, idx, true
	case *ssa.Phi:
		phi, cmpX = v, idx
	default:
		return nil, "index is not a loop variable"
	}
	h := phi.Block()
	if len(h.Instrs) == 0 {
		return nil, "loop header not found"
	}
	iff, ok := h.Instrs[len(h.Instrs)-1].(*ssa.If)
	if !ok {
		return nil, "loop header does not test the index"
	}
	cmp, ok := iff.Cond.(*ssa.BinOp)
	if !ok || cmp.Op != token.LSS || cmp.X != cmpX {
		return nil, "loop condition is not  index < len(x)"
	}
	lc, ok := cmp.Y.(*ssa.Call)
	if !ok || !isBuiltin(lc, "len") || lc.Call.Args[0] != ia.X {
		return nil, "loop bound is not the length of the indexed slice"
	}
	// the slice must not change inside the loop
	if in, ok := ia.X.(ssa.Instruction); ok && in.Block() != nil && h.Dominates(in.Block()) && in.Block() != h.Idom() {
		if in.Block() == h || dominatesStrictly(h, in.Block()) {
			return nil, "the indexed slice is recomputed inside the loop"
		}
	}
	// index variable: starts at a constant, +1 on every back edge, never otherwise modified
	for i, ed := range phi.Edges {
		pred := h.Preds[i]
		inside := h.Dominates(pred)
		switch {
		case !inside && rangeForm:
			if !isIntConst(ed, -1) {
				return nil, "range loop does not start at the first element"
			}
		case !inside:
			c, ok := ed.(*ssa.Const)
			if !ok || c.Value == nil || c.Int64() < 0 {
				return nil, "loop does not start at a constant index"
			}
			start = c.Int64()
		case rangeForm:
			if ed != idx {
				return nil, "loop index is modified inside the loop"
			}
		default:
			inc, ok := ed.(*ssa.BinOp)
			if !ok || inc.Op != token.ADD || inc.X != ssa.Value(phi) || !isIntConst(inc.Y, 1) {
				return nil, "loop index is not advanced by exactly one per iteration"
			}
		}
	}
	// no break: the exit block is reached from the header only
	exit := h.Succs[1]
	if len(exit.Preds) != 1 {
		return nil, "the loop can be left early (break): not every element is visited"
	}
	return &indexLoop{Slice: ia.X, Start: start, Header: h, Body: h.Succs[0], Index: idx}, ""
}

func dominatesStrictly(a, b *ssa.BasicBlock) bool { return a != b && a.Dominates(b) }

// elementOf returns the IndexAddr whose load is v (v = x[i]).
func elementOf(v ssa.Value) *ssa.IndexAddr {
	ld, ok := v.(*ssa.UnOp)
	if !ok || ld.Op != token.MUL {
		return nil
	}
	ia, _ := ld.X.(*ssa.IndexAddr)
	return ia
}

// constBoundedIndex: idx is the induction variable of a counting loop whose header tests  idx < K  for a
// constant K <= n, it starts at a constant >= 0 (or at -1 with the use being φ+1, the compiler's range form),
// advances by exactly one, and block b is inside the loop body: 0 <= idx < n holds there.
func constBoundedIndex(idx ssa.Value, n int64, b *ssa.BasicBlock) bool {
	var phi *ssa.Phi
	rangeForm := false
	switch v := idx.(type) {
	case *ssa.BinOp:
		p, ok := v.X.(*ssa.Phi)
		if v.Op != token.ADD || !isIntConst(v.Y, 1) || !ok {
			return false
		}
		phi, rangeForm = p, true
	case *ssa.Phi:
		phi = v
	default:
		return false
	}
	h := phi.Block()
	if len(h.Instrs) == 0 {
		return false
	}
	iff, ok := h.Instrs[len(h.Instrs)-1].(*ssa.If)
	if !ok {
		return false
	}
	cmp, ok := iff.Cond.(*ssa.BinOp)
	if !ok || cmp.Op != token.LSS || cmp.X != idx {
		return false
	}
	k, ok := cmp.Y.(*ssa.Const)
	if !ok || k.Value == nil || k.Int64() > n {
		return false
	}
	body := h.Succs[0]
	if len(body.Preds) != 1 || !body.Dominates(b) {
		return false
	}
	for i, ed := range phi.Edges {
		inside := h.Dominates(h.Preds[i])
		switch {
		case !inside && rangeForm:
			if !isIntConst(ed, -1) {
				return false
			}
		case !inside:
			c, ok := ed.(*ssa.Const)
			if !ok || c.Value == nil || c.Int64() < 0 {
				return false
			}
		case rangeForm:
			if ed != idx {
				return false
			}
		default:
			inc, ok := ed.(*ssa.BinOp)
			if !ok || inc.Op != token.ADD || inc.X != ssa.Value(phi) || !isIntConst(inc.Y, 1) {
				return false
			}
		}
	}
	return true
}
