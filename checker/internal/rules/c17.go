package rules

import (
	"fmt"
	"go/ast"
	"go/constant"
	"go/token"
	"go/types"
	"strings"

	"cvsslint/internal/facts"
	"cvsslint/internal/load"
	"cvsslint/internal/spec"

	"golang.org/x/tools/go/types/typeutil"
)

func init() { register("C17", c17) }

type reportCtor struct {
	fn     *types.Func
	decl   *ast.FuncDecl
	info   *types.Info
	param  *types.Var // the metrics object
	osVar  *types.Var // variadic options
	level  *facts.Level
	lit    *ast.CompositeLit
	litPos token.Pos
	fields map[*types.Var]ast.Expr
	defs   map[*types.Var]ast.Expr // local := definitions (single-valued or first of a tuple)
	defIdx map[*types.Var]int      // index within the tuple
	single map[*types.Var]bool     // defined by a single-value :=
	repT   *types.Named
}

func (e *Env) reportCtors(rule string) []*reportCtor {
	v3, _ := e.levels("struct-layout")
	if v3 == nil {
		return nil
	}
	pk := e.P.Lib("v3/report")
	var out []*reportCtor
	for _, l := range v3 {
		fn := e.P.LookupFunc("v3/report", "New"+l.Spec.Name)
		if fn == nil {
			e.C.Fail(rule, "v3/report.New"+l.Spec.Name, "", "report constructor not found")
			continue
		}
		rc := &reportCtor{fn: fn, decl: e.P.Decl(fn), info: pk.TypesInfo, level: l, defs: map[*types.Var]ast.Expr{}, defIdx: map[*types.Var]int{}, single: map[*types.Var]bool{}}
		sig := fn.Type().(*types.Signature)
		if sig.Params().Len() != 2 || !sig.Variadic() || !types.Identical(sig.Params().At(0).Type(), l.Ptr()) {
			e.C.Fail(rule, fname(fn), e.P.Pos(fn.Pos()), "signature is not (metrics object of its level, options...)")
			continue
		}
		rc.param, rc.osVar = sig.Params().At(0), sig.Params().At(1)
		if rc.decl == nil || rc.decl.Body == nil {
			continue
		}
		okShape := true
		for _, st := range rc.decl.Body.List {
			switch s := st.(type) {
			case *ast.AssignStmt:
				if s.Tok != token.DEFINE || len(s.Rhs) != 1 {
					okShape = false
					continue
				}
				for i, lh := range s.Lhs {
					id, ok := lh.(*ast.Ident)
					if !ok {
						okShape = false
						continue
					}
					if id.Name == "_" {
						continue
					}
					if v, ok := rc.info.Defs[id].(*types.Var); ok {
						rc.defs[v] = s.Rhs[0]
						rc.defIdx[v] = i
						rc.single[v] = len(s.Lhs) == 1
					}
				}
			case *ast.ReturnStmt:
				if len(s.Results) == 1 {
					x := ast.Unparen(s.Results[0])
					if u, ok := x.(*ast.UnaryExpr); ok && u.Op == token.AND {
						x = ast.Unparen(u.X)
					}
					if cl, ok := x.(*ast.CompositeLit); ok {
						rc.lit = cl
					}
				}
			default:
				// other statements (caching, logging, ...) are not part of the wiring; the fields they
				// feed will simply not match the expected expressions
			}
		}
		_ = okShape
		if rc.lit != nil {
			fields, ok := litFields(rc.lit, rc.info)
			if !ok {
				e.C.Undecided(rule, fname(fn), e.P.Pos(rc.lit.Pos()), "composite literal is not fully keyed")
				continue
			}
			rc.fields = fields
			rc.litPos = rc.lit.Pos()
		} else {
			// alternative form: a local report value filled by  rep.F = expr  assignments and returned
			var repVar *types.Var
			for _, st := range rc.decl.Body.List {
				if r, ok := st.(*ast.ReturnStmt); ok && len(r.Results) == 1 {
					x := ast.Unparen(r.Results[0])
					if u, ok := x.(*ast.UnaryExpr); ok && u.Op == token.AND {
						x = ast.Unparen(u.X)
					}
					if id, ok := x.(*ast.Ident); ok {
						repVar, _ = rc.info.Uses[id].(*types.Var)
						rc.litPos = r.Pos()
					}
				}
			}
			if repVar == nil {
				e.C.Undecided(rule, fname(fn), e.P.Pos(fn.Pos()), "constructor neither returns a keyed composite literal nor a local report value")
				continue
			}
			rc.fields = map[*types.Var]ast.Expr{}
			for _, st := range rc.decl.Body.List {
				as, ok := st.(*ast.AssignStmt)
				if !ok || as.Tok != token.ASSIGN || len(as.Lhs) != 1 || len(as.Rhs) != 1 {
					continue
				}
				sel, ok := as.Lhs[0].(*ast.SelectorExpr)
				if !ok {
					continue
				}
				id, ok := ast.Unparen(sel.X).(*ast.Ident)
				if !ok || rc.info.Uses[id] != types.Object(repVar) {
					continue
				}
				if s := rc.info.Selections[sel]; s != nil && s.Kind() == types.FieldVal && len(s.Index()) == 1 {
					rc.fields[s.Obj().(*types.Var)] = as.Rhs[0]
				}
			}
		}
		if pt, ok := sig.Results().At(0).Type().(*types.Pointer); ok {
			rc.repT, _ = pt.Elem().(*types.Named)
		}
		out = append(out, rc)
	}
	return out
}

func (rc *reportCtor) field(name string) (*types.Var, ast.Expr) {
	for fv, x := range rc.fields {
		if fv.Name() == name {
			return fv, rc.resolve(x)
		}
	}
	return nil, nil
}

// resolve follows local single-value := definitions (ver := base.Ver.String(); Version: ver).
func (rc *reportCtor) resolve(x ast.Expr) ast.Expr {
	for i := 0; i < 8; i++ {
		id, ok := ast.Unparen(x).(*ast.Ident)
		if !ok {
			return x
		}
		v, _ := rc.info.Uses[id].(*types.Var)
		def, ok := rc.defs[v]
		if !ok || rc.single[v] == false {
			return x
		}
		x = def
	}
	return x
}

// isOptsLang: the expression is opts.lang where opts := newOptions(os...).
func (e *Env) isOptsLang(rc *reportCtor, x ast.Expr) bool {
	x = rc.resolve(x)
	sel, ok := ast.Unparen(x).(*ast.SelectorExpr)
	if !ok || sel.Sel.Name != "lang" {
		return false
	}
	id, ok := ast.Unparen(sel.X).(*ast.Ident)
	if !ok {
		return false
	}
	v, _ := rc.info.Uses[id].(*types.Var)
	def := rc.defs[v]
	call, ok := def.(*ast.CallExpr)
	if !ok {
		return false
	}
	callee, _ := typeutil.Callee(rc.info, call).(*types.Func)
	if callee == nil || callee.Name() != "newOptions" || callee.Pkg() != rc.fn.Pkg() {
		return false
	}
	return rc.forwardsOptions(call)
}

// forwardsOptions: the call's only argument is  os...
func (rc *reportCtor) forwardsOptions(call *ast.CallExpr) bool {
	if !call.Ellipsis.IsValid() || len(call.Args) == 0 {
		return false
	}
	id, ok := ast.Unparen(call.Args[len(call.Args)-1]).(*ast.Ident)
	return ok && rc.info.Uses[id] == types.Object(rc.osVar)
}

// paramField: x is  param.F  selecting field F declared at the parameter's own level.
func (rc *reportCtor) paramField(x ast.Expr) *types.Var {
	x = rc.resolve(x)
	sel, ok := ast.Unparen(x).(*ast.SelectorExpr)
	if !ok {
		return nil
	}
	id, ok := ast.Unparen(sel.X).(*ast.Ident)
	if !ok || rc.info.Uses[id] != types.Object(rc.param) {
		return nil
	}
	s := rc.info.Selections[sel]
	if s == nil || s.Kind() != types.FieldVal {
		return nil
	}
	fv, _ := s.Obj().(*types.Var)
	return fv
}

// ownMethodCall: x is  param.M()  with M declared on the parameter's own type.
func (rc *reportCtor) ownMethodCall(x ast.Expr, name string) bool {
	x = rc.resolve(x)
	call, ok := ast.Unparen(x).(*ast.CallExpr)
	if !ok || len(call.Args) != 0 {
		return false
	}
	sel, ok := ast.Unparen(call.Fun).(*ast.SelectorExpr)
	if !ok {
		return false
	}
	id, ok := ast.Unparen(sel.X).(*ast.Ident)
	if !ok || rc.info.Uses[id] != types.Object(rc.param) {
		return false
	}
	s := rc.info.Selections[sel]
	if s == nil || s.Kind() != types.MethodVal || len(s.Index()) != 1 {
		return false
	}
	return s.Obj() == types.Object(rc.level.Method(name))
}

func namesCallee(info *types.Info, x ast.Expr) (*types.Func, *ast.CallExpr) {
	call, ok := ast.Unparen(x).(*ast.CallExpr)
	if !ok {
		return nil, nil
	}
	fn, _ := typeutil.Callee(info, call).(*types.Func)
	if fn == nil || fn.Pkg() == nil || fn.Pkg().Path() != load.ModPath+"/v3/report/names" {
		return nil, call
	}
	return fn, call
}

func c17(e *Env) {
	c := e.C
	c.Level = "other"
	c.Explanation = "Field-by-field wiring of report.NewBase/NewTemporal/NewEnvironmental: for every metric P of the constructor's own level the literal sets PName = names.<type name of P>(opts.lang) and PValue = names.<value function whose parameter type is P's type>(param.P, opts.lang) with param.P resolving to field P itself; group titles and column headers from the like-named functions; Version = param.Ver.String(); Vector = first result of the own-level Encode; <Level>Score = strconv.FormatFloat(own-level Score(), 'f', -1, 64); SeverityValue from the own-level Severity(); the embedded report is the lower constructor applied to the accessor of the embedded object with the options forwarded; opts = newOptions(os...) defaulting to language.English and applying every option; Vector/SeverityName/SeverityValue are declared at depth 0 of every report struct (shadowing) while the embedded report stays reachable. Title functions of different metrics return different titles (so a field cannot show another metric's title unnoticed)."
	c.Trusted = []string{"go/types selections", "C18 (name functions) and C14 (accessors return the embedded object) are decided by their own checks"}
	c.NotDecided = []string{"reports of nil metrics objects (report.NewBase(nil) dereferences its argument; no property quantifies over that)", "what text/template does with the fields (C19)"}
	nf := e.nameFunctions("name-functions")
	rcs := e.reportCtors("report-constructor")
	if nf == nil || len(rcs) != 3 {
		c.Fail("report-constructor", "v3/report", "", "expected three report constructors")
		return
	}
	c.Floor("metric-title", 22)
	c.Floor("metric-value", 22)
	c.Floor("level-fields", 19)
	var prev *reportCtor
	for _, rc := range rcs {
		e.reportWiring(rc, prev, nf)
		prev = rc
	}
	e.optionsRules()
	e.titleDistinct(nf, rcs)
	e.reportScoreRendering("score-rendering")
}

func (e *Env) reportWiring(rc, lower *reportCtor, nf *nameFuncs) {
	c := e.C
	who := fname(rc.fn)
	used := map[*types.Var]bool{}
	use := func(name string) (ast.Expr, string) {
		fv, x := rc.field(name)
		if fv == nil {
			return nil, ""
		}
		used[fv] = true
		return x, e.P.Pos(x.Pos())
	}
	lvl := rc.level.Spec.Name
	// metrics
	for _, fv := range rc.level.Metrics {
		P := fv.Name()
		tname := fv.Type().(*types.Named).Obj().Name()
		// title
		x, pos := use(P + "Name")
		cons := fmt.Sprintf("%s field %sName", who, P)
		if x == nil {
			c.Fail("metric-title", cons, e.P.Pos(rc.litPos), "field missing from the report literal")
		} else {
			fn, call := namesCallee(rc.info, x)
			ok := fn != nil && fn.Name() == tname && len(call.Args) == 1 && e.isOptsLang(rc, call.Args[0])
			got := "<not a names call>"
			if fn != nil {
				got = "names." + fn.Name()
			}
			c.Check(ok, "metric-title", cons, pos, "names."+tname+"(opts.lang)", fmt.Sprintf("title of metric %s (%s) is taken from %s, expected names.%s(opts.lang)", P, tname, got, tname))
		}
		// value
		x, pos = use(P + "Value")
		cons = fmt.Sprintf("%s field %sValue", who, P)
		if x == nil {
			c.Fail("metric-value", cons, e.P.Pos(rc.litPos), "field missing from the report literal")
			continue
		}
		fn, call := namesCallee(rc.info, x)
		want := nf.byType[fv.Type().(*types.Named)]
		switch {
		case fn == nil || call == nil || len(call.Args) != 2:
			c.Fail("metric-value", cons, pos, "not a call names.<ValueOf>(param."+P+", opts.lang)")
		case fn != want:
			c.Fail("metric-value", cons, pos, fmt.Sprintf("value name is computed by names.%s, the value function of %s is %s", fn.Name(), tname, nameOr(want)))
		case rc.paramField(call.Args[0]) != fv:
			got := rc.paramField(call.Args[0])
			c.Fail("metric-value", cons, pos, fmt.Sprintf("shows the value of field %s, expected the object's own field %s", varName(got), P))
		case !e.isOptsLang(rc, call.Args[1]):
			c.Fail("metric-value", cons, pos, "language argument is not opts.lang (opts := newOptions(os...))")
		default:
			c.Ok("metric-value", cons, pos, fmt.Sprintf("names.%s(%s.%s, opts.lang)", fn.Name(), rc.param.Name(), P))
		}
	}
	// group title and column header
	for _, pr := range [][2]string{{lvl + "Metrics", lvl + "Metrics"}, {lvl + "MetricValue", lvl + "MetricsValueOf"}, {"SeverityName", "Severity"}} {
		x, pos := use(pr[0])
		cons := fmt.Sprintf("%s field %s", who, pr[0])
		if x == nil {
			c.Fail("level-fields", cons, e.P.Pos(rc.litPos), "field missing from the report literal")
			continue
		}
		fn, call := namesCallee(rc.info, x)
		ok := fn != nil && fn.Name() == pr[1] && len(call.Args) == 1 && e.isOptsLang(rc, call.Args[0])
		c.Check(ok, "level-fields", cons, pos, "names."+pr[1]+"(opts.lang)", "expected names."+pr[1]+"(opts.lang)")
	}
	// severity value
	if x, pos := use("SeverityValue"); x == nil {
		c.Fail("level-fields", who+" field SeverityValue", e.P.Pos(rc.litPos), "field missing")
	} else {
		fn, call := namesCallee(rc.info, x)
		ok := fn != nil && fn.Name() == "SeverityValueOf" && len(call.Args) == 2 && rc.ownMethodCall(call.Args[0], "Severity") && e.isOptsLang(rc, call.Args[1])
		c.Check(ok, "level-fields", who+" field SeverityValue", pos, "names.SeverityValueOf(own-level Severity(), opts.lang)", "severity shown is not the "+lvl+" level's own Severity()")
	}
	// vector
	if x, pos := use("Vector"); x == nil {
		c.Fail("level-fields", who+" field Vector", e.P.Pos(rc.litPos), "field missing")
	} else {
		ok := false
		if id, isId := ast.Unparen(x).(*ast.Ident); isId {
			if v, _ := rc.info.Uses[id].(*types.Var); v != nil && rc.defIdx[v] == 0 && rc.defs[v] != nil {
				ok = rc.ownMethodCall(rc.defs[v], "Encode")
			}
		}
		c.Check(ok, "level-fields", who+" field Vector", pos, "first result of the own-level Encode()", "vector is not the first result of "+lvl+".Encode() on the constructor's argument")
	}
	// score
	if x, pos := use(lvl + "Score"); x == nil {
		c.Fail("level-fields", who+" field "+lvl+"Score", e.P.Pos(rc.litPos), "field missing")
	} else {
		call, _ := ast.Unparen(x).(*ast.CallExpr)
		ok := call != nil && len(call.Args) == 4 && rc.ownMethodCall(call.Args[0], "Score")
		c.Check(ok, "level-fields", who+" field "+lvl+"Score", pos, "rendering of the own-level Score()", "score shown is not the "+lvl+" level's own Score()")
	}
	// version (base only)
	if rc.level.VerField != nil {
		if x, pos := use("Version"); x == nil {
			c.Fail("level-fields", who+" field Version", e.P.Pos(rc.litPos), "field missing")
		} else {
			ok := false
			if call, isCall := ast.Unparen(x).(*ast.CallExpr); isCall && len(call.Args) == 0 {
				if sel, isSel := ast.Unparen(call.Fun).(*ast.SelectorExpr); isSel && sel.Sel.Name == "String" {
					ok = rc.paramField(sel.X) == rc.level.VerField
				}
			}
			c.Check(ok, "level-fields", who+" field Version", pos, "param.Ver.String()", "version label is not param.Ver.String()")
		}
	}
	// embedded report
	if lower != nil {
		var emb *types.Var
		st := rc.repT.Underlying().(*types.Struct)
		for i := 0; i < st.NumFields(); i++ {
			if st.Field(i).Embedded() {
				emb = st.Field(i)
			}
		}
		cons := who + " embedded report"
		if emb == nil {
			c.Fail("embedded-report", cons, e.P.Pos(rc.fn.Pos()), "report struct does not embed the lower report")
		} else {
			x := rc.fields[emb]
			used[emb] = true
			call, _ := ast.Unparen(x).(*ast.CallExpr)
			ok := false
			why := "not a call of the lower report constructor"
			if call != nil {
				callee, _ := typeutil.Callee(rc.info, call).(*types.Func)
				acc := map[string]string{"Base": "BaseMetrics", "Temporal": "TemporalMetrics"}[lower.level.Spec.Name]
				switch {
				case callee != lower.fn:
					why = "constructor called is not " + fname(lower.fn)
				case len(call.Args) < 1 || !rc.ownMethodCall(call.Args[0], acc):
					why = "argument is not param." + acc + "()"
				case len(call.Args) != 2 || !rc.forwardsOptions(call):
					why = "options (language) are not forwarded to the embedded report"
				default:
					ok = true
				}
			}
			c.Check(ok, "embedded-report", cons, e.P.Pos(rc.litPos), "lower constructor on the accessor of the embedded object, options forwarded", why)
		}
		// shadowing depth
		for _, n := range []string{"Vector", "SeverityName", "SeverityValue"} {
			obj, idx, _ := types.LookupFieldOrMethod(rc.repT, true, rc.fn.Pkg(), n)
			c.Check(obj != nil && len(idx) == 1, "shadowing", rc.repT.Obj().Name()+"."+n, e.P.Pos(rc.repT.Obj().Pos()), "declared at depth 0, shadowing the embedded report's field", "field is not declared at this report level: the higher level would show the lower level's value")
		}
	}
	// nothing else
	for fv, x := range rc.fields {
		if !used[fv] {
			c.Undecided("level-fields", who+" field "+fv.Name(), e.P.Pos(x.Pos()), "report field the wiring rules do not know")
		}
	}
	st := rc.repT.Underlying().(*types.Struct)
	for i := 0; i < st.NumFields(); i++ {
		if _, ok := rc.fields[st.Field(i)]; !ok {
			c.Fail("level-fields", who+" field "+st.Field(i).Name(), e.P.Pos(rc.litPos), "report field is never filled")
		}
	}
}

func nameOr(f *types.Func) string {
	if f == nil {
		return "<none>"
	}
	return "names." + f.Name()
}

func varName(v *types.Var) string {
	if v == nil {
		return "<none>"
	}
	return v.Name()
}

// optionsRules: newOptions defaults to English and applies every option; WithOptionsLanguage stores its argument.
func (e *Env) optionsRules() {
	c := e.C
	pk := e.P.Lib("v3/report")
	no := e.P.LookupFunc("v3/report", "newOptions")
	wl := e.P.LookupFunc("v3/report", "WithOptionsLanguage")
	if no == nil || wl == nil {
		c.Fail("options", "v3/report options", "", "newOptions / WithOptionsLanguage not found")
		return
	}
	info := pk.TypesInfo
	// newOptions
	d := e.P.Decl(no)
	okDefault, okLoop, okRet := false, false, false
	var optsVar *types.Var
	for _, st := range d.Body.List {
		switch s := st.(type) {
		case *ast.AssignStmt:
			if len(s.Lhs) == 1 && len(s.Rhs) == 1 {
				if id, ok := s.Lhs[0].(*ast.Ident); ok {
					x := ast.Unparen(s.Rhs[0])
					if u, ok := x.(*ast.UnaryExpr); ok && u.Op == token.AND {
						if cl, ok := ast.Unparen(u.X).(*ast.CompositeLit); ok {
							fs, _ := litFields(cl, info)
							for fv, val := range fs {
								if fv.Name() == "lang" {
									v := e.F.StaticValue(info, val)
									okDefault = v.Kind == facts.VObj && v.Obj.Name() == "English" && v.Obj.Pkg().Path() == "golang.org/x/text/language"
								}
							}
							optsVar, _ = info.Defs[id].(*types.Var)
						}
					}
				}
			}
		case *ast.RangeStmt:
			if len(s.Body.List) == 1 {
				if es, ok := s.Body.List[0].(*ast.ExprStmt); ok {
					if call, ok := es.X.(*ast.CallExpr); ok && len(call.Args) == 1 {
						fid, ok1 := call.Fun.(*ast.Ident)
						aid, ok2 := call.Args[0].(*ast.Ident)
						vid, ok3 := s.Value.(*ast.Ident)
						rid, ok4 := ast.Unparen(s.X).(*ast.Ident)
						if ok1 && ok2 && ok3 && ok4 && info.Uses[fid] == info.Defs[vid] && info.Uses[aid] == types.Object(optsVar) {
							sig := no.Type().(*types.Signature)
							okLoop = info.Uses[rid] == types.Object(sig.Params().At(0))
						}
					}
				}
			}
		case *ast.ReturnStmt:
			if len(s.Results) == 1 {
				if id, ok := s.Results[0].(*ast.Ident); ok {
					okRet = info.Uses[id] == types.Object(optsVar) && optsVar != nil
				}
			}
		}
	}
	c.Check(okDefault, "options", "v3/report.newOptions default language", e.P.Pos(no.Pos()), "language.English", "default language is not language.English")
	c.Check(okLoop && okRet, "options", "v3/report.newOptions applies every option", e.P.Pos(no.Pos()), "for _, o := range os { o(opts) }; return opts", "not every option is applied to the returned options value")
	// WithOptionsLanguage: return func(opts *options) { opts.lang = lang }
	d = e.P.Decl(wl)
	okW := false
	if len(d.Body.List) == 1 {
		if ret, ok := d.Body.List[0].(*ast.ReturnStmt); ok && len(ret.Results) == 1 {
			if fl, ok := ret.Results[0].(*ast.FuncLit); ok && len(fl.Body.List) == 1 {
				if as, ok := fl.Body.List[0].(*ast.AssignStmt); ok && as.Tok == token.ASSIGN && len(as.Lhs) == 1 && len(as.Rhs) == 1 {
					sel, ok1 := as.Lhs[0].(*ast.SelectorExpr)
					rid, ok2 := as.Rhs[0].(*ast.Ident)
					if ok1 && ok2 && sel.Sel.Name == "lang" {
						sig := wl.Type().(*types.Signature)
						okW = info.Uses[rid] == types.Object(sig.Params().At(0))
					}
				}
			}
		}
	}
	c.Check(okW, "options", "v3/report.WithOptionsLanguage", e.P.Pos(wl.Pos()), "stores its argument in options.lang", "the returned option does not store the requested language")
}

// titleDistinct: the 26 metric titles (those used by PName fields) are pairwise different per language.
func (e *Env) titleDistinct(nf *nameFuncs, rcs []*reportCtor) {
	c := e.C
	var titleFns []*types.Func
	for _, rc := range rcs {
		for _, fv := range rc.level.Metrics {
			tname := fv.Type().(*types.Named).Obj().Name()
			for _, t := range nf.titles {
				if t.Name() == tname {
					titleFns = append(titleFns, t)
				}
			}
		}
	}
	for _, l := range []facts.Value{nf.english, nf.japan} {
		seen := map[string]string{}
		for _, fn := range titleFns {
			s, ok := stringOf(e.F.Eval(fn, l))
			if !ok {
				c.Undecided("title-distinct", fn.Name(), e.P.Pos(fn.Pos()), "title not summarised")
				continue
			}
			s = strings.TrimSpace(s)
			if prev, dup := seen[s]; dup {
				c.Fail("title-distinct", fn.Name()+" "+langName(l), e.P.Pos(fn.Pos()), fmt.Sprintf("names.%s and names.%s return the same title %q: a report field would show another metric's title", prev, fn.Name(), s))
			} else {
				c.Ok("title-distinct", fn.Name()+" "+langName(l), e.P.Pos(fn.Pos()), quote(s))
			}
			seen[s] = fn.Name()
		}
	}
	c.Floor("title-distinct", 44)
}

// reportScoreRendering: <Level>Score = strconv.FormatFloat(x.Score(), 'f', -1, 64).
func (e *Env) reportScoreRendering(rule string) {
	c := e.C
	for _, rc := range e.reportCtors(rule) {
		lvl := rc.level.Spec.Name
		_, x := rc.field(lvl + "Score")
		cons := fname(rc.fn) + " field " + lvl + "Score"
		if x == nil {
			c.Fail(rule, cons, e.P.Pos(rc.fn.Pos()), "score field missing")
			continue
		}
		call, _ := ast.Unparen(x).(*ast.CallExpr)
		ok := false
		why := "not a call of strconv.FormatFloat"
		if call != nil {
			callee, _ := typeutil.Callee(rc.info, call).(*types.Func)
			if callee != nil && callee.FullName() == "strconv.FormatFloat" && len(call.Args) == 4 {
				cv := func(i int) constant.Value { return rc.info.Types[call.Args[i]].Value }
				f, p, b := cv(1), cv(2), cv(3)
				switch {
				case f == nil || p == nil || b == nil:
					why = "format arguments are not constants"
				case f.Kind() != constant.Int || f.ExactString() != fmt.Sprint(int('f')):
					why = "format verb is not 'f'"
				case p.ExactString() != "-1":
					why = "precision is not -1 (shortest representation)"
				case b.ExactString() != "64":
					why = "bit size is not 64"
				default:
					ok = true
				}
			}
		}
		c.Check(ok, rule, cons, e.P.Pos(x.Pos()), "strconv.FormatFloat(score, 'f', -1, 64)", why)
	}
}

var _ = spec.V3
