package rules

import (
	"cvsslint/internal/spec"
	"fmt"
	"go/constant"
	"go/token"
	"go/types"
	"strings"

	"cvsslint/internal/facts"
	"cvsslint/internal/ir"
	"cvsslint/internal/load"

	"golang.org/x/tools/go/ssa"
)

func init() { register("C17", c17) }

// reportCtor is the path model of one report constructor: the value stored in
// every field of the report it returns, as terms over its parameters
// (p0 = the metrics object, p1 = the options).
type reportCtor struct {
	fn     *types.Func
	level  *facts.Level
	repT   *types.Named
	fields map[*types.Var]*ir.Term
	pos    map[*types.Var]token.Pos
	ret    *ir.Term
	// when the constructor is a one-line wrapper  return worker(m, newOptions(os...))  of an unexported worker of
	// the package: the worker and that definition (a term over the constructor's parameters)
	worker *types.Func
	def    *ir.Term
}

// ctorWorker: fn's only path returns the call of one unexported function of the package (nothing else
// happens): that function and the returned call as a term over fn's parameters.
func (e *Env) ctorWorker(fn *types.Func) (*types.Func, *ir.Term) {
	sf := e.P.SSAFunc(fn)
	if sf == nil {
		return nil, nil
	}
	no := e.newOptionsFunc()
	leaves, err := ir.Leaves(sf, ir.LeafOptions{Forward: true, Effects: true, Inline: func(*ssa.Function) bool { return false }})
	if err != nil || len(leaves) != 1 || len(leaves[0].Ret) != 1 || len(leaves[0].Guards) != 0 {
		return nil, nil
	}
	r := leaves[0].Ret[0]
	w, _ := r.Obj.(*types.Func)
	if r.Op != ir.OCall || w == nil || w.Exported() || w.Pkg() != fn.Pkg() || w == no {
		return nil, nil
	}
	// the arguments with the package's small helpers expanded (languageOf(os...) = newOptions(os...).lang)
	leaves, err = ir.Leaves(sf, ir.LeafOptions{Forward: true, Effects: true, Inline: e.inlineHelpers(no, w)})
	if err != nil || len(leaves) != 1 || len(leaves[0].Ret) != 1 || len(leaves[0].Guards) != 0 {
		return nil, nil
	}
	r = leaves[0].Ret[0]
	if w2, _ := r.Obj.(*types.Func); r.Op != ir.OCall || w2 != w {
		return nil, nil
	}
	for _, ef := range leaves[0].Effects {
		if ef.Kind != "call" {
			return nil, nil
		}
		cf, _ := ef.Val.Obj.(*types.Func)
		if ef.Val.Op != ir.OCall || (cf != w && cf != no) {
			return nil, nil
		}
	}
	return w, r
}

func (e *Env) reportCtors(rule string) []*reportCtor {
	v3, _ := e.levels("struct-layout")
	if v3 == nil {
		return nil
	}
	var out []*reportCtor
	for _, l := range v3 {
		fn := e.P.LookupFunc("v3/report", "New"+l.Spec.Name)
		if fn == nil {
			e.C.Fail(rule, "v3/report.New"+l.Spec.Name, "", "report constructor not found")
			continue
		}
		sig := fn.Type().(*types.Signature)
		if sig.Params().Len() != 2 || !sig.Variadic() || !types.Identical(sig.Params().At(0).Type(), l.Ptr()) || sig.Results().Len() != 1 {
			e.C.Fail(rule, fname(fn), e.P.Pos(fn.Pos()), "signature is not (metrics object of its level, options...) -> report")
			continue
		}
		rc := &reportCtor{fn: fn, level: l, fields: map[*types.Var]*ir.Term{}, pos: map[*types.Var]token.Pos{}}
		if pt, ok := sig.Results().At(0).Type().(*types.Pointer); ok {
			rc.repT, _ = pt.Elem().(*types.Named)
		}
		if rc.repT == nil {
			e.C.Fail(rule, fname(fn), e.P.Pos(fn.Pos()), "result is not a pointer to a report struct")
			continue
		}
		rc.worker, rc.def = e.ctorWorker(fn)
		// the worker of the lower constructor stays a call: the embedded report is compared with the lower
		// constructor's definition (embedded-report)
		except := []*types.Func{e.newOptionsFunc()}
		if len(out) > 0 && out[len(out)-1].worker != nil {
			except = append(except, out[len(out)-1].worker)
		}
		leaves, err := ir.Leaves(e.P.SSAFunc(fn), ir.LeafOptions{Forward: true, Effects: true, Inline: e.inlineHelpers(except...)})
		if no := e.newOptionsFunc(); err == nil && no != nil && len(leaves) > 1 {
			// newOptions returns a fresh options value, never nil (rule options): a path that needs its result to be
			// nil (a defensive  if opts == nil  in a helper) is not a path of the constructor
			optNil := ir.Bin("==", ir.Call(no, ir.Param(1)), nilOf(no.Type().(*types.Signature).Results().At(0).Type()))
			var kept []*ir.Leaf
			for _, lf := range leaves {
				if !hasGuard(lf, optNil) {
					kept = append(kept, lf)
				}
			}
			leaves = kept
		}
		if err != nil || len(leaves) != 1 || len(leaves[0].Ret) != 1 {
			e.C.Undecided(rule, fname(fn), e.P.Pos(fn.Pos()), fmt.Sprintf("constructor is not a single straight-line path (%v)", err))
			continue
		}
		lf := leaves[0]
		rc.ret = lf.Ret[0]
		// whole-struct initialisers ( rep := someStruct ) are not field-wise wiring: fields they fill stay unknown
		for _, ef := range lf.Effects {
			if ef.Kind != "store" || ef.Addr.Op != ir.OField {
				continue
			}
			if ef.Addr.Args[0].Key() != rc.ret.Key() {
				continue
			}
			fv, _ := ef.Addr.Obj.(*types.Var)
			rc.fields[fv] = ef.Val // the last store wins (path order)
			rc.pos[fv] = ef.Pos
		}
		out = append(out, rc)
	}
	return out
}

func (rc *reportCtor) field(name string) (*types.Var, *ir.Term) {
	for fv, t := range rc.fields {
		if fv.Name() == name {
			return fv, t
		}
	}
	return nil, nil
}

func c17(e *Env) {
	c := e.C
	c.Level = "other"
	c.Explanation = "Field-by-field wiring of report.NewBase/NewTemporal/NewEnvironmental, read off the SSA form (one straight-line path; the value stored into each field of the returned report as a term over the parameters): for every metric P of the constructor's own level PName = names.<type name of P>(newOptions(os...).lang) and PValue = names.<value function whose parameter type is P's type>(param.P, same language) with param.P the object's own field; group titles and column headers from the like-named functions; Version = param.Ver.String(); Vector = first result of the own-level Encode; <Level>Score = strconv.FormatFloat(own-level Score(), 'f', -1, 64); SeverityValue from the own-level Severity(); the embedded report is the lower constructor applied to the accessor of the embedded object with the same options slice; newOptions returns a fresh value whose language is language.English and calls every element of the options slice on it; WithOptionsLanguage's closure stores its argument; Vector/SeverityName/SeverityValue are declared at depth 0 of every report struct (shadowing) while the embedded report stays reachable. Title functions of different metrics return different titles. Each level's Severity() is severity(own-level Score()) (own-level-severity; what band a score falls in is C06's). What the name functions return for each value and each requested language (English, Japanese, any other tag) is tabulated as in C18 (title, value-name, modified-equals-base), since that is what the fields show."
	c.Trusted = []string{"go/types + go/ssa", "C14 (accessors return the embedded object) is decided by its own check"}
	c.NotDecided = []string{"reports of nil metrics objects (report.NewBase(nil) dereferences its argument; no property quantifies over that)", "what text/template does with the fields (C19)"}
	e.templateNames("shadowing")
	nf := e.nameFunctions("name-functions")
	rcs := e.reportCtors("report-constructor")
	if nf == nil || len(rcs) != 3 {
		c.Fail("report-constructor", "v3/report", "", "expected three report constructors")
		return
	}
	c.Floor("metric-title", 22)
	c.Floor("metric-value", 22)
	c.Floor("level-fields", 19)
	e.guardPanics("report-constructor", "v3/report", func() {
		var prev *reportCtor
		for _, rc := range rcs {
			e.reportWiring(rc, prev, nf)
			prev = rc
		}
		e.optionsRules()
	})
	e.titleDistinct(nf, rcs)
	// "in the requested language": what a field shows is the name function's result for the language the report was
	// asked for - a name function that answers Unknown (or nothing) for a language it should serve in English
	// puts that into every report field of that language
	e.guardPanics("value-name", "v3/report/names", func() { e.nameCells() })
	e.reportScoreRendering("score-rendering")
	// "each level's severity fields show that level's severity": the constructors call the level's own Severity();
	// that this is the rating of the level's own score is the metric package's side of the same clause
	if k := e.newScoreKit(&spec.V3, "own-level-severity"); k != nil {
		e.guardPanics("own-level-severity", "v3", func() { e.ownSeverity(k) })
	}
}

// optsLang is the term  newOptions(os...).lang .
func (e *Env) optsLang() *ir.Term {
	no := e.newOptionsFunc()
	if no == nil {
		panic("newOptions not found")
	}
	st, _ := no.Type().(*types.Signature).Results().At(0).Type().(*types.Pointer)
	if st == nil {
		panic("newOptions does not return a pointer")
	}
	s, _ := st.Elem().Underlying().(*types.Struct)
	var lang *types.Var
	for i := 0; s != nil && i < s.NumFields(); i++ {
		if s.Field(i).Name() == "lang" {
			lang = s.Field(i)
		}
	}
	if lang == nil {
		panic("options has no lang field")
	}
	return ir.Field(ir.Call(no, ir.Param(1)), lang)
}

// newOptionsFunc identifies the options constructor by role: the package function of v3/report that takes
// the variadic options slice and returns a pointer to a struct with a language field.
func (e *Env) newOptionsFunc() *types.Func {
	pk := e.P.Lib("v3/report")
	nb := e.P.LookupFunc("v3/report", "NewBase")
	if pk == nil || nb == nil {
		return nil
	}
	optT := nb.Type().(*types.Signature).Params().At(1).Type()
	var found *types.Func
	sc := pk.Types.Scope()
	for _, n := range sc.Names() {
		fn, ok := sc.Lookup(n).(*types.Func)
		if !ok || fn.Exported() {
			continue
		}
		sig := fn.Type().(*types.Signature)
		if sig.Recv() != nil || sig.Params().Len() != 1 || !sig.Variadic() || sig.Results().Len() != 1 || !types.Identical(sig.Params().At(0).Type(), optT) {
			continue
		}
		if _, ok := sig.Results().At(0).Type().(*types.Pointer); !ok {
			continue
		}
		if found != nil {
			return nil
		}
		found = fn
	}
	return found
}

func namesFunc(e *Env, name string) *types.Func {
	return e.P.LookupFunc("v3/report/names", name)
}

func (e *Env) reportWiring(rc, lower *reportCtor, nf *nameFuncs) {
	c := e.C
	who := fname(rc.fn)
	lang := e.optsLang()
	used := map[*types.Var]bool{}
	lvl := rc.level.Spec.Name
	p0 := ir.Param(0)
	expect := func(rule, field string, want *ir.Term, okMsg, what string) {
		fv, got := rc.field(field)
		cons := fmt.Sprintf("%s field %s", who, field)
		if fv == nil {
			c.Fail(rule, cons, e.P.Pos(rc.fn.Pos()), "the constructor does not set this field from its arguments ("+what+" expected)")
			return
		}
		used[fv] = true
		pos := e.P.Pos(rc.pos[fv])
		if want == nil {
			c.Fail(rule, cons, pos, "no expected expression could be built for "+what)
			return
		}
		if got.Key() == want.Key() {
			c.Ok(rule, cons, pos, okMsg)
			return
		}
		a, b := ir.Diff(got, want)
		c.Fail(rule, cons, pos, fmt.Sprintf("%s: found %s, expected %s", what, clip(a), clip(b)))
	}
	call := func(fn *types.Func, args ...*ir.Term) *ir.Term {
		if fn == nil {
			return nil
		}
		return ir.Call(fn, args...)
	}
	own := func(name string) *ir.Term {
		m := rc.level.Method(name)
		if m == nil {
			return nil
		}
		return ir.Call(m, p0)
	}
	for _, fv := range rc.level.Metrics {
		P := fv.Name()
		tname := fv.Type().(*types.Named).Obj().Name()
		expect("metric-title", P+"Name", call(namesFunc(e, tname), lang), "names."+tname+"(opts.lang)", "title of metric "+P+" ("+tname+")")
		vf := nf.byType[fv.Type().(*types.Named)]
		expect("metric-value", P+"Value", call(vf, ir.Field(p0, fv), lang), "names."+nameOf(vf)+"("+rc.level.Spec.Name+"."+P+", opts.lang)", "value name of the object's own field "+P)
	}
	expect("level-fields", lvl+"Metrics", call(namesFunc(e, lvl+"Metrics"), lang), "names."+lvl+"Metrics(opts.lang)", "group title")
	expect("level-fields", lvl+"MetricValue", call(namesFunc(e, lvl+"MetricsValueOf"), lang), "names."+lvl+"MetricsValueOf(opts.lang)", "column header")
	expect("level-fields", "SeverityName", call(namesFunc(e, "Severity"), lang), "names.Severity(opts.lang)", "severity title")
	if sv := own("Severity"); sv != nil {
		expect("level-fields", "SeverityValue", call(namesFunc(e, "SeverityValueOf"), sv, lang), "names.SeverityValueOf(own-level Severity(), opts.lang)", "severity of the "+lvl+" level itself")
	}
	if en := own("Encode"); en != nil {
		expect("level-fields", "Vector", &ir.Term{Op: ir.OExtract, N: 0, Args: []*ir.Term{en}}, "first result of the own-level Encode()", "vector of the "+lvl+" level itself")
	}
	expect("level-fields", lvl+"Score", e.formatFloatOf(own("Score")), "strconv.FormatFloat(own-level Score(), 'f', -1, 64)", "score of the "+lvl+" level itself")
	if rc.level.VerField != nil {
		vs := load.MethodOf(rc.level.VerField.Type(), "String")
		expect("level-fields", "Version", call(vs, ir.Field(p0, rc.level.VerField)), "param.Ver.String()", "version label of the object")
	}
	// embedded report
	st := rc.repT.Underlying().(*types.Struct)
	if lower != nil {
		var emb *types.Var
		for i := 0; i < st.NumFields(); i++ {
			if st.Field(i).Embedded() {
				emb = st.Field(i)
			}
		}
		cons := who + " embedded report"
		if emb == nil {
			c.Fail("embedded-report", cons, e.P.Pos(rc.fn.Pos()), "report struct does not embed the lower report")
		} else {
			used[emb] = true
			acc := rc.level.Method(lower.level.Spec.Name + "Metrics")
			var want *ir.Term
			if acc != nil {
				want = ir.Call(lower.fn, ir.Call(acc, p0), ir.Param(1))
			}
			got := rc.fields[emb]
			switch {
			case got == nil:
				c.Fail("embedded-report", cons, e.P.Pos(rc.fn.Pos()), "the embedded report is not set")
			case want == nil:
				c.Fail("embedded-report", cons, e.P.Pos(rc.fn.Pos()), "accessor "+lower.level.Spec.Name+"Metrics not declared on the level")
			case got.Key() == want.Key():
				c.Ok("embedded-report", cons, e.P.Pos(rc.pos[emb]), "lower constructor on the accessor of the embedded object, same options")
			case lower.def != nil && got.Key() == ir.Subst(lower.def, []*ir.Term{ir.Call(acc, p0), ir.Param(1)}).Key():
				// NewBase(m, os...) is by definition newBase(m, newOptions(os...)): the worker applied to the accessor
				// of the embedded object and the options resolved from the same slice is that constructor's result
				c.Ok("embedded-report", cons, e.P.Pos(rc.pos[emb]), "the lower constructor's worker on the accessor of the embedded object, with the options resolved from the same slice (the lower constructor's own definition)")
			default:
				a, b := ir.Diff(got, want)
				c.Fail("embedded-report", cons, e.P.Pos(rc.pos[emb]), fmt.Sprintf("the embedded report is not %s(param.%s(), os...): found %s, expected %s (language not forwarded, or another object reported)", lower.fn.Name(), acc.Name(), clip(a), clip(b)))
			}
		}
		for _, n := range []string{"Vector", "SeverityName", "SeverityValue"} {
			obj, idx, _ := types.LookupFieldOrMethod(rc.repT, true, rc.fn.Pkg(), n)
			c.Check(obj != nil && len(idx) == 1, "shadowing", rc.repT.Obj().Name()+"."+n, e.P.Pos(rc.repT.Obj().Pos()), "declared at depth 0, shadowing the embedded report's field", "field is not declared at this report level: the higher level would show the lower level's value")
		}
	}
	// every field of the report struct must have been accounted for
	for i := 0; i < st.NumFields(); i++ {
		fv := st.Field(i)
		if used[fv] {
			continue
		}
		// a field the property does not name (it speaks of title/value/version/vector/score/severity fields):
		// recorded, not judged
		c.Ok("other-report-fields", who+" field "+fv.Name(), e.P.Pos(rc.fn.Pos()), "not one of the fields the property names; not examined")
	}
}

// formatFloatOf: strconv.FormatFloat(x, 'f', -1, 64).
func (e *Env) formatFloatOf(x *ir.Term) *ir.Term {
	if x == nil {
		return nil
	}
	ff := e.externFunc(e.P.Lib("v3/report").Types, "strconv", "FormatFloat")
	if ff == nil {
		return nil
	}
	return ir.Call(ff, x,
		ir.Const(constant.MakeInt64('f'), types.Typ[types.Uint8]),
		ir.Const(constant.MakeInt64(-1), types.Typ[types.Int]),
		ir.Const(constant.MakeInt64(64), types.Typ[types.Int]))
}

// optionsRules: newOptions returns a fresh options value whose language is
// language.English and applies every option to it; WithOptionsLanguage stores its argument.
func (e *Env) optionsRules() {
	c := e.C
	no := e.newOptionsFunc()
	wl := e.P.LookupFunc("v3/report", "WithOptionsLanguage")
	if no == nil || wl == nil {
		c.Fail("options", "v3/report options", "", "newOptions / WithOptionsLanguage not found")
		return
	}
	sf := e.P.SSAFunc(no)
	who := fname(no)
	// the returned value
	var ret ssa.Value
	nret := 0
	sameValue := true
	for _, b := range sf.Blocks {
		for _, in := range b.Instrs {
			if r, ok := in.(*ssa.Return); ok && len(r.Results) == 1 {
				if emptyListReturn(sf, b) {
					// if len(os) == 0 { return opts }: there is no option to apply on this path; it must hand out the
					// same value as the main return (checked below)
					if ret != nil && r.Results[0] != ret {
						sameValue = false
					}
					if ret == nil {
						ret = r.Results[0]
					}
					continue
				}
				if ret != nil && r.Results[0] != ret {
					sameValue = false
				}
				ret = r.Results[0]
				nret++
			}
		}
	}
	if nret != 1 || ret == nil || !sameValue {
		c.Undecided("options", who, e.P.Pos(no.Pos()), "not a single return")
		return
	}
	// default language: the options value is a fresh allocation (here or in a helper) whose lang is language.English
	var english func(v ssa.Value) bool
	english = func(v ssa.Value) bool {
		// a helper of the package without parameters whose every return is language.English (defaultLanguage())
		if call, isCall := v.(*ssa.Call); isCall {
			callee := call.Call.StaticCallee()
			if callee == nil || callee.Pkg != sf.Pkg || len(call.Call.Args) != 0 || len(callee.Blocks) == 0 {
				return false
			}
			n := 0
			for _, b := range callee.Blocks {
				for _, in := range b.Instrs {
					if r, ok := in.(*ssa.Return); ok {
						if len(r.Results) != 1 {
							return false
						}
						if _, again := r.Results[0].(*ssa.Call); again || !english(r.Results[0]) {
							return false
						}
						n++
					}
				}
			}
			return n > 0
		}
		u, ok := v.(*ssa.UnOp)
		if !ok || u.Op != token.MUL {
			return false
		}
		g, ok := u.X.(*ssa.Global)
		return ok && g.Pkg.Pkg.Path() == "golang.org/x/text/language" && g.Name() == "English"
	}
	langStores := func(fn *ssa.Function, obj ssa.Value) (n int, ok bool) {
		ok = true
		for _, b := range fn.Blocks {
			for _, in := range b.Instrs {
				st, isSt := in.(*ssa.Store)
				if !isSt {
					continue
				}
				fa, isFA := st.Addr.(*ssa.FieldAddr)
				if !isFA || fa.X != obj || fieldVarOf(fa).Name() != "lang" {
					continue
				}
				n++
				if !english(st.Val) {
					ok = false
				}
			}
		}
		return
	}
	okDefault := false
	switch x := ret.(type) {
	case *ssa.Alloc:
		n, ok := langStores(sf, x)
		okDefault = n == 1 && ok
	case *ssa.Call:
		if callee := x.Call.StaticCallee(); callee != nil && callee.Pkg == sf.Pkg && len(x.Call.Args) == 0 {
			// helper returning the defaults
			var hret ssa.Value
			hn := 0
			for _, b := range callee.Blocks {
				for _, in := range b.Instrs {
					if r, ok := in.(*ssa.Return); ok && len(r.Results) == 1 {
						hret = r.Results[0]
						hn++
					}
				}
			}
			if al, ok := hret.(*ssa.Alloc); ok && hn == 1 {
				n, ok := langStores(callee, al)
				okDefault = n == 1 && ok
			}
		}
	}
	c.Check(okDefault, "options", who+" default language", e.P.Pos(no.Pos()), "a fresh options value with lang = language.English", "the options value is not a fresh allocation whose language defaults to language.English (shared defaults or another default language)")
	// every option applied: a dynamic call  os[i](ret)  inside a loop over all elements of the parameter
	okLoop := false
	why := "no call of the options found"
	for _, b := range sf.Blocks {
		for _, in := range b.Instrs {
			call, ok := in.(*ssa.Call)
			if !ok || call.Call.StaticCallee() != nil || call.Call.IsInvoke() {
				continue
			}
			ia := elementOf(call.Call.Value)
			if ia == nil || len(call.Call.Args) != 1 || call.Call.Args[0] != ret {
				why = "an option is not called on the value that is returned"
				continue
			}
			lp, w := analyseIndexLoop(ia)
			switch {
			case lp == nil:
				why = w
			case lp.Slice != ssa.Value(sf.Params[0]):
				why = "the loop does not range over the options parameter"
			case lp.Start != 0:
				why = "the loop skips the first option(s)"
			case call.Block() != lp.Body:
				why = "an option can be skipped"
			default:
				okLoop = true
			}
		}
	}
	c.Check(okLoop, "options", who+" applies every option", e.P.Pos(no.Pos()), "every element of the options slice is called on the returned value", "not every option is applied to the returned options value: "+why)
	// WithOptionsLanguage
	wsf := e.P.SSAFunc(wl)
	okW := false
	if len(wsf.AnonFuncs) == 1 {
		cl := wsf.AnonFuncs[0]
		leaves, err := ir.Leaves(cl, ir.LeafOptions{Forward: true, Effects: true})
		if err == nil && len(leaves) == 1 {
			n := 0
			good := true
			for _, ef := range leaves[0].Effects {
				if ef.Kind != "store" {
					continue
				}
				n++
				if !(ef.Addr.Op == ir.OField && ef.Addr.Obj.Name() == "lang" && ef.Addr.Args[0].Op == ir.OParam && ef.Addr.Args[0].N == 0 && (ef.Val.Op == ir.OFree || (ef.Val.Op == "deref" && len(ef.Val.Args) == 1 && ef.Val.Args[0].Op == ir.OFree))) {
					good = false
				}
			}
			// the captured variable is WithOptionsLanguage's parameter
			if n == 1 && good && len(cl.FreeVars) == 1 {
				for _, b := range wsf.Blocks {
					for _, in := range b.Instrs {
						if mc, ok := in.(*ssa.MakeClosure); ok && len(mc.Bindings) == 1 {
							if mc.Bindings[0] == ssa.Value(wsf.Params[0]) {
								okW = true
							}
							if a, ok := mc.Bindings[0].(*ssa.Alloc); ok {
								// parameter spilled to a cell: the cell is initialised from the parameter
								if refs := a.Referrers(); refs != nil {
									for _, r := range *refs {
										if st, ok := r.(*ssa.Store); ok && st.Val == ssa.Value(wsf.Params[0]) {
											okW = true
										}
									}
								}
							}
						}
					}
				}
			}
		}
	}
	c.Check(okW, "options", fname(wl), e.P.Pos(wl.Pos()), "the returned option stores the requested language in options.lang", "the returned option does not store the requested language")
}

// emptyListReturn: block b of fn (which ends in a return) is entered only through the true edge of the test
// len(<first parameter>) == 0.
func emptyListReturn(fn *ssa.Function, b *ssa.BasicBlock) bool {
	if len(fn.Params) == 0 || len(b.Preds) != 1 {
		return false
	}
	p := b.Preds[0]
	if len(p.Instrs) == 0 || len(p.Succs) != 2 || p.Succs[0] != b || p.Succs[1] == b {
		return false
	}
	iff, ok := p.Instrs[len(p.Instrs)-1].(*ssa.If)
	if !ok {
		return false
	}
	cmp, ok := iff.Cond.(*ssa.BinOp)
	if !ok || cmp.Op != token.EQL {
		return false
	}
	isLen := func(v ssa.Value) bool {
		call, ok := v.(*ssa.Call)
		if !ok || len(call.Call.Args) != 1 || call.Call.Args[0] != ssa.Value(fn.Params[0]) {
			return false
		}
		bi, ok := call.Call.Value.(*ssa.Builtin)
		return ok && bi.Name() == "len"
	}
	isZero := func(v ssa.Value) bool {
		k, ok := v.(*ssa.Const)
		return ok && k.Value != nil && k.Value.Kind() == constant.Int && constant.Sign(k.Value) == 0
	}
	return (isLen(cmp.X) && isZero(cmp.Y)) || (isZero(cmp.X) && isLen(cmp.Y))
}

func fieldVarOf(fa *ssa.FieldAddr) *types.Var {
	st := fa.X.Type().Underlying().(*types.Pointer).Elem().Underlying().(*types.Struct)
	return st.Field(fa.Field)
}

func varName(v *types.Var) string {
	if v == nil {
		return "<none>"
	}
	return v.Name()
}

// titleDistinct: the 22 metric titles (those used by PName fields) are pairwise different per language.
func (e *Env) titleDistinct(nf *nameFuncs, rcs []*reportCtor) {
	c := e.C
	var titleFns []*types.Func
	for _, rc := range rcs {
		for _, fv := range rc.level.Metrics {
			tname := fv.Type().(*types.Named).Obj().Name()
			for _, t := range nf.titles {
				if t.Name() == tname {
					titleFns = append(titleFns, t)
				}
			}
		}
	}
	for _, l := range []facts.Value{nf.english, nf.japan} {
		seen := map[string]string{}
		for _, fn := range titleFns {
			s, ok := stringOf(e.F.Eval(fn, l))
			if !ok {
				c.Undecided("title-distinct", fn.Name(), e.P.Pos(fn.Pos()), "title not summarised")
				continue
			}
			s = strings.TrimSpace(s)
			if prev, dup := seen[s]; dup {
				c.Fail("title-distinct", fn.Name()+" "+langName(l), e.P.Pos(fn.Pos()), fmt.Sprintf("names.%s and names.%s return the same title %q: a report field would show another metric's title", prev, fn.Name(), s))
			} else {
				c.Ok("title-distinct", fn.Name()+" "+langName(l), e.P.Pos(fn.Pos()), quote(s))
			}
			seen[s] = fn.Name()
		}
	}
	c.Floor("title-distinct", 44)
}

// reportScoreRendering: <Level>Score = strconv.FormatFloat(<some Score()>, 'f', -1, 64)  (C06 cares about the
// format arguments, C17 about which score).
func (e *Env) reportScoreRendering(rule string) {
	c := e.C
	for _, rc := range e.reportCtors(rule) {
		lvl := rc.level.Spec.Name
		fv, got := rc.field(lvl + "Score")
		cons := fname(rc.fn) + " field " + lvl + "Score"
		if fv == nil {
			c.Fail(rule, cons, e.P.Pos(rc.fn.Pos()), "score field is not set")
			continue
		}
		pos := e.P.Pos(rc.pos[fv])
		if !isCallOf(got, "strconv.FormatFloat") || len(got.Args) != 4 {
			c.Fail(rule, cons, pos, "not a call of strconv.FormatFloat: "+clip(got.Pretty()))
			continue
		}
		want := e.formatFloatOf(got.Args[0])
		why := ""
		for i, what := range []string{"", "format verb is not 'f'", "precision is not -1 (shortest representation)", "bit size is not 64"} {
			if i > 0 && got.Args[i].Key() != want.Args[i].Key() && why == "" {
				why = what
			}
		}
		c.Check(why == "", rule, cons, pos, "strconv.FormatFloat(score, 'f', -1, 64)", why)
	}
}
