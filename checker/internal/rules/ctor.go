package rules

import (
	"go/ast"
	"go/types"

	"cvsslint/internal/facts"

	"golang.org/x/tools/go/types/typeutil"
)

// ctorLiteral returns the composite literal a constructor returns the address
// of:  func NewX() *X { return &X{...} } .
func (e *Env) ctorLiteral(ctor *types.Func, rule string) (*ast.CompositeLit, *types.Info) {
	decl := e.P.Decl(ctor)
	pk := e.P.PkgOf(ctor)
	if decl == nil || decl.Body == nil || pk == nil {
		e.C.Undecided(rule, fname(ctor), "", "no source for the constructor")
		return nil, nil
	}
	if len(decl.Body.List) != 1 {
		e.C.Undecided(rule, fname(ctor), e.P.Pos(ctor.Pos()), "constructor body is not a single return of a composite literal")
		return nil, nil
	}
	ret, ok := decl.Body.List[0].(*ast.ReturnStmt)
	if !ok || len(ret.Results) != 1 {
		e.C.Undecided(rule, fname(ctor), e.P.Pos(ctor.Pos()), "constructor body is not a single return of a composite literal")
		return nil, nil
	}
	x := ast.Unparen(ret.Results[0])
	if u, ok := x.(*ast.UnaryExpr); ok {
		x = ast.Unparen(u.X)
	}
	cl, ok := x.(*ast.CompositeLit)
	if !ok {
		e.C.Undecided(rule, fname(ctor), e.P.Pos(ctor.Pos()), "constructor does not return a composite literal")
		return nil, nil
	}
	return cl, pk.TypesInfo
}

// litFields maps the struct fields named in a keyed composite literal to their initialiser expressions.
func litFields(cl *ast.CompositeLit, info *types.Info) (map[*types.Var]ast.Expr, bool) {
	out := map[*types.Var]ast.Expr{}
	for _, el := range cl.Elts {
		kv, ok := el.(*ast.KeyValueExpr)
		if !ok {
			return nil, false
		}
		id, ok := kv.Key.(*ast.Ident)
		if !ok {
			return nil, false
		}
		fv, ok := info.Uses[id].(*types.Var)
		if !ok || !fv.IsField() {
			return nil, false
		}
		out[fv] = kv.Value
	}
	return out, true
}

// ctorInits returns the constant initial values of the metric fields of level l.
func (e *Env) ctorInits(ctor *types.Func, l *facts.Level, rule string) map[*types.Var]facts.Value {
	cl, info := e.ctorLiteral(ctor, rule)
	if cl == nil {
		return nil
	}
	fields, ok := litFields(cl, info)
	if !ok {
		e.C.Undecided(rule, fname(ctor), e.P.Pos(cl.Pos()), "composite literal is not fully keyed")
		return nil
	}
	out := map[*types.Var]facts.Value{}
	for fv, x := range fields {
		v := e.F.StaticValue(info, x)
		if v.Kind == facts.VConst {
			out[fv] = v
		}
	}
	return out
}

func astCompositeLit(x ast.Expr) (*ast.CompositeLit, bool) {
	cl, ok := ast.Unparen(x).(*ast.CompositeLit)
	return cl, ok
}

func calleeOf(info *types.Info, x ast.Expr) *types.Func {
	call, ok := ast.Unparen(x).(*ast.CallExpr)
	if !ok {
		return nil
	}
	fn, _ := typeutil.Callee(info, call).(*types.Func)
	return fn
}
