package rules

import (
	"go/constant"
	"go/token"
	"go/types"

	"cvsslint/internal/facts"
	"cvsslint/internal/ir"
)

// ctorFields models a constructor by what it does rather than by how it is written: on its single path it
// allocates one object, stores into fields of that object, and returns the object's address. The result maps each
// stored field to the term stored (a composite literal, new(T) followed by assignments and a local variable whose
// address is returned all look the same here).
func (e *Env) ctorFields(ctor *types.Func, rule string) map[*types.Var]*ir.Term {
	sf := e.P.SSAFunc(ctor)
	who := fname(ctor)
	pos := e.P.Pos(ctor.Pos())
	if sf == nil || len(sf.Blocks) == 0 {
		e.C.Undecided(rule, who, pos, "no body for the constructor")
		return nil
	}
	leaves, err := ir.Leaves(sf, ir.LeafOptions{Forward: true, Effects: true, Inline: e.inlineHelpers()})
	if err != nil {
		e.C.Undecided(rule, who, pos, err.Error())
		return nil
	}
	if len(leaves) != 1 || len(leaves[0].Ret) != 1 {
		e.C.Undecided(rule, who, pos, "the constructor does not have exactly one path returning one value")
		return nil
	}
	lf := leaves[0]
	ret := lf.Ret[0]
	if ret.Op != ir.OAddr || len(ret.Args) != 1 || ret.Args[0].Op != ir.OAlloc {
		e.C.Undecided(rule, who, pos, "the constructor does not return the address of an object it allocates: "+clip(ret.Pretty()))
		return nil
	}
	out := map[*types.Var]*ir.Term{}
	for _, ef := range lf.Effects {
		switch ef.Kind {
		case "store":
			if ef.Addr.Op == ir.OField && len(ef.Addr.Args) == 1 && ef.Addr.Args[0].Key() == ret.Key() {
				fv, _ := ef.Addr.Obj.(*types.Var)
				if fv == nil {
					continue
				}
				if _, dup := out[fv]; dup {
					e.C.Undecided(rule, who, e.P.Pos(ef.Pos), "field "+fv.Name()+" is assigned twice in the constructor")
					return nil
				}
				out[fv] = ef.Val
				continue
			}
			e.C.Undecided(rule, who, e.P.Pos(ef.Pos), "the constructor stores into something other than a field of the new object: "+clip(ef.Addr.Pretty()))
			return nil
		case "map-update":
			e.C.Undecided(rule, who, e.P.Pos(ef.Pos), "the constructor fills a map")
			return nil
		}
	}
	return out
}

// termValue converts a constant term to the table model's value (with the enum constant it names, if any).
func (e *Env) termValue(t *ir.Term) facts.Value {
	if t == nil || t.Op != ir.OConst || t.C == nil || t.Typ == nil {
		return facts.Value{Kind: facts.VInvalid}
	}
	v := facts.Value{Kind: facts.VConst, C: t.C, Type: t.Typ}
	if en := e.F.EnumOf(t.Typ); en != nil {
		for _, cst := range en.Consts {
			if constant.Compare(cst.Val(), token.EQL, t.C) {
				v.Obj = cst
				break
			}
		}
	}
	return v
}

// ctorInits returns the constant initial values of the metric fields of level l.
func (e *Env) ctorInits(ctor *types.Func, l *facts.Level, rule string) map[*types.Var]facts.Value {
	fields := e.ctorFields(ctor, rule)
	if fields == nil {
		return nil
	}
	out := map[*types.Var]facts.Value{}
	for fv, t := range fields {
		if v := e.termValue(t); v.Kind == facts.VConst {
			out[fv] = v
		}
	}
	return out
}
