package rules

import (
	"fmt"
	"go/types"

	"cvsslint/internal/facts"
	"cvsslint/internal/ir"
	"cvsslint/internal/spec"
)

func init() {
	register("C01", c01)
	register("C02", c02)
	register("C03", c03)
	register("C04", c04)
	register("C05", c05)
}

const floatCaveat = "that evaluating the extracted term in IEEE-754 double arithmetic and passing it through the rounding helper yields the same tenth as exact arithmetic for every input (needs the numbers; static analysis in this family does not evaluate them)"

// objectIntegrity: the fields the equation reads are written only by their own
// level's decodeOne and constructor (Ver: by the v3 Decodes), so the state a
// Score function sees is the state the decoder produced - whichever decoder
// produced it and whatever was queried in between.
func (e *Env) objectIntegrity(v *spec.Version, upTo string) {
	e.C.Explanation += " From vector to score (object integrity): the fields the equation reads are written only by their own level's per-token decoder and constructor; a token NAME:VALUE is stored as parser(VALUE) in the field NAME and the one value test of an arm is against the type's unknown/invalid constant (wiring, arm-parser, arm-value); every higher level hands each token to the level below first (delegation-first); each Decode fills in and returns the object it was called on, or a fresh one for a nil receiver (nil-receiver-decode), and records GetVersion's result as the object's version (version-recorded); and a well-formed vector is not rejected: every rejecting path of a per-token decoder, of a Decode and of a GetError is caused by a defect the specification names (reject-path, decode-rejections, validity-rejections)."
	all, err := e.F.Levels(v)
	if err != nil {
		return
	}
	// only the levels whose fields the property's equation reads
	var ls []*facts.Level
	for _, l := range all {
		ls = append(ls, l)
		if l.Spec.Name == upTo {
			break
		}
	}
	e.writeOwnership(v, ls)
	// the score of a *vector* also depends on the token NAME:VALUE being stored as parser(VALUE) in the field
	// called NAME: keep the wiring rules of the shared decoder analysis (and nothing else of it)
	before := len(e.C.Obs)
	for _, l := range ls {
		m := e.modelDecodeOne(l, "decode-one")
		e.armRules(l, m)
	}
	kept := e.C.Obs[:before]
	for _, o := range e.C.Obs[before:] {
		// ... and a well-formed token is accepted: the only value test of an arm is "parsed value == the type's
		// unknown/invalid constant" (a test against another constant rejects a specification code, and the vector
		// it occurs in has no score at all)
		if o.Rule == "wiring" || o.Rule == "arm-parser" || o.Rule == "arm-value" || o.Rule == "reject-path" {
			kept = append(kept, o)
		}
	}
	e.C.Obs = kept
	// "whichever decoder the vector is read with": a higher level's per-token decoder must hand every token to
	// the level below first, unmodified and whatever came before it (otherwise a token of the levels the
	// equation reads may never reach its field)
	before = len(e.C.Obs)
	inLs := map[*facts.Level]bool{}
	for _, l := range ls {
		inLs[l] = true
	}
	for _, l := range all {
		if !inLs[l] {
			e.modelDecodeOne(l, "decode-one")
		}
	}
	kept = e.C.Obs[:before]
	for _, o := range e.C.Obs[before:] {
		if o.Rule == "delegation-first" || o.Rule == "order-independence" || o.Rule == "reject-path" || o.Rule == "arm-value" {
			kept = append(kept, o)
		}
	}
	e.C.Obs = kept
	// ... and every level's Decode fills in the object it was called on (or a fresh one for a nil receiver) and
	// returns that same object: a decoder that fills in another object leaves the caller's empty (score 0), one
	// that dereferences a nil receiver has no score at all. And a well-formed vector has a score only if it is
	// accepted: every rejection - of a token (reject-path), of the vector (decode-rejections), of the decoded
	// object (validity-rejections) - must be caused by a defect the specification names. (The other direction,
	// that every malformed vector is rejected, is C07/C08's and not needed for the score of a well-formed one.)
	before = len(e.C.Obs)
	for _, l := range all {
		e.decodeSkeleton(l, v.Name == "v3")
		e.getErrorRules(l, func(kind string) []string { return sentinelFor(v, l, kind) })
	}
	kept = e.C.Obs[:before]
	for _, o := range e.C.Obs[before:] {
		switch o.Rule {
		case "nil-receiver-decode", "decode-rejections", "validity-rejections", "version-recorded":
			// version-recorded: the v3 environmental equation reads the object's own Ver, which must be what
			// GetVersion made of the vector's prefix - at every level's Decode
			kept = append(kept, o)
		}
	}
	e.C.Obs = kept
}

func scoreBoiler(e *Env) {
	c := e.C
	c.Level = "other"
	c.Trusted = []string{"go/types + go/ssa (x/tools v0.29.0)", "the reference equations and weight tables in checker/internal/rules/c01_05.go and checker/internal/spec (hand-transcribed from FIRST)", "associative-commutative reordering of + and * is treated as equal (IEEE-754 is not associative: a reordering that flips a last-ulp rounding is not seen)"}
	c.NotDecided = append(c.NotDecided, floatCaveat, "numerics of the rounding helpers beyond their identity (which function is called where)")
}

// guardPanics turns a panic from the reference builders (a missing object) into UNDECIDED.
func (e *Env) guardPanics(rule, construct string, f func()) {
	defer func() {
		if r := recover(); r != nil {
			e.C.Undecided(rule, construct, "", fmt.Sprint(r))
		}
	}()
	f()
}

// weightObligations re-lists the C20 weight obligations of the named metrics.
func (e *Env) weightObligations(v *spec.Version, names ...string) {
	ls, err := e.F.Levels(v)
	if err != nil {
		return
	}
	want := map[string]bool{}
	for _, n := range names {
		want[n] = true
	}
	for _, l := range ls {
		for _, fv := range l.Metrics {
			if want[fv.Name()] {
				e.metricTables(l, fv, v.Metric(fv.Name()))
			}
		}
	}
}

// ---------------------------------------------------------------------------

func v3BaseRef(k *scoreKit, from *facts.Level) (ref []refLeaf, iss *ir.Term) {
	B := k.level("Base")
	valid := k.valid(from, B)
	one := fl(1)
	w := func(n string, a ...string) *ir.Term { return k.w(from, n, a...) }
	iss = ir.Sub(one, ir.Mul(ir.Mul(ir.Sub(one, w("C")), ir.Sub(one, w("I"))), ir.Sub(one, w("A"))))
	changed := k.pred(from, "S", "IsChanged")
	impC := ir.Sub(ir.Mul(fl(7.52), ir.Sub(iss, fl(0.029))), ir.Mul(fl(3.25), k.mathCall("Pow", ir.Sub(iss, fl(0.02)), fl(15))))
	impU := ir.Mul(fl(6.42), iss)
	ease := ir.Mul(ir.Mul(ir.Mul(ir.Mul(fl(8.22), w("AV")), w("AC")), w("PR", "S")), w("UI"))
	ref = []refLeaf{
		{"invalid object", []*ir.Term{ir.NotCond(valid)}, fl(0)},
		{"scope changed, impact <= 0", []*ir.Term{valid, changed, le0(impC)}, fl(0)},
		{"scope changed", []*ir.Term{valid, changed, ir.NotCond(le0(impC))}, k.rnd("roundUp", k.mathCall("Min", ir.Mul(fl(1.08), ir.Add(impC, ease)), fl(10)))},
		{"scope unchanged, impact <= 0", []*ir.Term{valid, ir.NotCond(changed), le0(impU)}, fl(0)},
		{"scope unchanged", []*ir.Term{valid, ir.NotCond(changed), ir.NotCond(le0(impU))}, k.rnd("roundUp", k.mathCall("Min", ir.Add(impU, ease), fl(10)))},
	}
	return
}

func c01(e *Env) {
	scoreBoiler(e)
	c := e.C
	c.Explanation = "The return value of v3 (*Base).Score is extracted from its SSA form as a set of guarded terms (one per entry-to-return path, phi-nodes resolved by the edge taken) and compared, after associative-commutative normalisation, with the FIRST v3 base equation written as reference terms: constants, exponent, scope switch, min(.,10), factor 1.08, zero cut-off, the round-up helper at the outermost position, Privileges Required weighted by the receiver's own Scope field. The per-metric weights behind the Value() leaves are decided by the C20 table obligations of the eight base metrics, re-evaluated here. 'Score 0 exactly when C=I=A=None': decided part - the only zero returns are the invalid-object and impact<=0 branches and ISS=0 iff all three impact weights are 0 (table facts)."
	c.NotDecided = append(c.NotDecided, "that the changed-scope polynomial is positive at every non-zero attainable ISS (a numeric fact about ten rationals)")
	k := e.newScoreKit(&spec.V3, "score-term")
	if k == nil {
		return
	}
	c.Floor("score-term", 5)
	c.Floor("weight", 25)
	e.guardPanics("score-term", "v3 Base.Score reference", func() {
		e.termV3Base(k)
		e.roundUpReference(k, "round-up-helper")
		k.validChain("valid-chain")
		e.zeroImpactFacts(k)
	})
	e.weightObligations(&spec.V3, "AV", "AC", "PR", "UI", "S", "C", "I", "A")
	e.viewObligations(k, "same-object")
	e.objectIntegrity(&spec.V3, "Base")
}

// zeroImpactFacts: in the three impact tables weight 0 belongs to code N only and every weight is < 1.
func (e *Env) zeroImpactFacts(k *scoreKit) {
	B := k.level("Base")
	for _, n := range []string{"C", "I", "A"} {
		fv := B.ByName[n]
		T := fv.Type()
		val := methodOf(T, "Value")
		for _, v := range e.F.Domain(T) {
			code, _, _ := e.codeOf(T, v)
			if code == "" {
				continue
			}
			f, ok := floatOf(e.F.Eval(val, v))
			cons := fmt.Sprintf("v3 %s:%s", n, code)
			if !ok {
				e.C.Undecided("zero-impact", cons, e.P.Pos(fv.Pos()), "weight not a number")
				continue
			}
			e.C.Check((f == 0) == (code == "N") && f >= 0 && f < 1, "zero-impact", cons, e.P.Pos(val.Pos()), fmt.Sprintf("weight %v: zero only for None, below 1", f), fmt.Sprintf("weight %v breaks 'ISS = 0 exactly when C=I=A=None' (zero weight must belong to code N only, all weights in [0,1))", f))
		}
	}
}

func methodOf(t types.Type, name string) *types.Func {
	n, _ := t.(*types.Named)
	if n == nil {
		return nil
	}
	for i := 0; i < n.NumMethods(); i++ {
		if n.Method(i).Name() == name {
			return n.Method(i)
		}
	}
	return nil
}

// viewObligations: Temporal/Environmental reach the same *Base (embedding + accessor identity), so the
// base term is the same whichever decoder produced the object. Full rule set is C14's; here the embedding facts.
func (e *Env) viewObligations(k *scoreKit, rule string) {
	for _, l := range k.levels {
		if l.Lower == nil {
			continue
		}
		e.C.Check(l.Embedded != nil && l.Embedded.Embedded(), rule, l.String()+" embeds *"+l.Lower.Named.Obj().Name(), e.P.Pos(l.Named.Obj().Pos()), "anonymous pointer field: lower-level Score is promoted from the one shared object", "lower level is not embedded")
	}
}

// ---------------------------------------------------------------------------

func c02(e *Env) {
	scoreBoiler(e)
	c := e.C
	c.Explanation = "v3 (*Temporal).Score is extracted as guarded terms and compared with roundUp(BaseScore*E*RL*RC), where BaseScore must be the call of (*Base).Score on the receiver's embedded Base (hence the already rounded base score), and (*Base).Score itself with the base equation of C01. The constructor is checked to initialise E, RL, RC with the constant whose code is X, and the temporal weight tables (including X = 1) are decided by the C20 obligations re-evaluated here."
	k := e.newScoreKit(&spec.V3, "score-term")
	if k == nil {
		return
	}
	c.Floor("score-term", 2)
	c.Floor("weight", 13)
	c.Floor("constructor-default", 3)
	e.guardPanics("score-term", "v3 Temporal.Score reference", func() {
		e.termV3Temporal(k)
		// BaseScore in the temporal equation is the specification's base score: the embedded level's Score must be
		// the base equation (C01's term, re-decided here with the base weights)
		e.termV3Base(k)
		e.roundUpReference(k, "round-up-helper")
		k.validChain("valid-chain")
	})
	e.weightObligations(&spec.V3, "AV", "AC", "PR", "UI", "S", "C", "I", "A", "E", "RL", "RC")
	e.constructorDefaults(k.level("Temporal"), "constructor-default")
	e.objectIntegrity(&spec.V3, "Temporal")
}

// ---------------------------------------------------------------------------

func c03(e *Env) {
	scoreBoiler(e)
	c := e.C
	c.Explanation = "v3 (*Environmental).Score is extracted as guarded terms and compared with the FIRST environmental equations: MISS capped at 0.915 with requirement R_x multiplying the (M)x pair of the same letter, the version-specific changed-scope polynomial (0.9731 / exponent 13 for v3.1, exponent 15 otherwise) selected by the object's own Ver field, Modified Scope selecting the formula, ModifiedPrivilegesRequired.Value(MS,S,PR), double round-up with the temporal product between, zero cut-off. The Modified-falls-back-to-base behaviour of the weight accessors, effective scope and requirement weights are decided by the C20 obligations of all environmental and base metrics, re-evaluated here."
	k := e.newScoreKit(&spec.V3, "score-term")
	if k == nil {
		return
	}
	c.Floor("score-term", 7)
	c.Floor("weight", 200)
	c.Floor("constructor-default", 11)
	e.guardPanics("score-term", "v3 Environmental.Score reference", func() {
		e.termV3Env(k)
		e.roundUpReference(k, "round-up-helper")
		k.validChain("valid-chain")
	})
	e.weightObligations(&spec.V3, "AV", "AC", "PR", "UI", "S", "C", "I", "A", "E", "RL", "RC", "CR", "IR", "AR", "MAV", "MAC", "MPR", "MUI", "MS", "MC", "MI", "MA")
	e.constructorDefaults(k.level("Environmental"), "constructor-default")
	e.versionTables()
	e.objectIntegrity(&spec.V3, "Environmental")
}

func (e *Env) termV3Base(k *scoreKit) bool {
	B := k.level("Base")
	ref, _ := v3BaseRef(k, B)
	_, ok := k.compareScore("score-term", B.Method("Score"), ref)
	return ok
}

func (e *Env) termV3Temporal(k *scoreKit) bool {
	T, B := k.level("Temporal"), k.level("Base")
	valid := k.valid(T, T)
	prod := ir.Mul(ir.Mul(ir.Mul(k.method(T, B, "Score"), k.w(T, "E")), k.w(T, "RL")), k.w(T, "RC"))
	ref := []refLeaf{
		{"invalid object", []*ir.Term{ir.NotCond(valid)}, fl(0)},
		{"valid", []*ir.Term{valid}, k.rnd("roundUp", prod)},
	}
	// the same equation with the base score written out (a Temporal.Score that calls an unexported helper holding
	// the base arithmetic instead of the exported Base.Score, whose validity test it has already made): every
	// branch of the base equation, seen from the temporal object, times the temporal weights
	baseRef, _ := v3BaseRef(k, T)
	expanded := []refLeaf{{"invalid object", []*ir.Term{ir.NotCond(valid)}, fl(0)}}
	for _, b := range baseRef[1:] {
		gs := append([]*ir.Term{valid}, b.guards...)
		expanded = append(expanded, refLeaf{"valid, base: " + b.name, gs, k.rnd("roundUp", ir.Mul(ir.Mul(ir.Mul(b.ret, k.w(T, "E")), k.w(T, "RL")), k.w(T, "RC")))})
	}
	_, ok := k.compareScoreAny("score-term", T.Method("Score"), ref, expanded)
	return ok
}

func (e *Env) termV3Env(k *scoreKit) bool {
	E := k.level("Environmental")
	_, ok := k.compareScore("score-term", E.Method("Score"), v3EnvRef(k))
	return ok
}

// v3EnvRef is the FIRST v3.0/v3.1 environmental equation as guarded reference leaves.
func v3EnvRef(k *scoreKit) []refLeaf {
	{
		E := k.level("Environmental")
		valid := k.valid(E, E)
		one := fl(1)
		w := func(n string, a ...string) *ir.Term { return k.w(E, n, a...) }
		pair := func(r, m, b string) *ir.Term { return ir.Sub(one, ir.Mul(w(r), w(m, b))) }
		miss := k.mathCall("Min", ir.Sub(one, ir.Mul(ir.Mul(pair("CR", "MC", "C"), pair("IR", "MI", "I")), pair("AR", "MA", "A"))), fl(0.915))
		changed := k.pred(E, "MS", "IsChanged", "S")
		v31c, _ := k.pkg.Scope().Lookup("V3_1").(*types.Const)
		if v31c == nil {
			panic("constant V3_1 not found")
		}
		is31 := ir.Bin("==", k.fld(E, "Ver"), ir.Const(v31c.Val(), v31c.Type()))
		mi31 := ir.Sub(ir.Mul(fl(7.52), ir.Sub(miss, fl(0.029))), ir.Mul(fl(3.25), k.mathCall("Pow", ir.Sub(ir.Mul(miss, fl(0.9731)), fl(0.02)), fl(13))))
		mi30 := ir.Sub(ir.Mul(fl(7.52), ir.Sub(miss, fl(0.029))), ir.Mul(fl(3.25), k.mathCall("Pow", ir.Sub(miss, fl(0.02)), fl(15))))
		miU := ir.Mul(fl(6.42), miss)
		mexp := ir.Mul(ir.Mul(ir.Mul(ir.Mul(fl(8.22), w("MAV", "AV")), w("MAC", "AC")), w("MPR", "MS", "S", "PR")), w("MUI", "UI"))
		t := func(x *ir.Term) *ir.Term { return ir.Mul(ir.Mul(ir.Mul(x, w("E")), w("RL")), w("RC")) }
		outC := func(mi *ir.Term) *ir.Term {
			return k.rnd("roundUp", t(k.rnd("roundUp", k.mathCall("Min", ir.Mul(fl(1.08), ir.Add(mi, mexp)), fl(10)))))
		}
		outU := k.rnd("roundUp", t(k.rnd("roundUp", k.mathCall("Min", ir.Add(miU, mexp), fl(10)))))
		ref := []refLeaf{
			{"invalid object", []*ir.Term{ir.NotCond(valid)}, fl(0)},
			{"scope changed, v3.1, impact <= 0", []*ir.Term{valid, changed, is31, le0(mi31)}, fl(0)},
			{"scope changed, v3.1", []*ir.Term{valid, changed, is31, ir.NotCond(le0(mi31))}, outC(mi31)},
			{"scope changed, v3.0, impact <= 0", []*ir.Term{valid, changed, ir.NotCond(is31), le0(mi30)}, fl(0)},
			{"scope changed, v3.0", []*ir.Term{valid, changed, ir.NotCond(is31), ir.NotCond(le0(mi30))}, outC(mi30)},
			{"scope unchanged, impact <= 0", []*ir.Term{valid, ir.NotCond(changed), le0(miU)}, fl(0)},
			{"scope unchanged", []*ir.Term{valid, ir.NotCond(changed), ir.NotCond(le0(miU))}, outU},
		}
		return ref
	}
}

// ---------------------------------------------------------------------------

// v2BaseEq returns the (guarded) base equation applied to impact x, from receiver level `from`.
func v2BaseEq(k *scoreKit, from *facts.Level, x *ir.Term) (zero, nonzero *ir.Term, isZero *ir.Term) {
	w := func(n string) *ir.Term { return k.w(from, n) }
	expl := kf("exploitability-subscore", ir.Mul(ir.Mul(ir.Mul(fl(20), w("AV")), w("AC")), w("Au")))
	inner := ir.Sub(ir.Add(ir.Mul(fl(0.6), x), ir.Mul(fl(0.4), expl)), fl(1.5))
	zero = k.rnd("round1", ir.Mul(inner, fl(0)))
	nonzero = k.rnd("round1", ir.Mul(inner, fl(1.176)))
	isZero = ir.Bin("==", x, fl(0))
	return
}

func (e *Env) reportHits(hits []kfHit, helper string) {
	for _, h := range hits {
		e.C.Fail("rounding-point", fmt.Sprintf("helper=%s operand=%s", helper, h.role), h.pos,
			"the sub-score is rounded to two decimals (in "+h.fn+") before it is used; the specification (and the property: 'evaluated exactly on the unrounded sub-scores') rounds only the final score")
	}
}

func c04(e *Env) {
	scoreBoiler(e)
	c := e.C
	c.Explanation = "v2 (*Base).Score (with (*Base).score inlined by substitution) and (*Temporal).Score (with (*Temporal).score inlined) are extracted as guarded terms and compared with the FIRST v2 base and temporal equations; the v2 base/temporal weight tables are decided by the C20 obligations re-evaluated here. Rounding-point discipline: every application of a rounding helper on the way from a weight to the result must be one the specification has; extra applications are violations unless listed in known_findings.txt by function, helper and operand."
	k := e.newScoreKit(&spec.V2, "score-term")
	if k == nil {
		return
	}
	c.Floor("score-term", 6)
	c.Floor("weight", 30)
	e.guardPanics("score-term", "v2 Base/Temporal reference", func() {
		e.termV2BaseTemporal(k, true)
		k.validChain("valid-chain")
	})
	e.weightObligations(&spec.V2, "AV", "AC", "Au", "C", "I", "A", "E", "RL", "RC")
	e.objectIntegrity(&spec.V2, "Temporal")
}

func (e *Env) termV2BaseTemporal(k *scoreKit, report bool) {
	{
		B, T := k.level("Base"), k.level("Temporal")
		helper := "round-to-2-decimals" // identified by shape (math.Round(x*100)/100), not by name
		// Base
		valid := k.valid(B, B)
		one := fl(1)
		w := func(n string) *ir.Term { return k.w(B, n) }
		imp := kf("impact-subscore", ir.Mul(fl(10.41), ir.Sub(one, ir.Mul(ir.Mul(ir.Sub(one, w("C")), ir.Sub(one, w("I"))), ir.Sub(one, w("A"))))))
		z, nz, isz := v2BaseEq(k, B, imp)
		ref := []refLeaf{
			{"invalid object", []*ir.Term{ir.NotCond(valid)}, fl(0)},
			{"impact == 0", []*ir.Term{valid, isz}, z},
			{"impact != 0", []*ir.Term{valid, ir.NotCond(isz)}, nz},
		}
		hits, _ := k.compareScore("score-term", B.Method("Score"), ref)
		if report {
			e.reportHits(hits, helper)
		}
		// Temporal
		validT := k.valid(T, T)
		empty := k.method(T, T, "IsEmpty")
		bs := k.method(T, B, "Score")
		prod := ir.Mul(ir.Mul(ir.Mul(bs, k.w(T, "E")), k.w(T, "RL")), k.w(T, "RC"))
		refT := []refLeaf{
			{"invalid object", []*ir.Term{ir.NotCond(validT)}, fl(0)},
			{"temporal group absent", []*ir.Term{validT, empty}, bs},
			{"temporal group present", []*ir.Term{validT, ir.NotCond(empty)}, k.rnd("round1", prod)},
		}
		hits, _ = k.compareScore("score-term", T.Method("Score"), refT)
		if report {
			e.reportHits(hits, helper)
		}
	}
}

func c05(e *Env) {
	scoreBoiler(e)
	c := e.C
	c.Explanation = "v2 (*Environmental).Score (with (*Base).score and (*Temporal).score inlined by substitution) is extracted as guarded terms and compared with the FIRST v2 environmental equations: AdjustedImpact = min(10, 10.41*(1-(1-C*CR)(1-I*IR)(1-A*AR))) fed to the same base equation (f() on the adjusted impact), temporal equation on the adjusted base, round1((AT + (10-AT)*CDP)*TD), and the empty-group shortcuts. Environmental weight tables via the C20 obligations. Rounding-point discipline as in C04."
	c.NotDecided = append(c.NotDecided, "the negative-score corner of the specification's own equation (excluded by the property statement)")
	k := e.newScoreKit(&spec.V2, "score-term")
	if k == nil {
		return
	}
	c.Floor("score-term", 6)
	c.Floor("weight", 50)
	e.guardPanics("score-term", "v2 Environmental reference", func() {
		e.termV2Env(k, true)
		k.validChain("valid-chain")
	})
	e.weightObligations(&spec.V2, "AV", "AC", "Au", "C", "I", "A", "E", "RL", "RC", "CDP", "TD", "CR", "IR", "AR")
	e.objectIntegrity(&spec.V2, "Environmental")
}

func (e *Env) termV2Env(k *scoreKit, report bool) {
	{
		B, T, E := k.level("Base"), k.level("Temporal"), k.level("Environmental")
		helper := "round-to-2-decimals" // identified by shape (math.Round(x*100)/100), not by name
		valid := k.valid(E, E)
		one := fl(1)
		w := func(n string) *ir.Term { return k.w(E, n) }
		pair := func(m, r string) *ir.Term { return ir.Sub(one, ir.Mul(w(m), w(r))) }
		adj := k.mathCall("Min", fl(10), kf("adjusted-impact", ir.Mul(fl(10.41), ir.Sub(one, ir.Mul(ir.Mul(pair("C", "CR"), pair("I", "IR")), pair("A", "AR"))))))
		z, nz, isz := v2BaseEq(k, E, adj)
		emptyE := k.method(E, E, "IsEmpty")
		emptyT := k.method(E, T, "IsEmpty")
		bs := k.method(E, B, "Score")
		tmp := func(b *ir.Term) *ir.Term {
			return k.rnd("round1", ir.Mul(ir.Mul(ir.Mul(b, w("E")), w("RL")), w("RC")))
		}
		env := func(at *ir.Term) *ir.Term {
			return k.rnd("round1", ir.Mul(ir.Add(at, ir.Mul(ir.Sub(fl(10), at), w("CDP"))), w("TD")))
		}
		ref := []refLeaf{
			{"invalid object", []*ir.Term{ir.NotCond(valid)}, fl(0)},
			{"no environmental, no temporal group", []*ir.Term{valid, emptyE, emptyT}, bs},
			{"no environmental group", []*ir.Term{valid, emptyE, ir.NotCond(emptyT)}, tmp(bs)},
			{"adjusted impact == 0, no temporal group", []*ir.Term{valid, ir.NotCond(emptyE), isz, emptyT}, env(z)},
			{"adjusted impact != 0, no temporal group", []*ir.Term{valid, ir.NotCond(emptyE), ir.NotCond(isz), emptyT}, env(nz)},
			{"adjusted impact == 0", []*ir.Term{valid, ir.NotCond(emptyE), isz, ir.NotCond(emptyT)}, env(tmp(z))},
			{"adjusted impact != 0", []*ir.Term{valid, ir.NotCond(emptyE), ir.NotCond(isz), ir.NotCond(emptyT)}, env(tmp(nz))},
		}
		// the same with the two "no environmental group" branches written as the temporal level's own Score() (which
		// C04 compares with exactly those two terms; valid(E) implies valid(T) by valid-chain)
		alt := []refLeaf{ref[0], {"no environmental group (temporal score)", []*ir.Term{valid, emptyE}, k.method(E, T, "Score")}}
		alt = append(alt, ref[3:]...)
		hits, _ := k.compareScoreAny("score-term", E.Method("Score"), ref, alt)
		if report {
			e.reportHits(hits, helper)
		}
	}
}

// constructorDefaults: the level's constructor initialises every optional
// metric field with the constant whose code is X (v3) — identified through
// the code table, not by name.
func (e *Env) constructorDefaults(l *facts.Level, rule string) {
	ctor := e.P.LookupFunc(l.Version.Pkg, "New"+l.Spec.Name)
	if ctor == nil {
		e.C.Fail(rule, l.String(), "", "constructor New"+l.Spec.Name+" not found")
		return
	}
	inits := e.ctorInits(ctor, l, rule)
	if inits == nil {
		return
	}
	for _, fv := range l.Metrics {
		m := l.Version.Metric(fv.Name())
		cons := fmt.Sprintf("%s field %s", fname(ctor), fv.Name())
		v, ok := inits[fv]
		if !ok {
			e.C.Fail(rule, cons, e.P.Pos(ctor.Pos()), "field is not initialised (zero value = invalid)")
			continue
		}
		code, okc, why := e.codeOf(fv.Type(), v)
		if !okc {
			e.C.Undecided(rule, cons, e.P.Pos(ctor.Pos()), why)
			continue
		}
		wantND := false
		for _, sc := range m.Codes {
			if sc.NotDefined {
				wantND = true
			}
		}
		if l.Version.Name == "v3" && wantND {
			e.C.Check(code == "X", rule, cons, e.P.Pos(ctor.Pos()), "initialised to "+v.String()+" (code X)", fmt.Sprintf("initialised to %s (code %q), an omitted metric must count as Not Defined (X)", v, code))
		} else {
			e.C.Check(code == "", rule, cons, e.P.Pos(ctor.Pos()), "initialised to the unknown/invalid value "+v.String(), fmt.Sprintf("initialised to %s (code %q) instead of the unknown/invalid value", v, code))
		}
	}
}
