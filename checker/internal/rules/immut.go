package rules

import (
	"fmt"

	"cvsslint/internal/facts"
	"cvsslint/internal/load"
)

// tableImmutability: no package-level variable of the module is written
// outside the synthetic package initialisers (rule E2 of DESIGN.md). It is
// evaluated over every function, closure and declared init function of every
// module package present in the loaded variant.
func (e *Env) tableImmutability(rule string, pkgs ...string) {
	only := map[string]bool{}
	for _, r := range pkgs {
		only[load.ModPath+"/"+r] = true
	}
	ef := e.F.Effects()
	n := 0
	bad := map[string]bool{}
	for _, fn := range ef.All {
		if fn.Synthetic != "" {
			continue // package initialiser / wrappers: the only legitimate writers
		}
		n++
		fe := ef.Funcs[fn]
		for _, w := range fe.Writes {
			if w.Root.Kind != facts.RGlobal {
				continue
			}
			if !load.IsModule(w.Root.Global.Pkg.Pkg.Path()) {
				continue
			}
			if len(only) > 0 && !only[w.Root.Global.Pkg.Pkg.Path()] {
				continue // a property is only concerned with the variables of the packages it is anchored in
			}
			g := w.Root.Global
			key := fmt.Sprintf("%s.%s written in %s", load.Rel(g.Pkg.Pkg.Path()), g.Name(), fn.String())
			if bad[key] {
				continue
			}
			bad[key] = true
			e.C.Fail(rule, key, e.P.Pos(w.Pos), "package-level variable modified after initialisation: "+ef.Describe(w))
		}
	}
	// one obligation per package-level variable of the library packages
	for _, t := range e.F.AllTabs {
		if len(only) > 0 && !only[t.Pkg.PkgPath] {
			continue
		}
		k := load.Rel(t.Pkg.PkgPath) + "." + t.Name
		hit := false
		for b := range bad {
			if len(b) > len(k) && b[:len(k)+1] == k+" " {
				hit = true
			}
		}
		if !hit {
			e.C.Ok(rule, k, e.P.Pos(t.Pos), fmt.Sprintf("no store, map update, delete or clear reaches it in %d functions", n))
		}
	}
	e.C.Analysed["functions_scanned_for_global_writes"] = n
}
