package rules

import (
	"fmt"
	"go/types"

	"golang.org/x/tools/go/ssa"

	"cvsslint/internal/facts"
	"cvsslint/internal/load"
)

// tableImmutability: no package-level variable of the module is written
// outside the synthetic package initialisers (rule E2 of DESIGN.md). It is
// evaluated over every function, closure and declared init function of every
// module package present in the loaded variant.
func (e *Env) tableImmutability(rule string, pkgs ...string) {
	e.tableImmutabilityOf(rule, false, pkgs...)
}

// dataTablesOf: the packages whose data tables (maps of strings, numbers, enumeration values: code, weight and
// name tables) the rules of a property read through the table model. The model reads their *initialisers*; that
// is the table's content only if nothing modifies it afterwards, which is therefore part of every such property.
var dataTablesOf = map[string][]string{
	"C01": {"v3/metric"}, "C02": {"v3/metric"}, "C03": {"v3/metric"},
	"C04": {"v2/metric"}, "C05": {"v2/metric"},
	"C07": {"v3/metric"}, "C08": {"v2/metric"},
	"C09": {"v3/metric", "v2/metric"}, "C10": {"v3/metric", "v2/metric"}, "C11": {"v3/metric", "v2/metric"},
	"C12": {"v3/metric", "v2/metric"}, "C13": {"v3/metric", "v2/metric"},
	"C17": {"v3/report/names", "v3/metric"},
}

// sentinelUsers: properties whose rules rely on the sentinels being non-nil, distinct and immutable
// (errs.Wrap(sentinel) is a non-nil error; a rejection "with an error"; errors.Is matches exactly one sentinel).
var sentinelUsers = map[string]bool{"C07": true, "C08": true, "C10": true, "C12": true, "C19": true}

func (e *Env) tableImmutabilityOf(rule string, dataOnly bool, pkgs ...string) {
	only := map[string]bool{}
	for _, r := range pkgs {
		only[load.ModPath+"/"+r] = true
	}
	ef := e.F.Effects()
	n := 0
	bad := map[string]bool{}
	for _, fn := range ef.All {
		// The synthetic package initialiser is the legitimate writer of its own package's variables - but only with
		// the stores it contains itself (the variable's initialiser). What it reaches through a call (a
		// var x = f(table) whose f modifies the table it is handed) or writes in another package is a modification.
		isInit := fn.Synthetic != ""
		if isInit && fn.Name() != "init" {
			continue // wrappers, bound-method thunks
		}
		n++
		fe := ef.Funcs[fn]
		if fe == nil {
			continue
		}
		for _, w := range fe.Writes {
			if w.Root.Kind != facts.RGlobal {
				continue
			}
			if w.Fn != nil && w.Fn.Synthetic != "" && w.Fn.Name() == "init" && w.Root.Global.Pkg == w.Fn.Pkg {
				continue // the variable's own initialiser, wherever it is reached from (initialisers call the imported packages')
			}
			if !load.IsModule(w.Root.Global.Pkg.Pkg.Path()) {
				continue
			}
			if len(only) > 0 && !only[w.Root.Global.Pkg.Pkg.Path()] {
				continue // a property is only concerned with the variables of the packages it is anchored in
			}
			g := w.Root.Global
			if dataOnly {
				isData := false
				for _, t := range e.F.AllTabs {
					if t.Var != nil && t.Var.Pkg() == g.Pkg.Pkg && t.Var.Name() == g.Name() && t.IsData() {
						isData = true
					}
				}
				if !isData {
					continue
				}
			}
			key := fmt.Sprintf("%s.%s written in %s", load.Rel(g.Pkg.Pkg.Path()), g.Name(), fn.String())
			if bad[key] {
				continue
			}
			bad[key] = true
			e.C.Fail(rule, key, e.P.Pos(w.Pos), "package-level variable modified after initialisation: "+ef.Describe(w))
		}
	}
	// a reference to a table stored into other non-local memory (a field of another package-level variable, of a
	// parameter) makes that memory an alias: writes through it are writes to the table, and they are not attributed
	// to it above. Such stores are reported themselves.
	for _, fn := range ef.All {
		for _, b := range fn.Blocks {
			for _, in := range b.Instrs {
				st, ok := in.(*ssa.Store)
				if !ok {
					continue
				}
				if _, isMap := st.Val.Type().Underlying().(*types.Map); !isMap {
					continue
				}
				// the table's own initialisation: *G = <fresh map>
				if g, ok := st.Addr.(*ssa.Global); ok {
					if _, fresh := st.Val.(*ssa.MakeMap); fresh && g.Pkg == fn.Pkg {
						continue
					}
				}
				nonLocal := false
				for _, r := range ef.Roots(st.Addr) {
					if r.Kind != facts.RLocal && r.Kind != facts.RNone {
						nonLocal = true
					}
				}
				if !nonLocal {
					continue
				}
				for _, r := range ef.Roots(st.Val) {
					if r.Kind != facts.RGlobal || !load.IsModule(r.Global.Pkg.Pkg.Path()) {
						continue
					}
					if len(only) > 0 && !only[r.Global.Pkg.Pkg.Path()] {
						continue
					}
					key := fmt.Sprintf("%s.%s aliased in %s", load.Rel(r.Global.Pkg.Pkg.Path()), r.Global.Name(), fn.String())
					if !bad[key] {
						bad[key] = true
						e.C.Fail(rule, key, e.P.Pos(st.Pos()), "a reference to this table is stored in other memory: whatever is written through that alias modifies the table")
					}
				}
			}
		}
	}
	// one obligation per package-level variable of the library packages
	for _, t := range e.F.AllTabs {
		if len(only) > 0 && !only[t.Pkg.PkgPath] {
			continue
		}
		if dataOnly && !t.IsData() {
			continue
		}
		k := load.Rel(t.Pkg.PkgPath) + "." + t.Name
		hit := false
		for b := range bad {
			if len(b) > len(k) && b[:len(k)+1] == k+" " {
				hit = true
			}
		}
		if !hit {
			e.C.Ok(rule, k, e.P.Pos(t.Pos), fmt.Sprintf("no store, map update, delete or clear reaches it in %d functions", n))
		}
	}
	e.C.Analysed["functions_scanned_for_global_writes"] = n
}
