package rules

import (
	"fmt"
	"go/constant"
	"go/types"
	"strings"

	"cvsslint/internal/facts"
	"cvsslint/internal/ir"
	"cvsslint/internal/spec"

	"golang.org/x/tools/go/ssa"
)

// The Decode rules work on the paths of Decode with its token loop cut at the
// loop header (ir.LeafOptions.CutLoops) and unexported helpers expanded in
// place. There are five kinds of path:
//
//	early   entry -> return, before the loop
//	init    entry -> loop header                (initial loop state)
//	back    header -> header, one iteration     (next loop state)
//	inloop  header -> return, from an iteration
//	after   header -> return, loop condition false
//
// On the last three the loop state (index, remembered error) is symbolic, so
// they describe an arbitrary iteration; what the code before the loop
// established (object decoded into, split input, version) carries over.

type decodePaths struct {
	Level *facts.Level
	Fn    *types.Func
	SF    *ssa.Function
	V3    bool
	All   []*ir.Leaf
	Early []*ir.Leaf
	Init  []*ir.Leaf
	Back  []*ir.Leaf
	InLp  []*ir.Leaf
	After []*ir.Leaf

	Header *ssa.BasicBlock
	Idx    *ssa.Phi // induction variable
	Rest   *ssa.Phi // scanning form: the part of the input not yet visited
	More   *ssa.Phi // scanning form: whether another element follows
	Last   *ssa.Phi // remembered error
	Cond   *ir.Term // loop condition: the guard taken into the body
	Elem   *ir.Term // the element visited in the iteration: T[ι]
	Split  *ir.Term // strings.Split(vector, "/")
	First  int64    // index in Split of the first element visited

	vec   *ir.Term
	one   *types.Func
	gv    *ir.Term // GetVersion(Split[0]) (v3)
	verT  types.Type
	verZ  *ir.Term
	isNSM func(r *ir.Term) *ir.Term
}

// cutOf returns the loop cut of a path (nil: the path never reached the loop).
func cutOf(lf *ir.Leaf) *ir.Cut {
	if len(lf.Cuts) == 0 {
		return nil
	}
	return &lf.Cuts[0]
}

// after: the guards / effects collected after the loop header was entered.
func guardsAfter(lf *ir.Leaf) []*ir.Term {
	c := cutOf(lf)
	if c == nil || c.NG > len(lf.Guards) {
		return nil
	}
	return lf.Guards[c.NG:]
}

func effectsAfter(lf *ir.Leaf) []ir.Effect {
	c := cutOf(lf)
	if c == nil || c.NE > len(lf.Effects) {
		return nil
	}
	return lf.Effects[c.NE:]
}

func ext(call *ir.Term, i int) *ir.Term {
	return &ir.Term{Op: ir.OExtract, N: i, Args: []*ir.Term{call}}
}

// callsOf returns the call effects of fn among effs.
func callsOf(effs []ir.Effect, fn *types.Func) []ir.Effect {
	var out []ir.Effect
	for _, ef := range effs {
		if ef.Kind == "call" && ef.Val.Op == ir.OCall && ef.Val.Obj == types.Object(fn) {
			out = append(out, ef)
		}
	}
	return out
}

// objectOf: the object a path decodes into: the receiver under receiver != nil, the result of the level's
// constructor (called on that path) under receiver == nil.
func (d *decodePaths) objectOf(e *Env, lf *ir.Leaf) (*ir.Term, string) {
	l := d.Level
	recv := ir.Param(0)
	isNil := ir.Bin("==", recv, nilOf(l.Ptr()))
	switch {
	case hasGuard(lf, ir.NotCond(isNil)):
		return recv, ""
	case hasGuard(lf, isNil):
		ctor := e.P.LookupFunc(l.Version.Pkg, "New"+l.Spec.Name)
		if ctor == nil {
			return nil, "constructor New" + l.Spec.Name + " not found"
		}
		if len(callsOf(lf.Effects, ctor)) == 0 {
			return nil, "the receiver is nil on this path and New" + l.Spec.Name + "() is not called"
		}
		return ir.Call(ctor), ""
	}
	return nil, "the receiver is used without a nil test"
}

func (e *Env) modelDecodePaths(l *facts.Level, v3 bool) *decodePaths {
	c := e.C
	rule := "decode-skeleton"
	d := &decodePaths{Level: l, V3: v3, vec: ir.Param(1), one: l.DecodeOne}
	d.Fn = l.Method("Decode")
	if d.Fn == nil {
		c.Fail(rule, l.String()+".Decode", "", "method not found")
		return nil
	}
	who := fname(d.Fn)
	pos := e.P.Pos(d.Fn.Pos())
	d.SF = e.P.SSAFunc(d.Fn)
	if d.SF == nil || len(d.SF.Blocks) == 0 {
		c.Undecided(rule, who, pos, "no SSA body")
		return nil
	}
	sig := d.Fn.Type().(*types.Signature)
	if sig.Params().Len() != 1 || sig.Results().Len() != 2 || !types.Identical(sig.Results().At(0).Type(), l.Ptr()) {
		c.Fail(rule, who, pos, "signature is not Decode(string) (*"+l.Spec.Name+", error)")
		return nil
	}
	if d.one == nil {
		c.Undecided(rule, who, pos, "the level's per-token decoder was not identified")
		return nil
	}
	leaves, err := ir.Leaves(d.SF, ir.LeafOptions{Forward: true, Effects: true, MaxPaths: 20000, Inline: e.inlineHelpers(), CutLoops: true})
	if err != nil {
		c.Undecided(rule, who, pos, err.Error())
		return nil
	}
	d.All = leaves
	d.Split = ir.Call(e.externFunc(l.Pkg.Types, "strings", "Split"), d.vec, ir.Const(constant.MakeString("/"), types.Typ[types.String]))
	for _, lf := range leaves {
		if len(lf.Cuts) > 1 || (len(lf.Cuts) == 1 && d.Header != nil && lf.Cuts[0].Header != d.Header) || (lf.End != nil && d.Header != nil && lf.End.Header != d.Header) {
			c.Undecided(rule, who, pos, "more than one loop in Decode")
			return nil
		}
		if len(lf.Cuts) == 1 {
			d.Header = lf.Cuts[0].Header
		}
		if lf.End != nil {
			d.Header = lf.End.Header
		}
	}
	if d.Header == nil {
		c.Undecided(rule, who, pos, "no token loop found in Decode (the tokens are not visited by a loop)")
		return nil
	}
	// --- the loop: induction variable, condition, element
	for _, in := range d.Header.Instrs {
		p, ok := in.(*ssa.Phi)
		if !ok {
			break
		}
		switch {
		case types.Identical(p.Type(), errorType):
			if d.Last != nil {
				c.Undecided(rule, who, pos, "two loop-carried error variables")
				return nil
			}
			d.Last = p
		case isIntType(p.Type()):
			if d.Idx != nil {
				c.Undecided(rule, who, pos, "two loop-carried integer variables")
				return nil
			}
			d.Idx = p
		case isBasicKind(p.Type(), types.String) && d.Rest == nil:
			d.Rest = p
		case isBasicKind(p.Type(), types.Bool) && d.More == nil:
			d.More = p
		default:
			c.Undecided(rule, who, e.P.Pos(p.Pos()), "the token loop carries state that is neither an index nor an error ("+p.Comment+" "+p.Type().String()+"): the rule knows no invariant for it")
			return nil
		}
	}
	scan := d.Idx == nil && d.Rest != nil && d.More != nil
	if !scan && (d.Rest != nil || d.More != nil) {
		c.Undecided(rule, who, pos, "the token loop carries state that is neither an index, an error nor the (rest, more) pair of a strings.Cut scan: the rule knows no invariant for it")
		return nil
	}
	if d.Idx == nil && !scan {
		c.Undecided(rule, who, pos, "the token loop has no integer induction variable (tokeniser other than a loop over the split input)")
		return nil
	}
	for _, lf := range leaves {
		switch {
		case lf.End != nil && !lf.End.Back:
			d.Init = append(d.Init, lf)
		case lf.End != nil:
			d.Back = append(d.Back, lf)
		case cutOf(lf) == nil:
			d.Early = append(d.Early, lf)
		}
	}
	if len(d.Init) == 0 || len(d.Back) == 0 {
		c.Undecided(rule, who, pos, "the loop is never entered or never repeated")
		return nil
	}
	if scan {
		return e.scanLoop(d, leaves, who, pos, v3)
	}
	// the loop condition is the first guard after the cut on the back paths
	iv := ir.PhiVar(d.Idx)
	for _, lf := range d.Back {
		ga := guardsAfter(lf)
		if len(ga) == 0 {
			c.Fail("token-loop", who, pos, "an iteration is repeated without any test: the loop does not terminate with the tokens")
			return nil
		}
		if d.Cond == nil {
			d.Cond = ga[0]
		} else if d.Cond.Key() != ga[0].Key() {
			c.Undecided(rule, who, pos, "the iterations do not start with one and the same loop condition")
			return nil
		}
		if lf.End.State[d.Idx] == nil || lf.End.State[d.Idx].Key() != ir.Add(iv, intConst(1)).Key() {
			c.Fail("token-loop", who, pos, "the loop index is not advanced by exactly one per iteration")
			return nil
		}
	}
	// cond is  ι < len(T)  with ι = idx (+1)
	if d.Cond.Op != ir.OBin || d.Cond.Str != "<" || d.Cond.Args[1].Op != ir.OBuiltin || d.Cond.Args[1].Str != "len" {
		c.Undecided(rule, who, pos, "the loop condition is not  index < len(tokens): "+d.Cond.Pretty())
		return nil
	}
	iota := d.Cond.Args[0]
	T := d.Cond.Args[1].Args[0]
	off := int64(-1)
	switch iota.Key() {
	case iv.Key():
		off = 0
	case ir.Add(iv, intConst(1)).Key():
		off = 1
	default:
		c.Undecided(rule, who, pos, "the loop condition does not test the loop index: "+d.Cond.Pretty())
		return nil
	}
	mentionsState := false
	ir.Walk(T, func(x *ir.Term) bool {
		if x.Op == ir.OPhi {
			mentionsState = true
		}
		return true
	})
	if mentionsState {
		c.Undecided(rule, who, pos, "the slice ranged over changes inside the loop")
		return nil
	}
	start := int64(-1 << 40)
	for _, lf := range d.Init {
		s0 := lf.End.State[d.Idx]
		v, ok := int64Const(s0)
		if !ok {
			c.Undecided(rule, who, pos, "the loop index does not start at a constant")
			return nil
		}
		if start != -1<<40 && start != v {
			c.Undecided(rule, who, pos, "the loop index starts at different values on different paths")
			return nil
		}
		start = v
	}
	firstIota := start + off
	if firstIota < 0 {
		c.Fail("token-loop", who, pos, "the loop starts before the first element")
		return nil
	}
	sliced := &ir.Term{Op: ir.OSlice, Args: []*ir.Term{d.Split, intConst(1), {Op: ir.OConst}, {Op: ir.OConst}}}
	switch T.Key() {
	case d.Split.Key():
		d.First = firstIota
	case sliced.Key():
		d.First = firstIota + 1
	default:
		d.First = -1
		c.Check(false, "vector-split", who, pos, "", "the loop does not range over strings.Split(<unmodified parameter>, \"/\") (or its [1:]) but over "+clip(T.Pretty()))
		return nil
	}
	d.Elem = &ir.Term{Op: ir.OIndex, Args: []*ir.Term{T, iota}}
	for _, lf := range leaves {
		if lf.End != nil || cutOf(lf) == nil {
			continue
		}
		ga := guardsAfter(lf)
		switch {
		case len(ga) > 0 && ga[0].Key() == d.Cond.Key():
			d.InLp = append(d.InLp, lf)
		case len(ga) > 0 && ga[0].Key() == ir.NotCond(d.Cond).Key():
			d.After = append(d.After, lf)
		default:
			c.Undecided(rule, who, e.P.Pos(lf.Pos), "a path through the loop header does not start with the loop condition")
			return nil
		}
	}
	return e.finishDecodeModel(d, who, pos, v3)
}

// finishDecodeModel: what both loop forms share (version call, 'unsupported metric' test).
func (e *Env) finishDecodeModel(d *decodePaths, who, pos string, v3 bool) *decodePaths {
	c := e.C
	l := d.Level
	if v3 {
		gvf := e.P.LookupFunc(l.Version.Pkg, "GetVersion")
		if gvf == nil {
			c.Fail("version-prefix", who, pos, "GetVersion not found")
			return nil
		}
		d.gv = ir.Call(gvf, idx(d.Split, 0))
		d.verT = gvf.Type().(*types.Signature).Results().At(0).Type()
		if en := e.F.EnumOf(d.verT); en != nil && en.Zero != nil {
			d.verZ = ir.Const(en.Zero.Val(), d.verT)
		}
	}
	isFn := e.externFunc(l.Pkg.Types, "github.com/goark/errs", "Is")
	nsm := e.sentinelGlobal("ErrNotSupportMetric")
	d.isNSM = func(r *ir.Term) *ir.Term {
		if isFn == nil || nsm == nil {
			return nil
		}
		return ir.Call(isFn, r, &ir.Term{Op: ir.OGlobal, Obj: nsm})
	}
	return d
}

func isIntType(t types.Type) bool {
	b, ok := t.Underlying().(*types.Basic)
	return ok && b.Info()&types.IsInteger != 0
}

func int64Const(t *ir.Term) (int64, bool) {
	if t == nil || t.Op != ir.OConst || t.C == nil || t.C.Kind() != constant.Int {
		return 0, false
	}
	return constant.Int64Val(t.C)
}

// nonNilErrTerm: the error term t is provably non-nil on the path: errs.Wrap of a sentinel or of something the
// path tested to be non-nil (errs.Wrap returns nil only for a nil argument), or a term the path tested itself.
func nonNilErrTerm(lf *ir.Leaf, t *ir.Term) bool {
	if hasGuard(lf, ir.Bin("!=", t, nilOf(errorType))) {
		return true
	}
	sent, inner, isWrap := sentinelOf(t)
	if !isWrap {
		return false
	}
	if sent != "" {
		return true // sentinels are non-nil and immutable (rules sentinel-distinct / table-immutability)
	}
	return inner != nil && nonNilErrTerm(lf, inner)
}

// decodeSkeleton applies the Decode-level rules of one level.
func (e *Env) decodeSkeleton(l *facts.Level, v3 bool) {
	c := e.C
	d := e.modelDecodePaths(l, v3)
	if d == nil {
		return
	}
	who := fname(d.Fn)
	pos := e.P.Pos(d.Fn.Pos())
	nilErr := nilOf(errorType)

	// --- split of the unmodified input, loop over all tokens
	c.Ok("vector-split", who, pos, `the tokens visited are elements of strings.Split(vector, "/") on the unmodified input`)
	want := int64(0)
	if v3 {
		want = 1
	}
	okLoop := c.Check(d.First == want, "token-loop", who+" first element", pos, fmt.Sprintf("the loop starts at element %d of the split input", want), fmt.Sprintf("the loop starts at element %d of the split input, expected %d", d.First, want))

	// every iteration: the own-level decodeOne on the element of this iteration, as the first thing done
	var objKeys = map[string]bool{}
	var rT *ir.Term
	body := append(append([]*ir.Leaf{}, d.Back...), d.InLp...)
	for _, lf := range body {
		obj, why := d.objectOf(e, lf)
		if obj == nil {
			c.Fail("nil-receiver-decode", who, e.P.Pos(lf.Pos), why)
			okLoop = false
			continue
		}
		objKeys[obj.Key()] = true
		calls := callsOf(effectsAfter(lf), d.one)
		if len(calls) != 1 {
			c.Fail("token-loop", who, e.P.Pos(lf.Pos), fmt.Sprintf("an iteration calls the own-level decodeOne %d times (a token is skipped or decoded twice)", len(calls)))
			okLoop = false
			continue
		}
		call := calls[0]
		wantCall := ir.Call(d.one, obj, d.Elem)
		if call.Val.Key() != wantCall.Key() {
			c.Fail("token-loop", who, e.P.Pos(call.Pos), "decodeOne is not applied to (the object decoded into, the element of this iteration) but as "+clip(call.Val.Pretty()))
			if len(call.Val.Args) >= 1 && call.Val.Args[0].Key() != obj.Key() {
				// the receiver of decodeOne is not the object that is returned: through a nil receiver that is a
				// dereference of nil (a method value bound before the nil guard), otherwise a result nothing was decoded into
				c.Fail("nil-receiver-decode", who, e.P.Pos(call.Pos), "decodeOne is called on "+clip(call.Val.Args[0].Pretty())+", not on the object decoded into ("+clip(obj.Pretty())+"): with a nil receiver that is the nil pointer itself")
			}
			okLoop = false
			continue
		}
		if call.NG != cutOf(lf).NG+1 {
			c.Fail("token-loop", who, e.P.Pos(call.Pos), "decodeOne is not the first thing done for each element (something may skip it)")
			okLoop = false
			continue
		}
		// nothing but len() before it in the iteration
		for _, ef := range effectsAfter(lf) {
			if ef.Pos == call.Pos && ef.Val != nil && ef.Val.Key() == call.Val.Key() {
				break
			}
			if ef.Kind == "call" && d.Elem.Op == ir.OExtract && len(d.Elem.Args) == 1 && ef.Val.Key() == d.Elem.Args[0].Key() {
				continue // the scanning step strings.Cut(rest, "/") that yields this iteration's element
			}
			if ef.Kind != "call" || ef.Val.Op != ir.OBuiltin {
				c.Fail("token-loop", who, e.P.Pos(ef.Pos), "something is done in the iteration before the element is handed to decodeOne: "+clip(describeEffect(ef)))
				okLoop = false
			}
		}
		// the per-path call term (object differs between the receiver / fresh-object paths)
		if obj.Op == ir.OParam {
			rT = wantCall
		} else if rT == nil {
			rT = wantCall
		}
	}
	for _, lf := range d.After {
		if len(callsOf(effectsAfter(lf), d.one)) != 0 {
			c.Fail("token-loop", who, e.P.Pos(lf.Pos), "decodeOne is called after the loop")
			okLoop = false
		}
	}
	for _, lf := range append(append([]*ir.Leaf{}, d.Early...), d.Init...) {
		if len(callsOf(lf.Effects, d.one)) != 0 {
			c.Fail("token-loop", who, e.P.Pos(lf.Pos), "decodeOne is called before the loop")
			okLoop = false
		}
	}
	if okLoop {
		c.Ok("token-loop", who, pos, fmt.Sprintf("own-level decodeOne applied to every element of the split input from index %d on, as the first thing done with it; index advanced by one; no other call of it", want))
	}

	// --- nil receiver idiom
	okObj := true
	for _, lf := range d.Init {
		obj, why := d.objectOf(e, lf)
		if obj == nil {
			okObj = false
			c.Fail("nil-receiver-decode", who, e.P.Pos(lf.Pos), why)
		}
	}
	if okObj {
		c.Ok("nil-receiver-decode", who, pos, "decodes into the receiver, or into a fresh New"+l.Spec.Name+"() when the receiver is nil")
	}

	// --- v3: version prefix
	if v3 {
		e.versionPrefixPaths(d, who)
	}

	// --- classification of every return
	seen := map[string]bool{}
	okDeferred := true
	rOf := func(lf *ir.Leaf) *ir.Term {
		obj, _ := d.objectOf(e, lf)
		if obj == nil {
			return nil
		}
		return ir.Call(d.one, obj, d.Elem)
	}
	lastV := (*ir.Term)(nil)
	if d.Last != nil {
		lastV = ir.PhiVar(d.Last)
	}
	lastGuard := func(lf *ir.Leaf) *ir.Term {
		if len(lf.Guards) == 0 {
			return nil
		}
		return lf.Guards[len(lf.Guards)-1]
	}
	// isLast: g is the condition that decides the rejection: it is on the path, and whatever the path tests after
	// it only chooses how the error value is dressed (every path through it is judged on its own: it must return
	// an error matching the cause's sentinel, and no path through it may succeed - success demands the negations)
	isLast := func(lf *ir.Leaf, g *ir.Term) bool {
		lg := lastGuard(lf)
		if lg != nil && lg.Key() == g.Key() {
			return true
		}
		return hasGuard(lf, g)
	}
	returns := append(append(append([]*ir.Leaf{}, d.Early...), d.InLp...), d.After...)
	for _, lf := range returns {
		if len(lf.Ret) != 2 {
			continue
		}
		p := e.P.Pos(lf.Pos)
		obj, _ := d.objectOf(e, lf)
		r0, r1 := lf.Ret[0], lf.Ret[1]
		// ---- success
		if isNilConst(r1) {
			cons := who + " success return"
			seen["success"] = true
			okS := true
			if cutOf(lf) == nil || len(guardsAfter(lf)) == 0 || guardsAfter(lf)[0].Key() != ir.NotCond(d.Cond).Key() {
				okS = false
				c.Fail("token-loop", who, p, "success is reachable without having visited every token (the loop can be left early)")
			}
			if obj == nil || r0.Key() != obj.Key() {
				okS = false
				c.Fail("result-exclusive", cons, p, "the success return does not hand out the object that was decoded into: "+clip(r0.Pretty()))
			} else if obj.Op != ir.OParam && !e.ctorReturnsFresh(l) {
				okS = false
				c.Fail("result-exclusive", cons, p, "the constructor's result is not provably non-nil")
			} else {
				c.Ok("result-exclusive", cons, p, "(decoded object, nil)")
			}
			if lastV != nil && !hasGuard(lf, ir.Bin("==", lastV, nilErr)) {
				okDeferred = false
				c.Fail("deferred-error", who, p, "success is reachable although an 'unsupported metric' error was remembered")
			}
			if v3 {
				c.Check(hasGuard(lf, ir.Bin("==", ext(d.gv, 1), nilErr)), "version-prefix", who+" prefix error", p, "success only if GetVersion reported no error", "success is reachable although GetVersion reported an error")
				c.Check(d.verZ != nil && hasGuard(lf, ir.Bin("!=", d.verZ, ext(d.gv, 0))), "version-prefix", who+" supported-version gate", p, "success only if the version is not the unknown version", "success is reachable with the unknown version")
				ge := l.Method("GetError")
				okG := ge != nil && obj != nil && hasGuard(lf, ir.Bin("==", ir.Call(ge, obj), nilErr))
				c.Check(okG, "completeness-gate", who, p, "success is reached only after the own-level GetError() returned nil on the decoded object", "the success return is not guarded by own-level GetError() == nil on the decoded object")
			} else {
				enc := l.Method("Encode")
				var encCall *ir.Term
				if enc != nil && obj != nil {
					encCall = ir.Call(enc, obj)
				}
				c.Check(encCall != nil && hasGuard(lf, ir.Bin("==", ext(encCall, 1), nilErr)), "completeness-gate", who, p, "success is reached only after the own-level Encode() reported no error", "the success return is not guarded by own-level Encode() error == nil")
				c.Check(encCall != nil && hasGuard(lf, ir.Bin("==", ext(encCall, 0), d.vec)), "canonical-order", who, p, "success is reached only if the input equals the own-level re-encoding (vector == enc)", "the success return is not guarded by vector == own-level Encode() result")
			}
			_ = okS
			continue
		}
		// ---- rejections: (nil, non-nil error), one of the specification's causes as the deciding condition
		if !isNilConst(r0) {
			c.Fail("result-exclusive", who+" error return", p, "an error return also hands out a metrics object: "+clip(r0.Pretty()))
		}
		kind := ""
		sent, inner, isWrap := sentinelOf(r1)
		cause := func(k string) string { return who + " " + k + " return" }
		switch {
		case v3 && cutOf(lf) == nil && isLast(lf, ir.Bin("!=", ext(d.gv, 1), nilErr)):
			kind = "prefix"
			c.Check(isWrap && sent == "" && inner != nil && inner.Key() == ext(d.gv, 1).Key(), "sentinel-pairing", cause(kind)+" (prefix)", p, "GetVersion's error passed on", "the prefix error is replaced by something else: "+clip(r1.Pretty()))
		case v3 && cutOf(lf) == nil && d.verZ != nil && isLast(lf, ir.Bin("==", d.verZ, ext(d.gv, 0))) && hasGuard(lf, ir.Bin("==", ext(d.gv, 1), nilErr)):
			kind = "version"
			c.Check(isWrap && sent == spec.Sentinels["version"], "sentinel-pairing", cause(kind)+" (version)", p, "cvsserr.ErrNotSupportVer", "an unsupported version is reported as cvsserr."+sent)
		case cutOf(lf) != nil && guardsAfter(lf)[0].Key() == d.Cond.Key():
			// from an iteration: only decodeOne errors other than 'unsupported metric' abort
			r := rOf(lf)
			if r != nil && d.isNSM(r) != nil && hasGuard(lf, ir.Bin("!=", r, nilErr)) && isLast(lf, ir.NotCond(d.isNSM(r))) {
				kind = "abort"
				if isWrap && inner != nil && inner.Key() == r.Key() {
					seen["abort"] = true
				} else {
					okDeferred = false
					c.Fail("deferred-error", who, p, "an error other than 'unsupported metric' is not returned as errs.Wrap(that error): "+clip(r1.Pretty()))
				}
			}
		case cutOf(lf) != nil && lastV != nil && isLast(lf, ir.Bin("!=", lastV, nilErr)):
			kind = "deferred"
			if r1.Key() == lastV.Key() || (isWrap && inner != nil && inner.Key() == lastV.Key()) {
				seen["deferred"] = true
			} else {
				okDeferred = false
				c.Fail("deferred-error", who, p, "the remembered 'unsupported metric' error is not the one returned: "+clip(r1.Pretty()))
			}
		case cutOf(lf) != nil && v3 && obj != nil && l.Method("GetError") != nil && isLast(lf, ir.Bin("!=", ir.Call(l.Method("GetError"), obj), nilErr)):
			kind = "incomplete"
			ge := ir.Call(l.Method("GetError"), obj)
			c.Check(r1.Key() == ge.Key() || (isWrap && inner != nil && inner.Key() == ge.Key()), "sentinel-pairing", cause(kind)+" (incomplete)", p, "GetError's error returned", "the completeness error is replaced by something else: "+clip(r1.Pretty()))
		case cutOf(lf) != nil && !v3 && obj != nil && l.Method("Encode") != nil:
			enc := ir.Call(l.Method("Encode"), obj)
			switch {
			case isLast(lf, ir.Bin("!=", ext(enc, 1), nilErr)):
				kind = "incomplete"
				c.Check(isWrap && sent == "" && inner != nil && inner.Key() == ext(enc, 1).Key(), "sentinel-pairing", cause(kind)+" (incomplete)", p, "Encode's (= GetError's) error passed on", "the completeness error is replaced by something else: "+clip(r1.Pretty()))
			case isLast(lf, ir.Bin("!=", ext(enc, 0), d.vec)) && hasGuard(lf, ir.Bin("==", ext(enc, 1), nilErr)):
				kind = "order"
				c.Check(isWrap && sent == spec.Sentinels["order"], "sentinel-pairing", cause(kind)+" (order)", p, "cvsserr.ErrMisordered", "input differs from its re-encoding but the error is cvsserr."+sent)
			}
		}
		if kind == "" {
			var cs []string
			for _, g := range lf.Guards {
				cs = append(cs, g.Pretty())
			}
			c.Fail("decode-rejections", who+" return at "+p, p, "an error return whose deciding condition is none of the specification's causes (prefix, unknown version, a token's error, the remembered unsupported metric, completeness, canonical form): reached under "+clip(strings.Join(cs, " & ")))
			continue
		}
		seen[kind] = true
		c.Ok("decode-rejections", cause(kind), p, "rejection caused by the prefix, a token, the remembered unsupported metric or the completeness/canonical-form gate")
		if isNilConst(r0) {
			c.Check(nonNilErrTerm(lf, r1), "result-exclusive", cause(kind), p, "(nil, non-nil error)", "an error return whose error is not provably non-nil (neither object nor error): "+clip(r1.Pretty()))
		}
	}
	if !seen["success"] {
		c.Fail("result-exclusive", who, pos, "no return with a nil error")
	}

	// --- deferred error: the loop-carried variable
	if d.Last == nil {
		c.Fail("deferred-error", who, pos, "no loop-carried error variable: an 'unsupported metric' error would be forgotten")
		return
	}
	for _, lf := range d.Init {
		if s := lf.End.State[d.Last]; s == nil || !isNilConst(s) {
			okDeferred = false
			c.Fail("deferred-error", who, e.P.Pos(lf.Pos), "the remembered error does not start as nil")
		}
	}
	for _, lf := range d.Back {
		r := rOf(lf)
		s := lf.End.State[d.Last]
		if r == nil || s == nil {
			okDeferred = false
			continue
		}
		p := e.P.Pos(lf.Pos)
		switch {
		case hasGuard(lf, ir.Bin("==", r, nilErr)):
			if s.Key() != lastV.Key() {
				okDeferred = false
				c.Fail("deferred-error", who, p, "the remembered error is overwritten when a later token decodes fine")
			}
		case hasGuard(lf, ir.Bin("!=", r, nilErr)):
			if d.isNSM(r) == nil || !hasGuard(lf, d.isNSM(r)) {
				okDeferred = false
				c.Fail("deferred-error", who, p, "Decode carries on after a decodeOne error that was not seen to be 'unsupported metric'")
			}
			// remembered as it is, or inside one more errs.Wrap layer (which keeps it non-nil and keeps what it matches)
			_, inner, isWrap := sentinelOf(s)
			if s.Key() != r.Key() && !(isWrap && inner != nil && inner.Key() == r.Key()) {
				okDeferred = false
				c.Fail("deferred-error", who, p, "on a path where decodeOne failed and Decode carries on, the error is not remembered")
			}
		default:
			okDeferred = false
			c.Fail("deferred-error", who, p, "an iteration is completed without looking at decodeOne's result")
		}
	}
	if !seen["abort"] {
		okDeferred = false
		c.Fail("deferred-error", who, pos, "no immediate return for decodeOne errors other than 'unsupported metric'")
	}
	if !seen["deferred"] {
		okDeferred = false
		c.Fail("deferred-error", who, pos, "the remembered 'unsupported metric' error is never returned")
	}
	if okDeferred {
		c.Ok("deferred-error", who, pos, "other errors abort at once as errs.Wrap(err); 'unsupported metric' is remembered, never reset, returned after the scan; success only if none was remembered")
	}
}

func describeEffect(ef ir.Effect) string {
	switch ef.Kind {
	case "store":
		return "store " + ef.Addr.Pretty() + " <- " + ef.Val.Pretty()
	case "map-update":
		return "map update " + ef.Addr.Pretty() + "[" + ef.Key.Pretty() + "]"
	}
	return "call " + ef.Val.Pretty()
}

// ctorReturnsFresh: the level's constructor returns the address of a fresh literal on every path.
func (e *Env) ctorReturnsFresh(l *facts.Level) bool {
	ctor := e.P.LookupFunc(l.Version.Pkg, "New"+l.Spec.Name)
	if ctor == nil {
		return false
	}
	sf := e.P.SSAFunc(ctor)
	return sf != nil && e.returnsAddrOfLiteral(sf)
}

// versionPrefixPaths: R1 for v3 on the paths that reach the loop.
func (e *Env) versionPrefixPaths(d *decodePaths, who string) {
	c := e.C
	l := d.Level
	pos := e.P.Pos(d.Fn.Pos())
	nilErr := nilOf(errorType)
	gvf, _ := d.gv.Obj.(*types.Func)
	// GetVersion applied to the first element, nothing else
	okArg := true
	for _, lf := range d.All {
		for _, ef := range callsOf(lf.Effects, gvf) {
			if ef.Val.Key() != d.gv.Key() {
				okArg = false
				c.Fail("version-prefix", who+" GetVersion argument", e.P.Pos(ef.Pos), "GetVersion is applied to "+clip(ef.Val.Args[0].Pretty())+", not to the first element of the split input")
			}
		}
	}
	if okArg {
		c.Ok("version-prefix", who+" GetVersion argument", pos, "first '/'-separated element of the input")
	}
	var base *facts.Level
	for lv := l; lv != nil; lv = lv.Lower {
		base = lv
	}
	okStored := true
	for _, lf := range d.Init {
		p := e.P.Pos(lf.Pos)
		obj, _ := d.objectOf(e, lf)
		if obj == nil {
			okStored = false
			continue
		}
		if !hasGuard(lf, ir.Bin("==", ext(d.gv, 1), nilErr)) {
			c.Fail("version-prefix", who+" prefix error", p, "the token loop is reachable although GetVersion reported an error (or was not called)")
		}
		if d.verZ == nil || !hasGuard(lf, ir.Bin("!=", d.verZ, ext(d.gv, 0))) {
			c.Fail("version-prefix", who+" supported-version gate", p, "the token loop is reachable with the unknown version")
		}
		wantObj := obj
		for lv := l; lv != base; lv = lv.Lower {
			wantObj = ir.Field(wantObj, lv.Embedded)
		}
		wantAddr := ir.Field(wantObj, base.VerField)
		stored := false
		for _, ef := range lf.Effects {
			if ef.Kind == "store" && ef.Addr.Op == ir.OField && ef.Addr.Obj == types.Object(base.VerField) {
				if ef.Addr.Key() == wantAddr.Key() && ef.Val.Key() == ext(d.gv, 0).Key() {
					stored = true
				} else {
					okStored = false
					c.Fail("version-recorded", who, e.P.Pos(ef.Pos), "Ver is assigned something other than GetVersion's result on the decoded object: "+clip(describeEffect(ef)))
				}
			}
		}
		if !stored {
			okStored = false
			c.Fail("version-recorded", who, p, "the parsed version is not stored in the decoded object's Ver field before the tokens are decoded")
		}
	}
	// no store to Ver once the loop is entered
	for _, lf := range d.All {
		if cutOf(lf) == nil {
			continue
		}
		for _, ef := range effectsAfter(lf) {
			if ef.Kind == "store" && ef.Addr.Op == ir.OField && ef.Addr.Obj == types.Object(base.VerField) {
				okStored = false
				c.Fail("version-recorded", who, e.P.Pos(ef.Pos), "Ver is assigned again after the prefix was handled: "+clip(describeEffect(ef)))
			}
		}
	}
	if okStored {
		c.Ok("version-recorded", who, pos, "Ver of the decoded object = GetVersion(prefix) on every path that decodes tokens")
	}
	e.getVersionShape(gvf)
}

func isBasicKind(t types.Type, k types.BasicKind) bool {
	b, ok := t.Underlying().(*types.Basic)
	return ok && b.Kind() == k
}

// scanLoop models the scanning form of the token loop:
//
//	for rest, more := vector, true; more; { tok, rest, more = strings.Cut(rest, "/"); ... }        (all elements)
//	prefix, rest, more := strings.Cut(vector, "/"); for more { tok, rest, more = strings.Cut(rest, "/"); ... }   (elements 1..)
//
// With a non-empty separator this visits exactly the elements of strings.Split(vector, "/"), in order (trusted
// library semantics, like Split's own): Cut yields the text before the first separator and whether there was one;
// the last element is the one after which no separator is found.
func (e *Env) scanLoop(d *decodePaths, leaves []*ir.Leaf, who, pos string, v3 bool) *decodePaths {
	c := e.C
	rule := "decode-skeleton"
	l := d.Level
	cutFn := e.externFunc(l.Pkg.Types, "strings", "Cut")
	if cutFn == nil {
		c.Undecided(rule, who, pos, "strings.Cut not resolvable")
		return nil
	}
	slash := ir.Const(constant.MakeString("/"), types.Typ[types.String])
	rv, mv := ir.PhiVar(d.Rest), ir.PhiVar(d.More)
	step := ir.Call(cutFn, rv, slash)
	head := ir.Call(cutFn, d.vec, slash)
	d.First = -1
	for _, lf := range d.Init {
		r0, m0 := lf.End.State[d.Rest], lf.End.State[d.More]
		if r0 == nil || m0 == nil {
			c.Undecided(rule, who, pos, "the scanning state has no initial value on a path")
			return nil
		}
		first := int64(-1)
		switch {
		case r0.Key() == d.vec.Key() && m0.Op == ir.OConst && m0.C != nil && m0.C.Kind() == constant.Bool && constant.BoolVal(m0.C):
			first = 0
		case r0.Key() == ext(head, 1).Key() && m0.Key() == ext(head, 2).Key():
			first = 1
		default:
			c.Check(false, "vector-split", who, pos, "", "the scan does not start from the unmodified input (or from what follows its first \"/\"): rest = "+clip(r0.Pretty())+", more = "+clip(m0.Pretty()))
			return nil
		}
		if d.First >= 0 && d.First != first {
			c.Undecided(rule, who, pos, "the scan starts at different elements on different paths")
			return nil
		}
		d.First = first
	}
	for _, lf := range d.Back {
		ga := guardsAfter(lf)
		if len(ga) == 0 || ga[0].Key() != mv.Key() {
			c.Undecided(rule, who, pos, "an iteration of the scan does not start with the test of its 'more' flag")
			return nil
		}
		r1, m1 := lf.End.State[d.Rest], lf.End.State[d.More]
		if r1 == nil || m1 == nil || r1.Key() != ext(step, 1).Key() || m1.Key() != ext(step, 2).Key() {
			c.Fail("token-loop", who, pos, "the scan is not advanced by exactly one strings.Cut(rest, \"/\") per iteration")
			return nil
		}
	}
	d.Cond = mv
	d.Elem = ext(step, 0)
	d.Split = ir.Call(e.externFunc(l.Pkg.Types, "strings", "Split"), d.vec, slash)
	for _, lf := range leaves {
		if lf.End != nil || cutOf(lf) == nil {
			continue
		}
		ga := guardsAfter(lf)
		switch {
		case len(ga) > 0 && ga[0].Key() == d.Cond.Key():
			d.InLp = append(d.InLp, lf)
		case len(ga) > 0 && ga[0].Key() == ir.NotCond(d.Cond).Key():
			d.After = append(d.After, lf)
		default:
			c.Undecided(rule, who, e.P.Pos(lf.Pos), "a path through the loop header does not start with the loop condition")
			return nil
		}
	}
	out := e.finishDecodeModel(d, who, pos, v3)
	if out != nil && v3 && d.First == 1 {
		// the version is parsed from what precedes the first "/": element 0 of the split input
		gvf := e.P.LookupFunc(l.Version.Pkg, "GetVersion")
		d.gv = ir.Call(gvf, ext(head, 0))
	}
	return out
}
