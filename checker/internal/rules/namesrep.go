package rules

import (
	"fmt"
	"go/constant"
	"go/types"
	"sort"

	"cvsslint/internal/facts"
	"cvsslint/internal/ir"
	"cvsslint/internal/load"
)

// The rules about the names seen (duplicate test, mark on accept, Encode's presence guards, v2 group
// emptiness) are written for the representation today's tree uses: an unexported map[string]bool field, read as
// names[N] and updated with names[N] = true. A bit set is the same set under another representation:
//
//	names & K(N) != 0        for   names[N]
//	names = names | K(N)     for   names[N] = true
//
// where K maps a name to its bit. canonNames rewrites the bit-set forms found on the paths of a function into
// the map forms, so that the rules decide them unchanged - provided the representation lemma holds for the key
// function K that the code uses: over the tabulated string domain (the names of every level of the version, "",
// any other string) K yields pairwise disjoint non-zero masks for the names of this level and 0 for every
// other string. K is a function of the library whose leaf summary can be evaluated (facts.Eval), applied to
// the name and, possibly, to literal tables.

// keyFunc is one verified key function: the callee and its arguments other than the name.
type keyFunc struct {
	fn     *types.Func
	args   []*ir.Term // the name's position holds nil
	pos    int
	byMask map[int64]string
	why    string // non-empty: the lemma does not hold / could not be decided
}

type namesCanon struct {
	e     *Env
	l     *facts.Level
	field string // key of p0.names
	fns   map[string]*keyFunc
	bad   []string
}

// canonNames returns the leaves with the bit-set forms rewritten, and what could not be rewritten.
func (e *Env) canonNames(l *facts.Level, leaves []*ir.Leaf) ([]*ir.Leaf, []string) {
	if l.Names != nil && !l.NamesBits {
		// the names map of an object that comes from a constructor is never nil (constructor-fresh: only the
		// constructor sets the field, to a fresh map): a path that needs it to be nil is not a path of such an object
		isNil := ir.Bin("==", ir.Field(ir.Param(0), l.Names), nilOf(l.Names.Type()))
		// presence and value are the same thing in this map: the only value ever stored is true (duplicate-mark,
		// write-ownership), so the ok of  v, ok := names[k]  is names[k]
		namesKey := ir.Field(ir.Param(0), l.Names).Key()
		present := func(t *ir.Term) *ir.Term {
			if t.Op == ir.OExtract && t.N == 1 && len(t.Args) == 1 {
				if lk := t.Args[0]; lk.Op == ir.OLookup && lk.Str == "ok" && len(lk.Args) == 2 && lk.Args[0].Key() == namesKey {
					return &ir.Term{Op: ir.OLookup, Args: lk.Args, Typ: lk.Typ}
				}
			}
			return nil
		}
		var kept []*ir.Leaf
		for _, lf := range leaves {
			if hasGuard(lf, isNil) {
				continue
			}
			n := *lf
			n.Guards = nil
			feasible := true
			at := make([]int, len(lf.Guards)+1) // at[k]: guards kept among the first k
			for k, g := range lf.Guards {
				ng := ir.Replace(g, present)
				neg := ir.NotCond(ng).Key()
				dup := false
				for _, og := range n.Guards {
					if og.Key() == neg {
						feasible = false
					}
					if og.Key() == ng.Key() {
						dup = true
					}
				}
				if !dup {
					n.Guards = append(n.Guards, ng)
				}
				at[k+1] = len(n.Guards)
			}
			if !feasible {
				continue
			}
			n.Effects = append([]ir.Effect{}, lf.Effects...)
			for i := range n.Effects {
				if ng := n.Effects[i].NG; ng >= 0 && ng < len(at) {
					n.Effects[i].NG = at[ng]
				}
			}
			n.Ret = make([]*ir.Term, len(lf.Ret))
			for i, r := range lf.Ret {
				n.Ret[i] = ir.Replace(r, present)
			}
			kept = append(kept, &n)
		}
		leaves = kept
	}
	if l.Names == nil || !l.NamesBits {
		return leaves, nil
	}
	if e.keyFuncs == nil {
		e.keyFuncs = map[*facts.Level]map[string]*keyFunc{}
	}
	first := e.keyFuncs[l] == nil
	if first {
		e.keyFuncs[l] = map[string]*keyFunc{}
	}
	nc := &namesCanon{e: e, l: l, field: ir.Field(ir.Param(0), l.Names).Key(), fns: e.keyFuncs[l]}
	if first && l.DecodeOne != nil {
		// the key function shows in the per-token decoder (which maps the token's name to its bit); functions that
		// only use constant masks (Encode, IsEmpty) are read through it
		if sf := e.P.SSAFunc(l.DecodeOne); sf != nil {
			if dl, err := ir.Leaves(sf, ir.LeafOptions{Forward: true, Effects: true, Inline: e.inlineHelpers()}); err == nil {
				for _, lf := range dl {
					for _, g := range lf.Guards {
						nc.term(g)
					}
					for _, ef := range lf.Effects {
						nc.effect(ef)
					}
				}
				nc.bad = nil
			}
		}
	}
	out := make([]*ir.Leaf, len(leaves))
	for i, lf := range leaves {
		n := *lf
		n.Guards = make([]*ir.Term, len(lf.Guards))
		for j, g := range lf.Guards {
			n.Guards[j] = nc.term(g)
		}
		n.Ret = make([]*ir.Term, len(lf.Ret))
		for j, r := range lf.Ret {
			n.Ret[j] = nc.term(r)
		}
		n.Effects = make([]ir.Effect, len(lf.Effects))
		for j, ef := range lf.Effects {
			n.Effects[j] = nc.effect(ef)
		}
		out[i] = &n
	}
	sort.Strings(nc.bad)
	return out, dedup(nc.bad)
}

func dedup(in []string) []string {
	var out []string
	for i, s := range in {
		if i == 0 || s != in[i-1] {
			out = append(out, s)
		}
	}
	return out
}

func (nc *namesCanon) lookup(name *ir.Term) *ir.Term {
	return &ir.Term{Op: ir.OLookup, Args: []*ir.Term{ir.Field(ir.Param(0), nc.l.Names), name}}
}

// maskOf: t is  names & K  (either order): returns K.
func (nc *namesCanon) maskOf(t *ir.Term) *ir.Term {
	if t == nil || t.Op != ir.OBin || t.Str != "&" || len(t.Args) != 2 {
		return nil
	}
	for i := 0; i < 2; i++ {
		if t.Args[i].Key() == nc.field {
			return t.Args[1-i]
		}
	}
	return nil
}

func isZeroInt(t *ir.Term) bool {
	if t.Op != ir.OConst || t.C == nil || t.C.Kind() != constant.Int {
		return false
	}
	return constant.Sign(t.C) == 0
}

func (nc *namesCanon) term(t *ir.Term) *ir.Term {
	if t == nil {
		return nil
	}
	// (names & K) != 0, (names & K) == 0
	if t.Op == ir.OBin && (t.Str == "!=" || t.Str == "==") && len(t.Args) == 2 {
		for i := 0; i < 2; i++ {
			if !isZeroInt(t.Args[i]) {
				continue
			}
			if k := nc.maskOf(t.Args[1-i]); k != nil {
				if name := nc.nameOf(k); name != nil {
					lk := nc.lookup(name)
					if t.Str == "==" {
						return ir.NotCond(lk)
					}
					return lk
				}
			}
		}
	}
	if len(t.Args) == 0 {
		return t
	}
	args := make([]*ir.Term, len(t.Args))
	changed := false
	for i, a := range t.Args {
		args[i] = nc.term(a)
		if args[i] != a {
			changed = true
		}
	}
	if !changed {
		return t
	}
	return ir.Rebuild(t, args)
}

func (nc *namesCanon) effect(ef ir.Effect) ir.Effect {
	if ef.Kind == "store" && ef.Addr != nil && ef.Addr.Key() == nc.field && ef.Val != nil && ef.Val.Op == ir.OBin && ef.Val.Str == "|" && len(ef.Val.Args) == 2 {
		for i := 0; i < 2; i++ {
			if ef.Val.Args[i].Key() != nc.field {
				continue
			}
			if name := nc.nameOf(ef.Val.Args[1-i]); name != nil {
				return ir.Effect{Kind: "map-update", Addr: ir.Field(ir.Param(0), nc.l.Names), Key: name, Val: ir.Const(constant.MakeBool(true), types.Typ[types.Bool]), Pos: ef.Pos, NG: ef.NG}
			}
		}
	}
	n := ef
	n.Addr, n.Key, n.Val = nc.term(ef.Addr), nc.term(ef.Key), nc.term(ef.Val)
	return n
}

// nameOf returns the name term a mask stands for: the name argument of a verified key function, or the name
// whose mask a constant is.
func (nc *namesCanon) nameOf(k *ir.Term) *ir.Term {
	switch k.Op {
	case ir.OCall:
		kf, name := nc.keyFuncOf(k)
		if kf == nil {
			return nil
		}
		if kf.why != "" {
			nc.bad = append(nc.bad, kf.why)
			return nil
		}
		return name
	case ir.OConst:
		if k.C == nil || k.C.Kind() != constant.Int {
			return nil
		}
		v, exact := constant.Int64Val(k.C)
		if !exact {
			return nil
		}
		for _, kf := range nc.fns {
			if kf.why == "" {
				if n, ok := kf.byMask[v]; ok {
					return ir.Const(constant.MakeString(n), types.Typ[types.String])
				}
			}
		}
	}
	return nil
}

// keyFuncOf classifies a call as K(name): a library function with exactly one string argument; the other
// arguments must be literal tables or constants. The lemma is checked once per (function, other arguments).
func (nc *namesCanon) keyFuncOf(call *ir.Term) (*keyFunc, *ir.Term) {
	fn, _ := call.Obj.(*types.Func)
	if fn == nil || fn.Pkg() == nil || !load.IsLib(fn.Pkg().Path()) {
		return nil, nil
	}
	sig := fn.Type().(*types.Signature)
	var ptypes []types.Type
	if sig.Recv() != nil {
		ptypes = append(ptypes, sig.Recv().Type())
	}
	for i := 0; i < sig.Params().Len(); i++ {
		ptypes = append(ptypes, sig.Params().At(i).Type())
	}
	if len(ptypes) != len(call.Args) {
		return nil, nil
	}
	pos := -1
	for i, pt := range ptypes {
		if b, ok := pt.Underlying().(*types.Basic); ok && b.Kind() == types.String {
			if pos >= 0 {
				return nil, nil
			}
			pos = i
		}
	}
	if pos < 0 {
		return nil, nil
	}
	id := fn.FullName()
	for i, a := range call.Args {
		if i != pos {
			id += "|" + a.Key()
		}
	}
	name := call.Args[pos]
	if kf, ok := nc.fns[id]; ok {
		return kf, name
	}
	kf := &keyFunc{fn: fn, pos: pos, byMask: map[int64]string{}}
	nc.fns[id] = kf
	// the other arguments as abstract values
	vals := make([]facts.Value, len(call.Args))
	for i, a := range call.Args {
		if i == pos {
			continue
		}
		v, ok := nc.valueOf(a)
		if !ok {
			kf.why = fmt.Sprintf("%s: argument %s of the name-to-bit function is neither a constant nor a literal table", load.FuncName(fn), a.Pretty())
			return kf, name
		}
		vals[i] = v
	}
	// the string domain: every metric name of the version, "", another string
	level := map[string]bool{}
	for _, n := range nc.l.Spec.Names() {
		level[n] = true
	}
	dom := map[string]bool{"": true}
	for i := range nc.l.Version.Levels {
		for _, n := range nc.l.Version.Levels[i].Names() {
			dom[n] = true
		}
	}
	for s := range nc.e.F.StringConsts(fn) {
		dom[s] = true
	}
	eval := func(v facts.Value) (int64, bool, string) {
		vals[pos] = v
		r := nc.e.F.Eval(fn, vals...)
		if r.Kind != facts.VConst || r.C == nil || r.C.Kind() != constant.Int {
			return 0, false, r.String()
		}
		m, exact := constant.Int64Val(r.C)
		return m, exact, ""
	}
	var union int64
	for _, s := range sortedKeys(dom) {
		m, ok, why := eval(facts.StringValue(s))
		if !ok {
			kf.why = fmt.Sprintf("%s(%q) is not decided: %s", load.FuncName(fn), s, why)
			return kf, name
		}
		switch {
		case level[s] && (m == 0 || m&union != 0):
			kf.why = fmt.Sprintf("%s(%q) = %d: the mask of a name of the level is zero or overlaps another name's", load.FuncName(fn), s, m)
			return kf, name
		case level[s]:
			union |= m
			kf.byMask[m] = s
		case m != 0:
			kf.why = fmt.Sprintf("%s(%q) = %d: a string that is not a metric name of the level has a bit", load.FuncName(fn), s, m)
			return kf, name
		}
	}
	if m, ok, why := eval(facts.Value{Kind: facts.VOther, Type: types.Typ[types.String]}); !ok || m != 0 {
		kf.why = fmt.Sprintf("%s(<any other string>) is not 0 (%d %s)", load.FuncName(fn), m, why)
	}
	if kf.why == "" {
		if nc.e.keyFns == nil {
			nc.e.keyFns = map[*types.Func]bool{}
		}
		nc.e.keyFns[fn.Origin()] = true
	}
	return kf, name
}

// valueOf: a constant or a literal table as an abstract value.
func (nc *namesCanon) valueOf(t *ir.Term) (facts.Value, bool) {
	switch t.Op {
	case ir.OConst:
		if t.C != nil {
			return facts.Value{Kind: facts.VConst, C: t.C, Type: t.Typ}, true
		}
	case ir.OGlobal:
		if v, ok := t.Obj.(*types.Var); ok {
			if tab := nc.e.F.Tables[v]; tab != nil {
				return facts.Value{Kind: facts.VTable, T: tab}, true
			}
		}
	}
	// a load of a global / slice of an array table
	if len(t.Args) == 1 && (t.Op == ir.OAddr || t.Op == "load" || t.Op == ir.OSlice) {
		return nc.valueOf(t.Args[0])
	}
	if t.Op == ir.OSlice && len(t.Args) >= 1 {
		return nc.valueOf(t.Args[0])
	}
	return facts.Value{}, false
}
