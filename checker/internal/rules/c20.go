package rules

import (
	"fmt"
	"go/types"
	"strings"

	"cvsslint/internal/facts"
	"cvsslint/internal/load"
	"cvsslint/internal/spec"
)

func init() { register("C20", c20) }

// c20 decides the table properties of every metric type: the parser and
// printer are inverse on the specification's codes, everything else parses to
// the zero constant (which prints as ""), the validity predicate separates the
// zero constant from every defined value, and every weight equals the
// specification's decimal (as the float64 the program sees).
func c20(e *Env) {
	c := e.C
	c.Level = "proof"
	c.Explanation = "Every leaf function of every metric type (parser, printer, validity predicate, weight accessor, scope predicates) is translated into a finite-map expression over the package-level tables (syntax-directed, loop-free fragment; anything else is UNDECIDED) and that expression is tabulated over the complete abstract domain of its parameters (every declared constant, plus one out-of-range representative; for parsers every string occurring in any table they read plus 'any other string'). The tabulated maps are compared cell by cell with the specification tables in checker/internal/spec. The run is exhaustive over those finite domains. GetVersion, the exported parser of the CVSS:<label> prefix, is decided on all of its paths: it yields the label parser's value for the second of exactly two ':'-separated parts whose first is CVSS, and the unknown version with an error for every other string (version-prefix)."
	c.Trusted = []string{"Go map/== semantics as encoded in the summary denotation (facts/summary.go)", "go/types constant folding", "the specification tables in checker/internal/spec/spec.go (hand-transcribed from FIRST)", "exported tables are not written by code outside this module"}
	c.Assumptions = []string{"eleven v3 tables are exported identifiers; a client program could overwrite them - outside what an analysis of /repo can see", "the tables are immutable after package initialisation (decided by C15/C16 rule E2, re-checked here as table-immutability)"}
	v3, v2 := e.levels("struct-layout")
	c.Floor("code-table", 36)
	c.Floor("parse", 36)
	c.Floor("validity", 36)
	c.Floor("weight", 34)
	c.Floor("version-table", 2)
	nf := 0
	for _, ls := range [][]*facts.Level{v3, v2} {
		for _, l := range ls {
			for _, fv := range l.Metrics {
				m := l.Version.Metric(fv.Name())
				e.metricTables(l, fv, m)
				nf++
			}
		}
	}
	e.versionTables()
	// the exported parser of the "CVSS:<label>" prefix: every path of it (all are enumerated) yields the label
	// parser's value of the second of exactly two ':'-parts whose first is "CVSS", and unknown with an error otherwise
	if gvf := e.P.LookupFunc(spec.V3.Pkg, "GetVersion"); gvf != nil {
		e.getVersionShape(gvf)
	} else {
		c.Undecided("version-prefix", "v3/metric.GetVersion", "", "the exported prefix parser was not found")
	}
	e.tableImmutability("table-immutability", "v3/metric", "v2/metric", "v3/version")
	c.Analysed["metric_fields"] = nf
	c.Analysed["tables"] = len(e.F.AllTabs)
	e.tableModelProblems(func(t *facts.Table) bool {
		return t.IsData() && tableInPkgs(t, "v3/metric", "v2/metric", "v3/version")
	})
}

func (e *Env) metricTables(l *facts.Level, fv *types.Var, m *spec.Metric) {
	c := e.C
	T := fv.Type()
	who := fmt.Sprintf("%s.%s (%s)", l, fv.Name(), types.TypeString(T, func(*types.Package) string { return "" }))
	pos := e.P.Pos(fv.Pos())
	en := e.F.EnumOf(T)
	if en == nil {
		c.Fail("code-table", who, pos, "field type is not an enumeration type of its package")
		return
	}
	if en.Zero == nil {
		c.Fail("code-table", who, pos, "enumeration has no zero constant (the unknown/invalid value)")
		return
	}
	dom := e.F.Domain(T)
	specCodes := map[string]*spec.Code{}
	for i := range m.Codes {
		specCodes[m.Codes[i].Code] = &m.Codes[i]
	}

	// --- printer: String() over the whole domain -----------------------------
	byCode := map[string]facts.Value{}
	okPrinter := true
	for _, v := range dom {
		s, ok, why := e.codeOf(T, v)
		if !ok {
			c.Undecided("code-table", who+" String("+v.String()+")", pos, why)
			okPrinter = false
			continue
		}
		isZero := v.Kind == facts.VConst && v.Obj == en.Zero
		switch {
		case isZero || v.Kind == facts.VOther:
			c.Check(s == "", "code-table", who+" String("+v.String()+")", pos, `prints as ""`, fmt.Sprintf("the unknown/out-of-range value prints as %q, not as empty text", s))
		case s == "":
			c.Fail("code-table", who+" String("+v.String()+")", pos, "a declared non-zero constant prints as empty text (no code)")
		default:
			if prev, dup := byCode[s]; dup {
				c.Fail("code-table", who+" code "+s, pos, fmt.Sprintf("constants %s and %s both print as %q", prev, v, s))
			}
			byCode[s] = v
			_, known := specCodes[s]
			c.Check(known, "code-table", who+" String("+v.String()+")", pos, "prints specification code "+s, fmt.Sprintf("prints %q, which is not a code of %s in the specification", s, m.Name))
		}
	}
	for _, sc := range m.Codes {
		if _, ok := byCode[sc.Code]; !ok && okPrinter {
			c.Fail("code-table", who+" code "+sc.Code, pos, "no constant prints as specification code "+sc.Code)
		}
	}

	// --- parser ----------------------------------------------------------------
	ps := parsersOf(l.Pkg.Types, T)
	if len(ps) == 0 {
		c.Fail("parse", who, pos, fmt.Sprintf("no parser func(string) %s found", en.Name()))
	}
	for _, g := range ps { // every exported way of parsing a code of this metric must obey the tables
		if !g.Exported() && len(ps) > 1 {
			continue
		}
		gpos := e.P.Pos(g.Pos())
		// domain: every string in a table the parser reads, every specification code, "", lower-case variant, other
		strs := map[string]bool{"": true}
		for t := range e.F.TablesRead(g) {
			for _, s := range t.Strings() {
				strs[s] = true
			}
		}
		for code := range specCodes {
			strs[code] = true
			strs[strings.ToLower(code)] = true
		}
		for sc := range e.F.StringConsts(g) {
			strs[sc] = true
		}
		for _, s := range sortedKeys(strs) {
			r := e.F.Eval(g, facts.StringValue(s))
			cons := fmt.Sprintf("%s(%q)", fname(g), s)
			if r.Kind != facts.VConst {
				if r.Kind == facts.VAmbiguous {
					c.Fail("parse", cons, gpos, r.Why)
				} else {
					c.Undecided("parse", cons, gpos, r.String())
				}
				continue
			}
			if _, isCode := specCodes[s]; isCode {
				back, ok, why := e.codeOf(T, r)
				if !ok {
					c.Undecided("parse", cons, gpos, "parses to "+r.String()+", whose printed form is not decided: "+why)
					continue
				}
				c.Check(back == s, "parse", cons, gpos, "parses to "+r.String()+", which prints as the same code", fmt.Sprintf("parses to %s, which prints as %q", r, back))
			} else {
				c.Check(r.Obj == en.Zero, "parse", cons, gpos, "not a specification code: parses to the zero constant", fmt.Sprintf("%q is not a code of %s but parses to %s", s, m.Name, r))
			}
		}
		r := e.F.Eval(g, facts.Value{Kind: facts.VOther, Type: types.Typ[types.String]})
		c.Check(r.Kind == facts.VConst && r.Obj == en.Zero, "parse", fname(g)+"(<any other string>)", gpos, "parses to the zero constant", "a string matching no table entry parses to "+r.String())
	}

	// --- validity predicate ----------------------------------------------------
	var preds []*types.Func
	for _, n := range []string{"IsUnknown", "IsValid"} {
		if p := load.MethodOf(T, n); p != nil {
			preds = append(preds, p)
		}
	}
	if len(preds) == 0 {
		c.Fail("validity", who, pos, "type has neither IsUnknown nor IsValid")
	}
	for _, p := range preds {
		zr, zok := boolOf(e.F.Eval(p, facts.ConstValue(en.Zero)))
		if !zok {
			c.Undecided("validity", fname(p), e.P.Pos(p.Pos()), e.F.Eval(p, facts.ConstValue(en.Zero)).String())
			continue
		}
		all := true
		for _, v := range byCode {
			r, ok := boolOf(e.F.Eval(p, v))
			if !ok || r == zr {
				all = false
				c.Fail("validity", fname(p)+"("+v.String()+")", e.P.Pos(p.Pos()), fmt.Sprintf("does not distinguish the defined value %s from the zero constant %s (both %v)", v, en.Zero.Name(), zr))
			}
		}
		if all {
			c.Ok("validity", fname(p), e.P.Pos(p.Pos()), fmt.Sprintf("%v on %s, %v on all %d defined values", zr, en.Zero.Name(), !zr, len(byCode)))
		}
	}

	// IsDefined (where a type has it): true exactly on the values that carry a specification code other than the
	// Not Defined one (v3: X, v2: ND); false on the unknown/invalid value and on Not Defined
	if p := load.MethodOf(T, "IsDefined"); p != nil {
		if sig := p.Type().(*types.Signature); sig.Params().Len() == 0 && sig.Results().Len() == 1 {
			for _, v := range dom {
				if v.Kind != facts.VConst {
					continue // out-of-range integers: the property speaks of the unknown/invalid value and the defined ones
				}
				code, ok, why := e.codeOf(T, v)
				cons := fname(p) + "(" + v.String() + ")"
				if !ok {
					c.Undecided("validity", cons, e.P.Pos(p.Pos()), why)
					continue
				}
				want := code != "" && code != "X" && code != "ND"
				got, bok := boolOf(e.F.Eval(p, v))
				if !bok {
					c.Undecided("validity", cons, e.P.Pos(p.Pos()), e.F.Eval(p, v).String())
					continue
				}
				c.Check(got == want, "validity", cons, e.P.Pos(p.Pos()), fmt.Sprintf("%v (code %q)", got, code), fmt.Sprintf("IsDefined is %v for the value with code %q (defined means: a specification code other than Not Defined)", got, code))
			}
		}
	}

	// --- weights -----------------------------------------------------------------
	if m.NoWeight {
		e.scopePredicate(l, fv, m, byCode)
		return
	}
	val := load.MethodOf(T, "Value")
	if val == nil {
		c.Fail("weight", who, pos, "type has no Value method")
		return
	}
	vpos := e.P.Pos(val.Pos())
	sig := val.Type().(*types.Signature)
	expect := func(cons string, got facts.Value, want string) {
		g, ok := floatOf(got)
		if !ok {
			if got.Kind == facts.VInvalid || got.Kind == facts.VAmbiguous {
				c.Undecided("weight", cons, vpos, got.String())
			} else {
				c.Fail("weight", cons, vpos, "not a number: "+got.String())
			}
			return
		}
		c.Check(g == parseWeight(want), "weight", cons, vpos, "= "+want, fmt.Sprintf("weight is %v, the specification says %s", g, want))
	}
	v3lv, _ := e.F.Levels(&spec.V3)
	switch {
	case m.ModifiedOf == "" && !m.ScopeDependent:
		if sig.Params().Len() != 0 {
			c.Undecided("weight", fname(val), vpos, "unexpected parameters")
			return
		}
		for code, v := range byCode {
			if sc := specCodes[code]; sc != nil {
				expect(fmt.Sprintf("%s %s:%s", l.Version.Name, m.Name, code), e.F.Eval(val, v), sc.Weight)
			}
		}
	case m.ModifiedOf == "" && m.ScopeDependent:
		// PR.Value(scope)
		if sig.Params().Len() != 1 {
			c.Undecided("weight", fname(val), vpos, "expected Value(scope)")
			return
		}
		st := sig.Params().At(0).Type()
		for _, sv := range e.F.Domain(st) {
			scode, _, _ := e.codeOf(st, sv)
			for code, v := range byCode {
				sc := specCodes[code]
				if sc == nil {
					continue
				}
				switch scode {
				case "U":
					expect(fmt.Sprintf("%s %s:%s under S:U", l.Version.Name, m.Name, code), e.F.Eval(val, v, sv), sc.Weight)
				case "C":
					expect(fmt.Sprintf("%s %s:%s under S:C", l.Version.Name, m.Name, code), e.F.Eval(val, v, sv), sc.WeightChanged)
				}
			}
		}
	case m.ModifiedOf != "" && !m.ScopeDependent:
		// Modified*.Value(base)
		if sig.Params().Len() != 1 {
			c.Undecided("weight", fname(val), vpos, "expected Value(base metric)")
			return
		}
		bt := sig.Params().At(0).Type()
		bm := l.Version.Metric(m.ModifiedOf)
		var baseField *types.Var
		for _, lv := range v3lv {
			if f := lv.ByName[m.ModifiedOf]; f != nil {
				baseField = f
			}
		}
		if baseField == nil || !types.Identical(baseField.Type(), bt) {
			c.Fail("weight", fname(val), vpos, fmt.Sprintf("parameter type %s is not the type of base metric %s", bt, m.ModifiedOf))
			return
		}
		for code, v := range byCode {
			sc := specCodes[code]
			if sc == nil {
				continue
			}
			for _, bv := range e.F.Domain(bt) {
				bcode, _, _ := e.codeOf(bt, bv)
				if sc.NotDefined {
					for _, bc := range bm.Codes {
						if bc.Code == bcode {
							expect(fmt.Sprintf("v3 %s:X with %s:%s", m.Name, bm.Name, bcode), e.F.Eval(val, v, bv), bc.Weight)
						}
					}
				} else {
					expect(fmt.Sprintf("v3 %s:%s with %s:%s", m.Name, code, bm.Name, orDash(bcode, bv)), e.F.Eval(val, v, bv), sc.Weight)
				}
			}
		}
	default:
		// MPR.Value(ms, s, pr)
		if sig.Params().Len() != 3 {
			c.Undecided("weight", fname(val), vpos, "expected Value(modified scope, scope, privileges required)")
			return
		}
		mst, st, prt := sig.Params().At(0).Type(), sig.Params().At(1).Type(), sig.Params().At(2).Type()
		prm := l.Version.Metric("PR")
		for code, v := range byCode {
			sc := specCodes[code]
			if sc == nil {
				continue
			}
			for _, msv := range e.F.Domain(mst) {
				mscode, _, _ := e.codeOf(mst, msv)
				if mscode == "" {
					continue
				}
				for _, sv := range e.F.Domain(st) {
					scode, _, _ := e.codeOf(st, sv)
					var changed bool
					switch {
					case mscode == "X" && scode == "":
						continue // base scope undefined: outside the property's domain
					case mscode == "X":
						changed = scode == "C"
					default:
						changed = mscode == "C"
					}
					for _, prv := range e.F.Domain(prt) {
						prcode, _, _ := e.codeOf(prt, prv)
						var want string
						if sc.NotDefined {
							if prcode == "" {
								continue
							}
							for _, pc := range prm.Codes {
								if pc.Code == prcode {
									want = pc.Weight
									if changed {
										want = pc.WeightChanged
									}
								}
							}
						} else {
							want = sc.Weight
							if changed {
								want = sc.WeightChanged
							}
						}
						expect(fmt.Sprintf("v3 MPR:%s with MS:%s S:%s PR:%s", code, mscode, orDash(scode, sv), orDash(prcode, prv)), e.F.Eval(val, v, msv, sv, prv), want)
					}
				}
			}
		}
	}
}

func orDash(code string, v facts.Value) string {
	if code != "" {
		return code
	}
	return "<" + v.String() + ">"
}

// scopePredicate decides Scope.IsChanged and ModifiedScope.IsChanged(scope).
func (e *Env) scopePredicate(l *facts.Level, fv *types.Var, m *spec.Metric, byCode map[string]facts.Value) {
	c := e.C
	T := fv.Type()
	p := load.MethodOf(T, "IsChanged")
	if p == nil {
		c.Fail("weight", l.String()+"."+fv.Name(), e.P.Pos(fv.Pos()), "scope type has no IsChanged method")
		return
	}
	ppos := e.P.Pos(p.Pos())
	sig := p.Type().(*types.Signature)
	if m.ModifiedOf == "" {
		for _, v := range e.F.Domain(T) {
			code, _, _ := e.codeOf(T, v)
			r, ok := boolOf(e.F.Eval(p, v))
			if !ok {
				c.Undecided("weight", fname(p)+"("+v.String()+")", ppos, e.F.Eval(p, v).String())
				continue
			}
			c.Check(r == (code == "C"), "weight", fmt.Sprintf("v3 S:%s IsChanged", orDash(code, v)), ppos, fmt.Sprint(r), fmt.Sprintf("IsChanged is %v for scope code %q", r, code))
		}
		return
	}
	if sig.Params().Len() != 1 {
		c.Undecided("weight", fname(p), ppos, "expected IsChanged(scope)")
		return
	}
	st := sig.Params().At(0).Type()
	for _, v := range e.F.Domain(T) {
		code, _, _ := e.codeOf(T, v)
		if code == "" {
			continue
		}
		for _, sv := range e.F.Domain(st) {
			scode, _, _ := e.codeOf(st, sv)
			if code == "X" && scode == "" {
				continue
			}
			want := code == "C"
			if code == "X" {
				want = scode == "C"
			}
			r, ok := boolOf(e.F.Eval(p, v, sv))
			if !ok {
				c.Undecided("weight", fname(p), ppos, e.F.Eval(p, v, sv).String())
				continue
			}
			c.Check(r == want, "weight", fmt.Sprintf("v3 MS:%s with S:%s IsChanged", code, orDash(scode, sv)), ppos, fmt.Sprint(r), fmt.Sprintf("effective scope changed = %v, specification says %v", r, want))
		}
	}
}

// versionTables decides the two version-label tables.
func (e *Env) versionTables() {
	c := e.C
	type vt struct{ rel, typ string }
	for _, x := range []vt{{"v3/metric", "Version"}, {"v3/version", "Num"}} {
		pk := e.P.Lib(x.rel)
		tn, _ := pk.Types.Scope().Lookup(x.typ).(*types.TypeName)
		who := x.rel + "." + x.typ
		if tn == nil {
			c.Fail("version-table", who, "", "type not found")
			continue
		}
		T := tn.Type()
		pos := e.P.Pos(tn.Pos())
		en := e.F.EnumOf(T)
		if en == nil || en.Zero == nil {
			c.Fail("version-table", who, pos, "not an enumeration with a zero constant")
			continue
		}
		labels := map[string]bool{}
		for _, s := range spec.VersionLabels {
			labels[s] = true
		}
		seen := map[string]bool{}
		for _, v := range e.F.Domain(T) {
			s, ok, why := e.codeOf(T, v)
			if !ok {
				c.Undecided("version-table", who+" String("+v.String()+")", pos, why)
				continue
			}
			if (v.Kind == facts.VConst && v.Obj == en.Zero) || v.Kind == facts.VOther {
				c.Check(!labels[s], "version-table", who+" String("+v.String()+")", pos, fmt.Sprintf("prints %q, not a supported label", s), fmt.Sprintf("the unknown version prints as supported label %q", s))
				continue
			}
			c.Check(labels[s] && !seen[s], "version-table", who+" String("+v.String()+")", pos, "prints label "+s, fmt.Sprintf("prints %q (not a distinct supported label)", s))
			seen[s] = true
		}
		for _, s := range spec.VersionLabels {
			if !seen[s] {
				c.Fail("version-table", who+" label "+s, pos, "no constant prints as "+s)
			}
		}
		ps := parsersOf(pk.Types, T)
		if len(ps) == 0 {
			// no separate label parser: when the look-up is written out inside the package's GetVersion, that function's
			// own rule decides which label yields which constant (version-prefix, inline form)
			if gv, _ := pk.Types.Scope().Lookup("GetVersion").(*types.Func); gv != nil {
				if sig := gv.Type().(*types.Signature); sig.Results().Len() == 2 && types.Identical(sig.Results().At(0).Type(), T) {
					e.getVersionShape(gv)
					c.Ok("version-table", who+" label parser", pos, "written out inside GetVersion: decided path by path (version-prefix)")
					continue
				}
			}
		}
		if len(ps) > 1 {
			// conveniences added next to the parser (Parse, MustParse, FromLabel): the parser the property names is
			// the one called Get / get, when there is exactly one such
			var named []*types.Func
			for _, g := range ps {
				if g.Name() == "Get" || g.Name() == "get" {
					named = append(named, g)
				}
			}
			if len(named) == 1 {
				ps = named
			}
		}
		if len(ps) != 1 {
			// several candidates, or none and no GetVersion either: which strings map to which version is not decided here
			c.Undecided("version-table", who, pos, fmt.Sprintf("expected exactly one func(string) %s to evaluate on the label domain, found %d", x.typ, len(ps)))
			continue
		}
		g := ps[0]
		strs := map[string]bool{"": true, "3": true, "2.0": true, "4.0": true, "unknown": true}
		for t := range e.F.TablesRead(g) {
			for _, s := range t.Strings() {
				strs[s] = true
			}
		}
		for s := range labels {
			strs[s] = true
		}
		for sc := range e.F.StringConsts(g) {
			strs[sc] = true
		}
		for _, s := range sortedKeys(strs) {
			r := e.F.Eval(g, facts.StringValue(s))
			cons := fmt.Sprintf("%s(%q)", fname(g), s)
			if r.Kind != facts.VConst {
				c.Undecided("version-table", cons, e.P.Pos(g.Pos()), r.String())
				continue
			}
			if labels[s] {
				back, ok, why := e.codeOf(T, r)
				if !ok {
					c.Undecided("version-table", cons, e.P.Pos(g.Pos()), "parses to "+r.String()+", whose printed form is not decided: "+why)
					continue
				}
				c.Check(back == s, "version-table", cons, e.P.Pos(g.Pos()), "parses to "+r.String(), fmt.Sprintf("parses to %s which prints as %q", r, back))
			} else {
				c.Check(r.Obj == en.Zero, "version-table", cons, e.P.Pos(g.Pos()), "parses to unknown", "unsupported label parses to "+r.String())
			}
		}
		r := e.F.Eval(g, facts.Value{Kind: facts.VOther, Type: types.Typ[types.String]})
		c.Check(r.Kind == facts.VConst && r.Obj == en.Zero, "version-table", fname(g)+"(<any other string>)", e.P.Pos(g.Pos()), "parses to unknown", "parses to "+r.String())
	}
}
