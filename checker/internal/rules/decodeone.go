package rules

import (
	"fmt"
	"go/constant"
	"go/types"
	"sort"
	"strings"

	"cvsslint/internal/facts"
	"cvsslint/internal/ir"
	"cvsslint/internal/load"
	"cvsslint/internal/spec"
)

// ---------------------------------------------------------------------------
// decodeOne: loop-free, analysed as guarded leaves with effects.

type armInfo struct {
	Name    string
	Field   *types.Var
	Parser  *types.Func
	Accept  *ir.Leaf
	Rejects []*ir.Leaf
}

type rejectInfo struct {
	Cond     string // the rejecting condition (identifies the instance: several arms may share one return statement)
	Leaf     *ir.Leaf
	Kind     string // malformed | duplicate | bad-code | foreign-name | propagate
	Sentinel string // name of the cvsserr variable wrapped, or "" for propagate
	Arm      string
}

type decodeOneModel struct {
	Level   *facts.Level
	Fn      *types.Func
	Leaves  []*ir.Leaf
	Split   *ir.Term
	Deleg   *ir.Term
	Arms    map[string]*armInfo
	Rejects []rejectInfo
	ok      bool
}

func intConst(i int64) *ir.Term { return ir.Const(constant.MakeInt64(i), types.Typ[types.Int]) }

func lenOf(x *ir.Term) *ir.Term { return &ir.Term{Op: ir.OBuiltin, Str: "len", Args: []*ir.Term{x}} }

func idx(x *ir.Term, i int64) *ir.Term {
	return &ir.Term{Op: ir.OIndex, Args: []*ir.Term{x, intConst(i)}}
}

// sentinelOf: t is errs.Wrap(<load of cvsserr.X>, ...) -> "X"; errs.Wrap(<other>, ...) -> "", inner
func sentinelOf(t *ir.Term) (name string, inner *ir.Term, isWrap bool) {
	if t.Op != ir.OCall || len(t.Args) < 1 {
		return "", nil, false
	}
	fn, _ := t.Obj.(*types.Func)
	if fn == nil || fn.FullName() != "github.com/goark/errs.Wrap" {
		return "", nil, false
	}
	a := t.Args[0]
	if a.Op == ir.OGlobal && a.Obj.Pkg() != nil && a.Obj.Pkg().Path() == load.ModPath+"/cvsserr" {
		return a.Obj.Name(), a, true
	}
	return "", a, true
}

func isNilConst(t *ir.Term) bool { return t.Op == ir.OConst && t.C == nil }

func isCallOf(t *ir.Term, full string) bool {
	if t == nil || t.Op != ir.OCall {
		return false
	}
	fn, _ := t.Obj.(*types.Func)
	return fn != nil && fn.FullName() == full
}

func hasGuard(lf *ir.Leaf, g *ir.Term) bool {
	k := g.Key()
	for _, x := range lf.Guards {
		if x.Key() == k {
			return true
		}
	}
	return false
}

func (e *Env) modelDecodeOne(l *facts.Level, rule string) *decodeOneModel {
	c := e.C
	m := &decodeOneModel{Level: l, Arms: map[string]*armInfo{}}
	m.Fn = l.DecodeOne
	who := l.String() + ".decodeOne"
	if m.Fn == nil {
		c.Fail(rule, who, "", "method not found")
		return m
	}
	who = fname(m.Fn)
	pos := e.P.Pos(m.Fn.Pos())
	if l.Names == nil {
		c.Undecided(rule, who, pos, l.NamesProblem)
		return m
	}
	sf := e.P.SSAFunc(m.Fn)
	leaves, err := ir.Leaves(sf, ir.LeafOptions{Forward: true, Effects: true, Inline: e.inlineHelpers()})
	if err != nil {
		c.Undecided(rule, who, pos, err.Error())
		return m
	}
	leaves, badRep := e.canonNames(l, leaves)
	for _, why := range badRep {
		c.Undecided(rule, who+" names representation", pos, why)
	}
	leaves = e.canonPredicates(leaves)
	m.Leaves = leaves
	str := &ir.Term{Op: ir.OParam, N: 1}
	// the tokeniser: strings.Split(token, ":") with the shape test len == 2 && both parts non-empty, or
	// strings.Cut(token, ":") with found && !strings.Contains(after, ":") && both parts non-empty. The two accept
	// the same tokens (exactly one ':' with something on either side) and yield the same two parts.
	var cut *ir.Term
	for _, lf := range leaves {
		for _, ef := range lf.Effects {
			if ef.Kind != "call" {
				continue
			}
			switch {
			case isCallOf(ef.Val, "strings.Split") || isCallOf(ef.Val, "strings.SplitN"):
				if m.Split == nil {
					m.Split = ef.Val
				} else if m.Split.Key() != ef.Val.Key() {
					c.Undecided(rule, who, e.P.Pos(ef.Pos), "more than one strings.Split in decodeOne")
					return m
				}
			case isCallOf(ef.Val, "strings.Cut"):
				if cut == nil {
					cut = ef.Val
				} else if cut.Key() != ef.Val.Key() {
					c.Undecided(rule, who, e.P.Pos(ef.Pos), "more than one strings.Cut in decodeOne")
					return m
				}
			}
		}
	}
	if (m.Split == nil) == (cut == nil) {
		c.Undecided(rule, who, pos, "the token is not taken apart by exactly one strings.Split or strings.Cut")
		return m
	}
	colon := func(t *ir.Term) bool {
		return t.Op == ir.OConst && t.C != nil && t.C.Kind() == constant.String && constant.StringVal(t.C) == ":"
	}
	var shape []*ir.Term // the conditions of a well-formed token
	var name, val *ir.Term
	allowed := map[string]bool{}
	if cut != nil {
		sepOK := len(cut.Args) == 2 && cut.Args[0].Key() == str.Key() && colon(cut.Args[1])
		c.Check(sepOK, "token-split", who, e.P.Pos(cut.Pos), `the unmodified token is cut at the first ":"`, "the token is not taken apart as strings.Cut(<unmodified parameter>, \":\"): "+cut.Pretty())
		name, val = ext(cut, 0), ext(cut, 1)
		contains := ir.Call(e.externFunc(l.Pkg.Types, "strings", "Contains"), val, ir.Const(constant.MakeString(":"), types.Typ[types.String]))
		shape = []*ir.Term{ext(cut, 2), ir.NotCond(contains), ir.Bin("!=", intConst(0), lenOf(name)), ir.Bin("!=", intConst(0), lenOf(val))}
		allowed[cut.Key()] = true
		allowed[contains.Key()] = true
		// without the Contains test a second ':' would end up in the value part (the SplitN case below); the
		// accept-path rule then reports the missing condition
		c.Ok("token-split-kind", who, e.P.Pos(cut.Pos), "strings.Cut with a test that the rest holds no further ':': every ':' counts")
		m.Split = cut
	} else {
		sepOK := len(m.Split.Args) >= 2 && m.Split.Args[0].Key() == str.Key() && colon(m.Split.Args[1])
		c.Check(sepOK, "token-split", who, e.P.Pos(m.Split.Pos), `the unmodified token is split at ":"`, "the token is not split as strings.Split(<unmodified parameter>, \":\"): "+m.Split.Pretty())
		// strings.SplitN(token, ":", n) with 0 <= n <= 2 folds extra colons into the value part: the accepted
		// language is unchanged (no value code contains ':'), but a token with an extra colon is then no longer
		// classified as malformed (C11).
		if isCallOf(m.Split, "strings.SplitN") {
			n, okN := int64(-1), false
			if len(m.Split.Args) == 3 && m.Split.Args[2].Op == ir.OConst && m.Split.Args[2].C != nil {
				n, okN = constant.Int64Val(m.Split.Args[2].C)
			}
			switch {
			case !okN:
				c.Undecided("token-split-kind", who, e.P.Pos(m.Split.Pos), "strings.SplitN with a non-constant limit")
			case n >= 0 && n <= 2:
				c.Fail("token-split-kind", who, e.P.Pos(m.Split.Pos), fmt.Sprintf("strings.SplitN(token, \":\", %d): a token with an extra ':' is no longer rejected as malformed (invalid vector) but by whatever the value parser makes of it", n))
			default:
				c.Ok("token-split-kind", who, e.P.Pos(m.Split.Pos), "SplitN limit does not hide extra colons")
			}
		} else {
			c.Ok("token-split-kind", who, e.P.Pos(m.Split.Pos), "strings.Split: every ':' counts")
		}
		sp := m.Split
		name, val = idx(sp, 0), idx(sp, 1)
		shape = []*ir.Term{ir.Bin("==", intConst(2), lenOf(sp)), ir.Bin("!=", intConst(0), lenOf(name)), ir.Bin("!=", intConst(0), lenOf(val))}
	}
	// delegation
	if l.Lower != nil {
		low := l.Lower.DecodeOne
		m.Deleg = ir.Call(low, ir.Field(ir.Param(0), l.Embedded), str)
	}
	namesMap := ir.Field(ir.Param(0), l.Names)
	dup := &ir.Term{Op: ir.OLookup, Args: []*ir.Term{namesMap, name}}
	var dNil, dNonNil, dIs *ir.Term
	if m.Deleg != nil {
		dNil = ir.Bin("==", m.Deleg, nilOf(errorType))
		dNonNil = ir.NotCond(dNil)
		nsm := e.sentinelGlobal("ErrNotSupportMetric")
		isFn := e.externFunc(l.Pkg.Types, "github.com/goark/errs", "Is")
		if nsm == nil || isFn == nil {
			c.Undecided(rule, who, pos, "errs.Is / cvsserr.ErrNotSupportMetric not resolvable")
			return m
		}
		dIs = ir.Call(isFn, m.Deleg, &ir.Term{Op: ir.OGlobal, Obj: nsm})
	}
	metricFields := map[types.Object]bool{}
	for lv := l; lv != nil; lv = lv.Lower {
		for _, f := range lv.Metrics {
			metricFields[f] = true
		}
		if lv.VerField != nil {
			metricFields[lv.VerField] = true
		}
	}
	namesFields := map[types.Object]bool{}
	for lv := l; lv != nil; lv = lv.Lower {
		namesFields[lv.Names] = true
		if lv.Embedded != nil {
			namesFields[lv.Embedded] = true
		}
	}
	levelNames := map[string]bool{}
	for _, n := range l.Spec.Names() {
		levelNames[n] = true
	}
	allOK := true
	bad := func(lf *ir.Leaf, r, msg string) {
		allOK = false
		c.Fail(r, fmt.Sprintf("%s path returning at %s", who, e.P.Pos(lf.Pos)), e.P.Pos(lf.Pos), msg+" | path: "+clip(guardString(lf)))
	}
	for _, lf := range leaves {
		if len(lf.Ret) != 1 {
			c.Undecided(rule, who, pos, "not a single-result function")
			return m
		}
		// order independence: no guard or stored value depends on a metric field
		for _, t := range termsOf(lf) {
			ir.Walk(t, func(x *ir.Term) bool {
				if x.Op == ir.OField && metricFields[x.Obj] {
					bad(lf, "order-independence", "the outcome for one token depends on metric field "+x.Obj.Name()+" (set by another token)")
					return false
				}
				return true
			})
		}
		// only known calls (no normalisation of the token)
		for _, ef := range lf.Effects {
			if ef.Kind != "call" {
				continue
			}
			if !allowed[ef.Val.Key()] && !e.decodeCallAllowed(ef.Val, l) {
				bad(lf, "no-normalisation", "unexpected call on the token path: "+clip(ef.Val.Pretty()))
			}
		}
		// writes that matter here: metric fields, Ver and the names sets of the object; bookkeeping fields the
		// specification does not know (a cache reset, a counter) are the business of C14/C15's write rules
		var writes []ir.Effect
		for _, ef := range lf.Effects {
			switch ef.Kind {
			case "store":
				if ef.Addr.Op == ir.OField && !metricFields[ef.Addr.Obj] && !namesFields[ef.Addr.Obj] {
					continue
				}
				writes = append(writes, ef)
			case "map-update":
				writes = append(writes, ef)
			}
		}
		ret := lf.Ret[0]
		// delegation-first
		if m.Deleg != nil {
			if len(lf.Guards) == 0 || (lf.Guards[0].Key() != dNil.Key() && lf.Guards[0].Key() != dNonNil.Key()) {
				bad(lf, "delegation-first", "the first decision is not the embedded level's decodeOne on the unmodified token")
				continue
			}
		}
		if isNilConst(ret) {
			// accept
			if m.Deleg != nil && hasGuard(lf, dNil) {
				if len(lf.Guards) != 1 || len(writes) != 0 {
					bad(lf, "delegation-first", "after the embedded level accepted the token, this level still tests or writes something")
				} else {
					c.Ok("delegation-first", who+" delegation accept", e.P.Pos(lf.Pos), "returns nil as soon as the embedded level accepted, nothing written at this level")
				}
				continue
			}
			// own accept: find the positive name guard
			var n string
			cnt := 0
			for _, g := range lf.Guards {
				if s, ok := nameEq(g, name, "=="); ok {
					n = s
					cnt++
				}
			}
			if cnt != 1 {
				bad(lf, "accept-path", "an accepting path that is not selected by exactly one metric name")
				continue
			}
			arm := m.Arms[n]
			if arm == nil {
				arm = &armInfo{Name: n}
				m.Arms[n] = arm
			}
			if arm.Accept != nil {
				bad(lf, "accept-path", "two accepting paths for metric name "+n)
				continue
			}
			arm.Accept = lf
			need := append(append([]*ir.Term{}, shape...), ir.NotCond(dup))
			if m.Deleg != nil {
				need = append(need, dNonNil, dIs)
			}
			miss := ""
			for _, g := range need {
				if !hasGuard(lf, g) {
					miss += " " + g.Pretty()
				}
			}
			if miss != "" {
				bad(lf, "accept-path", "metric "+n+" is accepted without the condition(s)"+miss)
				continue
			}
			// effects: field store + names mark
			var fieldStore, mark *ir.Effect
			extra := false
			for i := range writes {
				w := &writes[i]
				switch {
				case w.Kind == "store" && w.Addr.Op == ir.OField && w.Addr.Args[0].Op == ir.OParam && w.Addr.Args[0].N == 0 && fieldStore == nil:
					fieldStore = w
				case w.Kind == "map-update" && w.Addr.Key() == namesMap.Key() && mark == nil:
					mark = w
				default:
					extra = true
				}
			}
			if fieldStore == nil || mark == nil || extra {
				bad(lf, "arm-writes", fmt.Sprintf("metric %s: the write set is not exactly {own field, names[name]} (%d writes)", n, len(writes)))
				continue
			}
			fv, _ := fieldStore.Addr.Obj.(*types.Var)
			arm.Field = fv
			// (on this path the token's name equals n, so the constant n is the token's name)
			if (mark.Key.Key() != name.Key() && !isStringConst(mark.Key, n)) || !isTrueConst(mark.Val) {
				bad(lf, "duplicate-mark", "metric "+n+": names[<token name>] = true is not what is recorded: names["+mark.Key.Pretty()+"] = "+mark.Val.Pretty())
			}
			// value: parser on the value part
			pv := fieldStore.Val
			if pv.Op != ir.OCall || len(pv.Args) != 1 || pv.Args[0].Key() != val.Key() {
				bad(lf, "arm-value", "metric "+n+": the stored value is not <parser>(value part of the token): "+clip(pv.Pretty()))
				continue
			}
			arm.Parser, _ = pv.Obj.(*types.Func)
			// value validity guard
			en := e.F.EnumOf(fv.Type())
			okZero := false
			if en != nil && en.Zero != nil {
				want := ir.Bin("!=", ir.Const(en.Zero.Val(), fv.Type()), pv)
				okZero = hasGuard(lf, want)
			}
			if !okZero {
				bad(lf, "arm-value", "metric "+n+": accepted without testing the parsed value against the type's unknown/invalid constant")
			} else {
				c.Ok("accept-path", fmt.Sprintf("%s case %q", who, n), e.P.Pos(lf.Pos), "accepted only if the token has two non-empty ':'-parts, the name was not seen before, and "+nameOf(arm.Parser)+"(value) is not the unknown constant; then field "+fv.Name()+" and names[name] are the only writes")
			}
			continue
		}
		// reject
		sent, inner, isWrap := sentinelOf(ret)
		if !isWrap {
			bad(lf, "reject-path", "a rejecting path does not return errs.Wrap(...): "+clip(ret.Pretty()))
			continue
		}
		if len(lf.Guards) == 0 {
			bad(lf, "reject-path", "unconditional rejection")
			continue
		}
		last := lf.Guards[len(lf.Guards)-1]
		ri := rejectInfo{Leaf: lf, Sentinel: sent, Cond: clip(last.Pretty())}
		switch {
		case isNegOf(last, shape):
			ri.Kind = "malformed"
		case isShortToken(last, str):
			// len(token) < k with k <= 3: no well-formed token (non-empty name, ':', non-empty value) is that short,
			// so this is a (redundant) case of the shape test
			ri.Kind = "malformed"
		case last.Key() == dup.Key():
			ri.Kind = "duplicate"
		case dIs != nil && last.Key() == ir.NotCond(dIs).Key():
			ri.Kind = "propagate"
			if sent != "" || inner == nil || inner.Key() != m.Deleg.Key() {
				bad(lf, "reject-path", "an error of the embedded level other than 'unsupported metric' is not passed on as errs.Wrap(that error)")
			}
		default:
			if pc, ok := zeroCmp(last); ok {
				ri.Kind = "bad-code"
				// which arm
				for _, g := range lf.Guards {
					if s, ok := nameEq(g, name, "=="); ok {
						ri.Arm = s
					}
				}
				_ = pc
			} else if _, ok := nameEq(last, name, "!="); ok {
				ri.Kind = "foreign-name"
				// must have excluded every name of the level
				ex := map[string]bool{}
				for _, g := range lf.Guards {
					if s, ok := nameEq(g, name, "!="); ok {
						ex[s] = true
					}
				}
				for n := range levelNames {
					if !ex[n] {
						bad(lf, "reject-path", "'unsupported metric' is reported although name "+n+" was not excluded")
					}
				}
			}
		}
		if ri.Kind == "" {
			c.Undecided("reject-path", fmt.Sprintf("%s path returning at %s", who, e.P.Pos(lf.Pos)), e.P.Pos(lf.Pos), "cannot classify the condition that causes this rejection: "+last.Pretty())
			allOK = false
			continue
		}
		// writes on reject paths: only the arm's own field (left behind by a failed decode), never the names mark
		for _, w := range writes {
			if w.Kind == "map-update" {
				bad(lf, "reject-path", "a rejected token is recorded in names")
			} else if ri.Kind != "bad-code" {
				bad(lf, "reject-path", "a rejected token ("+ri.Kind+") modifies the object: "+w.Addr.Pretty())
			}
		}
		if ri.Kind == "bad-code" && ri.Arm != "" {
			arm := m.Arms[ri.Arm]
			if arm == nil {
				arm = &armInfo{Name: ri.Arm}
				m.Arms[ri.Arm] = arm
			}
			arm.Rejects = append(arm.Rejects, lf)
		}
		// tests that must precede: duplicate test before name switch etc.
		if ri.Kind == "bad-code" || ri.Kind == "foreign-name" {
			// (a name of another level is never recorded - marks are made on accepting paths only, each selected by a
			// name of this level - so whether it is refused before or after the duplicate test is the same)
			if ri.Kind == "bad-code" && !hasGuard(lf, ir.NotCond(dup)) {
				bad(lf, "duplicate-test", "the metric name is examined without first testing names[name] (duplicate detection)")
			}
			for _, g := range shape {
				if !hasGuard(lf, g) {
					bad(lf, "token-shape", "the metric name is examined without the token-shape condition "+g.Pretty())
				}
			}
		}
		if ri.Kind == "duplicate" {
			for _, g := range shape {
				if !hasGuard(lf, g) {
					bad(lf, "token-shape", "names[name] is consulted without the token-shape condition "+g.Pretty())
				}
			}
		}
		m.Rejects = append(m.Rejects, ri)
		// one instance per rejecting condition (not per return statement: several arms may share one)
		c.Ok("reject-path", fmt.Sprintf("%s %s %s path on %s", who, ri.Kind, ri.Arm, ri.Cond), e.P.Pos(lf.Pos), "rejected with an error; nothing recorded in names")
	}
	m.ok = allOK
	return m
}

func guardString(lf *ir.Leaf) string {
	var gs []string
	for _, g := range lf.Guards {
		gs = append(gs, g.Pretty())
	}
	return strings.Join(gs, " & ")
}

func termsOf(lf *ir.Leaf) []*ir.Term {
	out := append([]*ir.Term{}, lf.Guards...)
	for _, ef := range lf.Effects {
		if ef.Kind == "call" {
			continue
		}
		if ef.Val != nil {
			out = append(out, ef.Val)
		}
		if ef.Key != nil {
			out = append(out, ef.Key)
		}
	}
	out = append(out, lf.Ret...)
	return out
}

func isTrueConst(t *ir.Term) bool {
	return t.Op == ir.OConst && t.C != nil && t.C.Kind() == constant.Bool && constant.BoolVal(t.C)
}

// nameEq: g is  <const string> op name .
func nameEq(g, name *ir.Term, op string) (string, bool) {
	if g.Op != ir.OBin || g.Str != op {
		return "", false
	}
	for i := 0; i < 2; i++ {
		a, b := g.Args[i], g.Args[1-i]
		if a.Op == ir.OConst && a.C != nil && a.C.Kind() == constant.String && b.Key() == name.Key() {
			return constant.StringVal(a.C), true
		}
	}
	return "", false
}

// zeroCmp: g is  0:T == <parser call> .
func zeroCmp(g *ir.Term) (*ir.Term, bool) {
	if g.Op != ir.OBin || g.Str != "==" {
		return nil, false
	}
	for i := 0; i < 2; i++ {
		a, b := g.Args[i], g.Args[1-i]
		if a.Op == ir.OConst && a.C != nil && a.C.Kind() == constant.Int && b.Op == ir.OCall {
			if v, ok := constant.Int64Val(a.C); ok && v == 0 {
				return b, true
			}
		}
	}
	return nil, false
}

func (e *Env) sentinelGlobal(name string) *types.Var {
	pk := e.P.Lib("cvsserr")
	if pk == nil {
		return nil
	}
	v, _ := pk.Types.Scope().Lookup(name).(*types.Var)
	return v
}

func (e *Env) externFunc(from *types.Package, path, name string) *types.Func {
	for _, imp := range from.Imports() {
		if imp.Path() == path {
			f, _ := imp.Scope().Lookup(name).(*types.Func)
			return f
		}
	}
	return nil
}

// isShortToken: g is  len(tok) < k  or  len(tok) <= k-1  with k <= 3.
func isShortToken(g, tok *ir.Term) bool {
	if g.Op != ir.OBin || len(g.Args) != 2 {
		return false
	}
	l, k := g.Args[0], g.Args[1]
	if l.Op != ir.OBuiltin || l.Str != "len" || len(l.Args) != 1 || l.Args[0].Key() != tok.Key() {
		return false
	}
	v, ok := int64Const(k)
	if !ok {
		return false
	}
	switch g.Str {
	case "<":
		return v <= 3
	case "<=":
		return v <= 2
	}
	return false
}

// isNegOf: g is the negation of one of the conditions.
func isNegOf(g *ir.Term, conds []*ir.Term) bool {
	for _, c := range conds {
		if g.Key() == ir.NotCond(c).Key() {
			return true
		}
	}
	return false
}

// decodeCallAllowed: calls that may appear on a decodeOne path.
func (e *Env) decodeCallAllowed(t *ir.Term, l *facts.Level) bool {
	switch t.Op {
	case ir.OBuiltin:
		if t.Str == "append" {
			return errOptionList(t) // collecting the options of the error under construction
		}
		return t.Str == "len" || t.Str == "errors.Is"
	case ir.OCall:
		fn, _ := t.Obj.(*types.Func)
		if fn == nil {
			return false
		}
		if e.keyFns[fn] {
			return true // the verified name-to-bit function of a bit-set names field (namesrep.go)
		}
		switch fn.FullName() {
		case "strings.Split", "strings.SplitN", "github.com/goark/errs.Wrap", "github.com/goark/errs.WithContext", "github.com/goark/errs.Is":
			return true
		case "fmt.Errorf", "errors.New", "github.com/goark/errs.WithCause":
			return true // building an error value does not feed any comparison of the token (what may be attached is C11's business)
		}
		if fn.Pkg() == l.Pkg.Types {
			sig := fn.Type().(*types.Signature)
			// a parser func(string) T
			if sig.Recv() == nil && sig.Params().Len() == 1 && sig.Results().Len() == 1 && e.F.EnumOf(sig.Results().At(0).Type()) != nil {
				return true
			}
			// the embedded level's decodeOne
			if l.Lower != nil && fn == l.Lower.DecodeOne {
				return true
			}
			// a parameterless predicate of a metric type on a parsed value (v.IsValid()): it sees no part of the
			// token; what its answer decides is judged with the conditions of the path (arm-value, reject-path)
			if rv := sig.Recv(); rv != nil && sig.Params().Len() == 0 && sig.Results().Len() == 1 && e.F.EnumOf(rv.Type()) != nil {
				if bt, ok := sig.Results().At(0).Type().Underlying().(*types.Basic); ok && bt.Kind() == types.Bool {
					return true
				}
			}
		}
	}
	return false
}

// errOptionList: a slice built only from errs.WithContext / errs.WithCause values (a literal list, nil, or
// appends to such a slice): the options of an error under construction.
func errOptionList(t *ir.Term) bool {
	switch {
	case t.Op == "list":
		for _, a := range t.Args {
			fn, _ := a.Obj.(*types.Func)
			if a.Op != ir.OCall || fn == nil || (fn.FullName() != "github.com/goark/errs.WithContext" && fn.FullName() != "github.com/goark/errs.WithCause") {
				return false
			}
		}
		return true
	case t.Op == ir.OConst && t.C == nil:
		return true
	case t.Op == ir.OBuiltin && t.Str == "append":
		for _, a := range t.Args {
			if !errOptionList(a) {
				return false
			}
		}
		return true
	}
	return false
}

// summary of names for evidence
func (m *decodeOneModel) armNames() []string {
	var out []string
	for n, a := range m.Arms {
		if a.Accept != nil {
			out = append(out, n)
		}
	}
	sort.Strings(out)
	return out
}

var _ = spec.V3

// canonPredicates: a boolean method without parameters of an enumeration type of the library that is, on the
// whole domain of the type - every declared constant, the numbers next to them, any other number -, exactly
// "x != zero constant" (IsValid of the v2 types) or "x == zero constant" is read as that comparison in the
// conditions of the paths: `v.IsValid()` after `v = GetX(code)` is the test `v != XInvalid` the rules look for.
// Where the argument is the result of a parser of the library (func(string) T), which yields a declared constant or
// the zero constant, agreement on the declared constants is enough (a v3 IsValid that looks the value up in its
// table is false for numbers outside the enumeration, which no parser returns).
func (e *Env) canonPredicates(leaves []*ir.Leaf) []*ir.Leaf {
	type key struct {
		fn     *types.Func
		consts bool
	}
	kind := map[key]string{}
	// consts: only the declared constants of the type are looked at (the argument is the result of a parser of
	// the library, which yields a declared constant or the zero constant: parse / arm-parser)
	classify := func(fn *types.Func, en *facts.Enum, consts bool) string {
		if k, ok := kind[key{fn, consts}]; ok {
			return k
		}
		ne, eq := true, true
		n := 0
		for _, v := range e.F.Domain(en.Named) {
			if consts && (v.Kind != facts.VConst || v.Obj == nil) {
				continue
			}
			n++
			r, ok := boolOf(e.F.Eval(fn, v))
			if !ok {
				ne, eq = false, false
				break
			}
			isZero := v.Kind == facts.VConst && v.Obj == en.Zero
			if r == isZero {
				ne = false
			}
			if r != isZero {
				eq = false
			}
		}
		k := ""
		switch {
		case n == 0:
		case ne:
			k = "!="
		case eq:
			k = "=="
		}
		kind[key{fn, consts}] = k
		return k
	}
	isParserCall := func(t *ir.Term, T types.Type) bool {
		pf, _ := t.Obj.(*types.Func)
		if t.Op != ir.OCall || pf == nil || len(t.Args) != 1 || pf.Pkg() == nil || !load.IsLib(pf.Pkg().Path()) {
			return false
		}
		sig := pf.Type().(*types.Signature)
		if sig.Recv() != nil || sig.Params().Len() != 1 || sig.Results().Len() != 1 || !types.Identical(sig.Results().At(0).Type(), T) {
			return false
		}
		bt, ok := sig.Params().At(0).Type().Underlying().(*types.Basic)
		return ok && bt.Info()&types.IsString != 0
	}
	rep := func(t *ir.Term) *ir.Term {
		fn, _ := t.Obj.(*types.Func)
		if t.Op != ir.OCall || fn == nil || len(t.Args) != 1 || fn.Pkg() == nil || !load.IsLib(fn.Pkg().Path()) {
			return nil
		}
		sig := fn.Type().(*types.Signature)
		if sig.Recv() == nil || sig.Params().Len() != 0 || sig.Results().Len() != 1 {
			return nil
		}
		if bt, ok := sig.Results().At(0).Type().Underlying().(*types.Basic); !ok || bt.Kind() != types.Bool {
			return nil
		}
		en := e.F.EnumOf(sig.Recv().Type())
		if en == nil || en.Zero == nil {
			return nil
		}
		if k := classify(fn, en, false); k != "" {
			return ir.Bin(k, ir.Const(en.Zero.Val(), sig.Recv().Type()), t.Args[0])
		}
		if isParserCall(t.Args[0], sig.Recv().Type()) {
			if k := classify(fn, en, true); k != "" {
				return ir.Bin(k, ir.Const(en.Zero.Val(), sig.Recv().Type()), t.Args[0])
			}
		}
		return nil
	}
	out := make([]*ir.Leaf, len(leaves))
	for i, lf := range leaves {
		n := *lf
		n.Guards = make([]*ir.Term, len(lf.Guards))
		for j, g := range lf.Guards {
			n.Guards[j] = ir.Replace(g, rep)
		}
		out[i] = &n
	}
	return out
}
