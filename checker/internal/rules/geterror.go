package rules

import (
	"fmt"
	"go/constant"
	"go/types"
	"strings"

	"cvsslint/internal/facts"
	"cvsslint/internal/ir"
	"cvsslint/internal/load"
)

// validGuard returns the guard that asserts "field f holds a defined value"
// in terms of the type's validity predicate, using the predicate's summary to
// get the polarity right (v2's IsUnknown is inverted).
func (e *Env) validGuards(l *facts.Level, fv *types.Var) []*ir.Term {
	T := fv.Type()
	en := e.F.EnumOf(T)
	var out []*ir.Term
	fld := ir.Field(ir.Param(0), fv)
	if en != nil && en.Zero != nil {
		out = append(out, ir.Bin("!=", ir.Const(en.Zero.Val(), T), fld))
	}
	for _, n := range []string{"IsUnknown", "IsValid", "IsDefined"} {
		p := load.MethodOf(T, n)
		if p == nil || en == nil || en.Zero == nil {
			continue
		}
		z, ok := boolOf(e.F.Eval(p, facts.ConstValue(en.Zero)))
		if !ok {
			continue
		}
		// the predicate must separate zero from all defined values to be usable as a validity test
		sep := true
		for _, v := range e.F.Domain(T) {
			if v.Kind != facts.VConst || v.Obj == types.Object(en.Zero) {
				continue
			}
			code, _, _ := e.codeOf(T, v)
			if code == "" {
				continue
			}
			r, ok := boolOf(e.F.Eval(p, v))
			if !ok || r == z {
				sep = false
			}
		}
		if !sep {
			continue
		}
		call := ir.Call(p, fld)
		if z {
			out = append(out, ir.NotCond(call))
		} else {
			out = append(out, call)
		}
	}
	return out
}

// getErrorRules: P6 field coverage, nil guard, lower-level gate, and the
// sentinel of every rejecting path (C11b).
func (e *Env) getErrorRules(l *facts.Level, wantSentinel func(kind string) []string) {
	c := e.C
	ge := l.Method("GetError")
	if ge == nil {
		c.Fail("validity-coverage", l.String()+".GetError", "", "method not found")
		return
	}
	who := fname(ge)
	sf := e.P.SSAFunc(ge)
	leaves, err := ir.Leaves(sf, ir.LeafOptions{Forward: true, Inline: e.inlineHelpers()})
	if err != nil {
		c.Undecided("validity-coverage", who, e.P.Pos(ge.Pos()), err.Error())
		return
	}
	recvNonNil := ir.Bin("!=", ir.Param(0), nilOf(l.Ptr()))
	var lower *ir.Term
	if l.Lower != nil {
		lower = ir.Call(l.Lower.Method("GetError"), ir.Field(ir.Param(0), l.Embedded))
	}
	var empty *ir.Term
	if ie := l.Method("IsEmpty"); ie != nil {
		empty = ir.Call(ie, ir.Param(0))
	}
	fields := append([]*types.Var{}, l.Metrics...)
	if l.VerField != nil {
		fields = append(fields, l.VerField)
	}
	nNil := 0
	for _, lf := range leaves {
		cons := e.pathName(who, lf)
		if len(lf.Ret) != 1 {
			continue
		}
		if isNilConst(lf.Ret[0]) {
			nNil++
			if !hasGuard(lf, recvNonNil) {
				c.Fail("validity-coverage", cons, e.P.Pos(lf.Pos), "reports 'valid' without having tested the receiver for nil")
			}
			if lower != nil && !hasGuard(lf, ir.Bin("==", lower, nilOf(errorType))) {
				c.Fail("validity-coverage", cons, e.P.Pos(lf.Pos), "reports 'valid' without the embedded level's GetError() having returned nil")
			}
			if empty != nil && hasGuard(lf, empty) {
				c.Ok("validity-coverage", cons+" (group absent)", e.P.Pos(lf.Pos), "valid because the group is absent")
				continue
			}
			for _, fv := range fields {
				found := false
				for _, g := range e.validGuards(l, fv) {
					if hasGuard(lf, g) {
						found = true
					}
				}
				c.Check(found, "validity-coverage", fmt.Sprintf("%s field %s", who, fv.Name()), e.P.Pos(lf.Pos), "tested before reporting 'valid'", fmt.Sprintf("GetError reports 'valid' on a path that never tests field %s for its unknown/invalid value", fv.Name()))
			}
			continue
		}
		// a return that may be nil at run time (errs.Wrap(x) with x not known to be non-nil) is a 'valid' verdict
		// that bypasses the coverage above
		if s0, in0, w0 := sentinelOf(lf.Ret[0]); !(w0 && s0 != "") {
			nonNil := false
			if w0 && in0 != nil && hasGuard(lf, ir.Bin("!=", in0, nilOf(errorType))) {
				nonNil = true
			}
			if !nonNil {
				c.Fail("validity-coverage", cons, e.P.Pos(lf.Pos), "returns an error value that is not provably non-nil ("+clip(lf.Ret[0].Pretty())+"): the object can be reported valid without the field and embedded-level tests")
			}
		}
		// rejecting path: sentinel by cause
		sent, inner, isWrap := sentinelOf(lf.Ret[0])
		if !isWrap {
			c.Fail("sentinel-pairing", cons, e.P.Pos(lf.Pos), "error is not errs.Wrap(...)")
			continue
		}
		kindOf := func(g *ir.Term) string {
			switch {
			case g.Key() == ir.NotCond(recvNonNil).Key():
				return "nil-receiver"
			case lower != nil && g.Key() == ir.Bin("!=", lower, nilOf(errorType)).Key():
				return "propagate"
			}
			for _, fv := range fields {
				for _, vg := range e.validGuards(l, fv) {
					if g.Key() == ir.NotCond(vg).Key() {
						if fv == l.VerField {
							return "version"
						}
						return "field-invalid"
					}
				}
			}
			return ""
		}
		kind := ""
		if len(lf.Guards) > 0 {
			kind = kindOf(lf.Guards[len(lf.Guards)-1])
		}
		if kind == "" {
			// the tests were all made before the verdict (say, to list every failing metric in the error): the cause
			// is what the failing tests on the path have in common; every other condition must be a passing test
			kinds := map[string]bool{}
			rest := true
			for _, g := range lf.Guards {
				if k := kindOf(g); k != "" {
					kinds[k] = true
				} else if kindOf(ir.NotCond(g)) == "" {
					rest = false
				}
			}
			if len(kinds) == 1 && rest {
				for k := range kinds {
					kind = k
				}
			}
		}
		if kind == "" {
			c.Fail("validity-rejections", cons, e.P.Pos(lf.Pos), "GetError reports an error for a reason other than a nil receiver, the embedded level's error or an unknown/invalid field of its own level: "+clip(guardString(lf)))
		} else {
			c.Ok("validity-rejections", cons, e.P.Pos(lf.Pos), "error caused by: "+kind)
		}
		switch kind {
		case "":
			c.Undecided("sentinel-pairing", cons, e.P.Pos(lf.Pos), "cannot classify the condition causing this error: "+guardString(lf))
		case "propagate":
			c.Check(sent == "" && inner != nil && inner.Key() == lower.Key(), "sentinel-pairing", cons, e.P.Pos(lf.Pos), "the embedded level's error is passed on as errs.Wrap(err)", "the embedded level's error is replaced by something else")
		default:
			want := wantSentinel(kind)
			ok := false
			for _, w := range want {
				if w == sent {
					ok = true
				}
			}
			c.Check(ok, "sentinel-pairing", cons+" ("+kind+")", e.P.Pos(lf.Pos), "cvsserr."+sent, fmt.Sprintf("%s is reported as cvsserr.%s, expected one of %v", kind, sent, want))
		}
	}
	c.Check(nNil >= 1, "validity-coverage", who+" valid paths", e.P.Pos(ge.Pos()), fmt.Sprintf("%d", nNil), "GetError never reports 'valid'")
}

// groupEmptiness (v2): IsEmpty() is true exactly when none of the level's
// names is recorded in names (or the receiver is nil). The equations (C04/C05),
// GetError's all-or-nothing test (C08) and Encode's guards all rely on it.
func (e *Env) groupEmptiness(l *facts.Level) {
	c := e.C
	ie := l.Method("IsEmpty")
	if ie == nil {
		return
	}
	who := fname(ie)
	if l.Names == nil {
		c.Undecided("group-emptiness", who, e.P.Pos(ie.Pos()), l.NamesProblem)
		return
	}
	leaves, err := ir.Leaves(e.P.SSAFunc(ie), ir.LeafOptions{Forward: true, Inline: e.inlineHelpers()})
	if err != nil {
		c.Undecided("group-emptiness", who, e.P.Pos(ie.Pos()), err.Error())
		return
	}
	leaves, badRep := e.canonNames(l, leaves)
	for _, why := range badRep {
		c.Undecided("group-emptiness", who+" names representation", e.P.Pos(ie.Pos()), why)
	}
	namesMap := ir.Field(ir.Param(0), l.Names)
	look := func(n string) *ir.Term {
		return &ir.Term{Op: ir.OLookup, Args: []*ir.Term{namesMap, ir.Const(constant.MakeString(n), types.Typ[types.String])}}
	}
	recvNil := ir.Bin("==", ir.Param(0), nilOf(l.Ptr()))
	ok := true
	// a boolean expression returned as a value is split into its two outcomes
	var split []*ir.Leaf
	for _, lf := range leaves {
		if len(lf.Ret) == 1 && lf.Ret[0].Op != ir.OConst && (lf.Ret[0].Op == ir.OLookup || lf.Ret[0].Op == ir.OUn || lf.Ret[0].Op == ir.OBin || lf.Ret[0].Op == ir.OCall) {
			t := lf.Ret[0]
			split = append(split,
				&ir.Leaf{Guards: append(append([]*ir.Term{}, lf.Guards...), t), Ret: []*ir.Term{ir.Const(constant.MakeBool(true), types.Typ[types.Bool])}, Pos: lf.Pos},
				&ir.Leaf{Guards: append(append([]*ir.Term{}, lf.Guards...), ir.NotCond(t)), Ret: []*ir.Term{ir.Const(constant.MakeBool(false), types.Typ[types.Bool])}, Pos: lf.Pos})
			continue
		}
		split = append(split, lf)
	}
	leaves = split
	for _, lf := range leaves {
		if len(lf.Ret) != 1 || lf.Ret[0].Op != ir.OConst || lf.Ret[0].C == nil || lf.Ret[0].C.Kind() != constant.Bool {
			ok = false
			c.Undecided("group-emptiness", who, e.P.Pos(lf.Pos), "result is not decided by the path: "+lf.String())
			continue
		}
		res := constant.BoolVal(lf.Ret[0].C)
		if hasGuard(lf, recvNil) {
			if !res {
				ok = false
				c.Fail("group-emptiness", who, e.P.Pos(lf.Pos), "a nil object reports a non-empty group")
			}
			continue
		}
		// a bit set compared with 0 as a whole: empty exactly when no name is recorded (bits are set only by the
		// marks of decodeOne, each for a name of the level: accept-path / write-ownership)
		emptySet := ir.Bin("==", ir.Const(constant.MakeInt64(0), l.Names.Type()), namesMap)
		if l.NamesBits && ((res && hasGuard(lf, emptySet)) || (!res && hasGuard(lf, ir.NotCond(emptySet)))) {
			continue
		}
		// a names map without any entry records no name at all
		if res && !l.NamesBits && hasGuard(lf, ir.Bin("==", intConst(0), lenOf(namesMap))) {
			continue
		}
		if res {
			for _, n := range l.Spec.Names() {
				if !hasGuard(lf, ir.NotCond(look(n))) {
					ok = false
					c.Fail("group-emptiness", who, e.P.Pos(lf.Pos), "reports the group empty on a path that did not see names[\""+n+"\"] false: "+lf.String())
				}
			}
		} else {
			found := false
			for _, n := range l.Spec.Names() {
				if hasGuard(lf, look(n)) {
					found = true
				}
			}
			if !found {
				ok = false
				c.Fail("group-emptiness", who, e.P.Pos(lf.Pos), "reports the group present on a path where no name of the group was seen recorded: "+lf.String())
			}
		}
		// only names may be consulted
		for _, g := range lf.Guards {
			ir.Walk(g, func(x *ir.Term) bool {
				if x.Op == ir.OField && x.Obj != types.Object(l.Names) {
					ok = false
					c.Fail("group-emptiness", who, e.P.Pos(lf.Pos), "group presence depends on field "+x.Obj.Name()+" instead of the recorded names")
					return false
				}
				return true
			})
		}
	}
	if ok {
		c.Ok("group-emptiness", who, e.P.Pos(ie.Pos()), "true exactly when none of "+strings.Join(l.Spec.Names(), ", ")+" is recorded (or the receiver is nil)")
	}
}

// promotedExported: an exported method reached through the embedded pointer
// dereferences the receiver to load that pointer, so it panics on a nil
// receiver; every exported method must be declared at each level.
func (e *Env) promotedExported(l *facts.Level) {
	c := e.C
	if l.Lower == nil {
		return
	}
	ms := types.NewMethodSet(l.Ptr())
	n := 0
	for i := 0; i < ms.Len(); i++ {
		sel := ms.At(i)
		fn, ok := sel.Obj().(*types.Func)
		if !ok || !fn.Exported() {
			continue
		}
		n++
		if len(sel.Index()) > 1 {
			c.Fail("nil-receiver", fmt.Sprintf("(*%s.%s).%s (promoted from the embedded level)", load.Rel(l.Pkg.PkgPath), l.Spec.Name, fn.Name()), e.P.Pos(l.Named.Obj().Pos()), "the method is not declared on *"+l.Spec.Name+" but promoted through the embedded pointer: calling it on a nil *"+l.Spec.Name+" dereferences nil to reach the embedded object and panics")
		}
	}
	c.Ok("promoted-methods", l.String(), e.P.Pos(l.Named.Obj().Pos()), fmt.Sprintf("%d exported methods checked for promotion through the embedded pointer", n))
}
