package rules

import (
	"fmt"
	"go/types"

	"cvsslint/internal/facts"
	"cvsslint/internal/ir"
	"cvsslint/internal/load"
)

// validGuard returns the guard that asserts "field f holds a defined value"
// in terms of the type's validity predicate, using the predicate's summary to
// get the polarity right (v2's IsUnknown is inverted).
func (e *Env) validGuards(l *facts.Level, fv *types.Var) []*ir.Term {
	T := fv.Type()
	en := e.F.EnumOf(T)
	var out []*ir.Term
	fld := ir.Field(ir.Param(0), fv)
	if en != nil && en.Zero != nil {
		out = append(out, ir.Bin("!=", ir.Const(en.Zero.Val(), T), fld))
	}
	for _, n := range []string{"IsUnknown", "IsValid", "IsDefined"} {
		p := load.MethodOf(T, n)
		if p == nil || en == nil || en.Zero == nil {
			continue
		}
		z, ok := boolOf(e.F.Eval(p, facts.ConstValue(en.Zero)))
		if !ok {
			continue
		}
		// the predicate must separate zero from all defined values to be usable as a validity test
		sep := true
		for _, v := range e.F.Domain(T) {
			if v.Kind != facts.VConst || v.Obj == types.Object(en.Zero) {
				continue
			}
			code, _, _ := e.codeOf(T, v)
			if code == "" {
				continue
			}
			r, ok := boolOf(e.F.Eval(p, v))
			if !ok || r == z {
				sep = false
			}
		}
		if !sep {
			continue
		}
		call := ir.Call(p, fld)
		if z {
			out = append(out, ir.NotCond(call))
		} else {
			out = append(out, call)
		}
	}
	return out
}

// getErrorRules: P6 field coverage, nil guard, lower-level gate, and the
// sentinel of every rejecting path (C11b).
func (e *Env) getErrorRules(l *facts.Level, wantSentinel func(kind string) []string) {
	c := e.C
	ge := l.Method("GetError")
	if ge == nil {
		c.Fail("validity-coverage", l.String()+".GetError", "", "method not found")
		return
	}
	who := fname(ge)
	sf := e.P.SSAFunc(ge)
	leaves, err := ir.Leaves(sf, ir.LeafOptions{Forward: true})
	if err != nil {
		c.Undecided("validity-coverage", who, e.P.Pos(ge.Pos()), err.Error())
		return
	}
	recvNonNil := ir.Bin("!=", ir.Param(0), nilOf(l.Ptr()))
	var lower *ir.Term
	if l.Lower != nil {
		lower = ir.Call(l.Lower.Method("GetError"), ir.Field(ir.Param(0), l.Embedded))
	}
	var empty *ir.Term
	if ie := l.Method("IsEmpty"); ie != nil {
		empty = ir.Call(ie, ir.Param(0))
	}
	fields := append([]*types.Var{}, l.Metrics...)
	if l.VerField != nil {
		fields = append(fields, l.VerField)
	}
	nNil := 0
	for _, lf := range leaves {
		cons := fmt.Sprintf("%s path returning at %s", who, e.P.Pos(lf.Pos))
		if len(lf.Ret) != 1 {
			continue
		}
		if isNilConst(lf.Ret[0]) {
			nNil++
			if !hasGuard(lf, recvNonNil) {
				c.Fail("validity-coverage", cons, e.P.Pos(lf.Pos), "reports 'valid' without having tested the receiver for nil")
			}
			if lower != nil && !hasGuard(lf, ir.Bin("==", lower, nilOf(errorType))) {
				c.Fail("validity-coverage", cons, e.P.Pos(lf.Pos), "reports 'valid' without the embedded level's GetError() having returned nil")
			}
			if empty != nil && hasGuard(lf, empty) {
				c.Ok("validity-coverage", cons+" (group absent)", e.P.Pos(lf.Pos), "valid because the group is absent")
				continue
			}
			for _, fv := range fields {
				found := false
				for _, g := range e.validGuards(l, fv) {
					if hasGuard(lf, g) {
						found = true
					}
				}
				c.Check(found, "validity-coverage", fmt.Sprintf("%s field %s", who, fv.Name()), e.P.Pos(lf.Pos), "tested before reporting 'valid'", fmt.Sprintf("GetError reports 'valid' on a path that never tests field %s for its unknown/invalid value", fv.Name()))
			}
			continue
		}
		// rejecting path: sentinel by cause
		sent, inner, isWrap := sentinelOf(lf.Ret[0])
		if !isWrap {
			c.Fail("sentinel-pairing", cons, e.P.Pos(lf.Pos), "error is not errs.Wrap(...)")
			continue
		}
		kind := ""
		if len(lf.Guards) > 0 {
			last := lf.Guards[len(lf.Guards)-1]
			switch {
			case last.Key() == ir.NotCond(recvNonNil).Key():
				kind = "nil-receiver"
			case lower != nil && last.Key() == ir.Bin("!=", lower, nilOf(errorType)).Key():
				kind = "propagate"
			default:
				for _, fv := range fields {
					for _, g := range e.validGuards(l, fv) {
						if last.Key() == ir.NotCond(g).Key() {
							if fv == l.VerField {
								kind = "version"
							} else {
								kind = "field-invalid"
							}
						}
					}
				}
			}
		}
		switch kind {
		case "":
			c.Undecided("sentinel-pairing", cons, e.P.Pos(lf.Pos), "cannot classify the condition causing this error: "+guardString(lf))
		case "propagate":
			c.Check(sent == "" && inner != nil && inner.Key() == lower.Key(), "sentinel-pairing", cons, e.P.Pos(lf.Pos), "the embedded level's error is passed on as errs.Wrap(err)", "the embedded level's error is replaced by something else")
		default:
			want := wantSentinel(kind)
			ok := false
			for _, w := range want {
				if w == sent {
					ok = true
				}
			}
			c.Check(ok, "sentinel-pairing", cons+" ("+kind+")", e.P.Pos(lf.Pos), "cvsserr."+sent, fmt.Sprintf("%s is reported as cvsserr.%s, expected one of %v", kind, sent, want))
		}
	}
	c.Check(nNil >= 1, "validity-coverage", who+" valid paths", e.P.Pos(ge.Pos()), fmt.Sprintf("%d", nNil), "GetError never reports 'valid'")
}
