package rules

import (
	"fmt"
	"go/constant"
	"go/token"
	"go/types"
	"math"

	"cvsslint/internal/facts"
	"cvsslint/internal/ir"
	"cvsslint/internal/spec"

	"golang.org/x/tools/go/ssa"
)

func init() { register("C06", c06) }

func c06(e *Env) {
	c := e.C
	c.Level = "other"
	c.Explanation = "Decides the structural part of 'scores lie on the tenth grid and severity is the band of the score': (1) return discipline - every return of the six Score methods and the two score helpers is the constant 0, a call of a rounding helper that produces tenths, or a call of a lower-level Score/score (induction over embedding depth); (2) rounding-helper shape - every return of roundUp / roundTo1Decimal is integer/10, or integer/10^k under the guard int(n)%10^(k-1)==0, with the integer built from math.Round/Floor/Ceil and integer constants only; (3) upper cap - the operand of the outer round-up in v3 is min(.,10) or a product of a capped score with weights in [0,1]; (4) each Severity() is severity(own-level Score()); (5) the two severity() functions use their argument only in comparisons with constants on the tenth grid, so they are decided on all 101 grid points (plus representatives below 0 and above 10) against the band tables; (6) the report score fields are strconv.FormatFloat(Score(), 'f', -1, 64); (7) the Score terms are the specification's equations (score-term, as in C01-C05 without the v2 rounding-point discipline): the range [0,10] is a property of those equations."
	c.Trusted = []string{"go/types + go/ssa", "math.Round/Floor/Ceil return integral values; x/10 for an integer x is the float64 nearest to the decimal, which FormatFloat(-1) prints with at most one digit", "band tables in checker/internal/spec"}
	c.NotDecided = []string{"numeric upper/lower bounds of the v2 equations (that they stay within [0,10])", "that the value handed to a rounding helper is finite", "the v2 environmental negative corner (excluded by the property)"}
	for _, v := range []*spec.Version{&spec.V3, &spec.V2} {
		k := e.newScoreKit(v, "return-discipline")
		if k == nil {
			continue
		}
		e.guardPanics("return-discipline", v.Name, func() {
			e.returnDiscipline(k)
			e.rounderShape(k)
			e.ownSeverity(k)
			e.severityBands(k)
			if v.Name == "v3" {
				e.upperCap(k)
			}
		})
	}
	// that the value handed to the final rounding lies in [0,10] is a property of the equation: the specification's
	// equations are bounded (C01-C05's numeric side), so the terms of the Score functions must be those equations
	// (without C04/C05's rounding-point discipline, which does not move a score off the grid or out of the range)
	if k3 := e.newScoreKit(&spec.V3, "score-term"); k3 != nil {
		e.guardPanics("score-term", "v3 references", func() {
			e.termV3Base(k3)
			e.termV3Temporal(k3)
			e.termV3Env(k3)
		})
	}
	if k2 := e.newScoreKit(&spec.V2, "score-term"); k2 != nil {
		e.guardPanics("score-term", "v2 references", func() {
			e.termV2BaseTemporal(k2, false)
			e.termV2Env(k2, false)
		})
	}
	e.reportScoreRendering("score-rendering")
	c.Floor("return-discipline", 8)
	c.Floor("rounder-shape", 3)
	c.Floor("own-level-severity", 6)
	c.Floor("severity-band", 2*103)
	c.Floor("upper-cap", 4)
	c.Floor("score-rendering", 3)
}

// scoreFuncs: the exported Score methods plus, transitively, every unexported
// in-package function with one float64 result whose call stands in return
// position of one of them (the score helpers). Helpers that only compute an
// operand of the equation (an impact sub-score, say) are not score functions:
// their results are not returned to the user, and the rounding helper applied
// afterwards is what puts the result on the grid.
func (k *scoreKit) scoreFuncs() []*types.Func {
	if k.scoreFns != nil {
		return k.scoreFns
	}
	var out []*types.Func
	seen := map[*types.Func]bool{}
	var add func(f *types.Func)
	add = func(f *types.Func) {
		if f == nil || seen[f] {
			return
		}
		seen[f] = true
		out = append(out, f)
		sf := k.e.P.SSAFunc(f)
		if sf == nil || len(sf.Blocks) == 0 {
			return
		}
		ls, err := ir.Leaves(sf, ir.LeafOptions{})
		if err != nil {
			return
		}
		for _, lf := range ls {
			if len(lf.Ret) != 1 || lf.Ret[0].Op != ir.OCall {
				continue
			}
			g, ok := lf.Ret[0].Obj.(*types.Func)
			if !ok || g.Pkg() != k.pkg || g.Exported() || k.isRounder(g) {
				continue
			}
			sig := g.Type().(*types.Signature)
			if sig.Results().Len() == 1 && isFloat64(sig.Results().At(0).Type()) {
				add(g)
			}
		}
	}
	for _, l := range k.levels {
		add(l.Method("Score"))
	}
	k.scoreFns = out
	return out
}

func (k *scoreKit) isRounder(g *types.Func) bool {
	for _, f := range k.round {
		if f == g {
			return true
		}
	}
	return false
}

func (e *Env) returnDiscipline(k *scoreKit) {
	c := e.C
	allowed := map[types.Object]string{}
	for _, n := range []string{"roundUp", "round1"} {
		if f := k.round[n]; f != nil {
			allowed[f] = "rounding helper " + f.Name()
		}
	}
	fns := k.scoreFuncs()
	for _, f := range fns {
		allowed[f] = "score function " + fname(f)
	}
	// gridValued: every return of an in-package helper is itself on the tenth grid
	var gridValued func(g *types.Func, depth int) bool
	gridTerm := func(r *ir.Term, f *types.Func, depth int) bool {
		switch {
		case r.Op == ir.OConst && isZeroConst(r):
			return true
		case r.Op == ir.OCall && allowed[r.Obj] != "":
			return r.Obj != types.Object(f)
		case r.Op == ir.OBin && r.Str == "/" && k.integral(r.Args[0]) && isTen(r.Args[1]):
			return true
		case r.Op == ir.OCall:
			if g, ok := r.Obj.(*types.Func); ok && g.Pkg() == k.pkg && !g.Exported() && depth < 3 {
				return gridValued(g, depth+1)
			}
		}
		return false
	}
	gridValued = func(g *types.Func, depth int) bool {
		sf := e.P.SSAFunc(g)
		if sf == nil || len(sf.Blocks) == 0 {
			return false
		}
		ls, err := ir.Leaves(sf, ir.LeafOptions{})
		if err != nil || len(ls) == 0 {
			return false
		}
		for _, lf := range ls {
			if len(lf.Ret) != 1 || !gridTerm(lf.Ret[0], g, depth) {
				return false
			}
		}
		return true
	}
	for _, f := range fns {
		sf := e.P.SSAFunc(f)
		leaves, err := ir.Leaves(sf, ir.LeafOptions{})
		if err != nil {
			c.Undecided("return-discipline", fname(f), e.P.Pos(f.Pos()), err.Error())
			continue
		}
		ok := true
		n := 0
		for _, lf := range leaves {
			if len(lf.Ret) != 1 {
				continue
			}
			n++
			r := lf.Ret[0]
			switch {
			case gridTerm(r, f, 0):
			case r.Op == ir.OConst && isZeroConst(r):
			case r.Op == ir.OCall && allowed[r.Obj] != "":
				if r.Obj == types.Object(f) {
					ok = false
					c.Fail("return-discipline", fname(f), e.P.Pos(lf.Pos), "recursive score call")
				}
			case r.Op == ir.OBin && r.Str == "/" && k.integral(r.Args[0]) && isTen(r.Args[1]):
				// an inline integer/10 is itself a tenth
			case r.Op == ir.OParam && r.N > 0 && !f.Exported() && e.paramIsScore(k, f, r.N, allowed):
				// an unexported helper handing back a score it was given
			default:
				ok = false
				c.Fail("return-discipline", fname(f), e.P.Pos(lf.Pos), "a return value is neither 0, nor the result of a tenth-producing rounding helper, nor a lower-level score: "+clip(r.Pretty()))
			}
		}
		if ok {
			c.Ok("return-discipline", fname(f), e.P.Pos(f.Pos()), fmt.Sprintf("%d return paths: each 0, a rounding helper or a lower-level score", n))
		}
	}
}

func isZeroConst(t *ir.Term) bool {
	f, ok := floatConst(t)
	return ok && f == 0
}

// integral: the term is integer-valued by construction.
func (k *scoreKit) integral(t *ir.Term) bool {
	switch t.Op {
	case ir.OConst:
		f, ok := floatConst(t)
		return ok && f == math.Trunc(f)
	case ir.OCall:
		for _, n := range []string{"Round", "Floor", "Ceil", "Trunc"} {
			if t.Obj == types.Object(k.mathFn[n]) {
				return true
			}
		}
	case ir.OSum:
		for _, a := range t.Args {
			if !k.integral(a) {
				return false
			}
		}
		return true
	case ir.ONeg:
		return k.integral(t.Args[0])
	}
	return false
}

func pow10(f float64) (int, bool) {
	p := 1.0
	for k := 1; k <= 9; k++ {
		p *= 10
		if f == p {
			return k, true
		}
	}
	return 0, false
}

func (e *Env) rounderShape(k *scoreKit) {
	c := e.C
	for _, name := range []string{"roundUp", "round1"} {
		f := k.round[name]
		if f == nil {
			if (name == "roundUp") == (k.ver.Name == "v3") {
				c.Fail("rounder-shape", k.ver.Pkg+" "+name, "", "rounding helper not found")
			}
			continue
		}
		sf := e.P.SSAFunc(f)
		leaves, err := ir.Leaves(sf, ir.LeafOptions{})
		if err != nil {
			c.Undecided("rounder-shape", fname(f), e.P.Pos(f.Pos()), err.Error())
			continue
		}
		for i, lf := range leaves {
			cons := fmt.Sprintf("%s return #%d", fname(f), i+1)
			r := lf.Ret[0]
			if r.Op != ir.OBin || r.Str != "/" {
				c.Fail("rounder-shape", cons, e.P.Pos(lf.Pos), "result is not integer / 10^k (e.g. multiplying by 0.1 yields 7.300000000000001): "+clip(r.Pretty()))
				continue
			}
			den, okd := floatConst(r.Args[1])
			kk, okp := pow10(den)
			if !okd || !okp {
				c.Fail("rounder-shape", cons, e.P.Pos(lf.Pos), "divisor is not a power of ten: "+clip(r.Pretty()))
				continue
			}
			if !k.integral(r.Args[0]) {
				c.Fail("rounder-shape", cons, e.P.Pos(lf.Pos), "numerator is not built from math.Round/Floor/Ceil results and integer constants: "+clip(r.Args[0].Pretty()))
				continue
			}
			if kk == 1 {
				c.Ok("rounder-shape", cons, e.P.Pos(lf.Pos), "integer / 10")
				continue
			}
			// need guard  int(n) % 10^(k-1) == 0
			want := math.Pow(10, float64(kk-1))
			found := false
			for _, g := range lf.Guards {
				if g.Op != ir.OBin || g.Str != "==" {
					continue
				}
				var mod, zero *ir.Term
				for _, a := range g.Args {
					if a.Op == ir.OBin && a.Str == "%" {
						mod = a
					} else {
						zero = a
					}
				}
				if mod == nil || zero == nil {
					continue
				}
				zf, _ := floatConst(zero)
				mf, okm := floatConst(mod.Args[1])
				x := mod.Args[0]
				if x.Op == ir.OConv {
					x = x.Args[0]
				}
				if okm && mf == want && zf == 0 && isZeroish(zero) && x.Key() == r.Args[0].Key() {
					found = true
				}
			}
			c.Check(found, "rounder-shape", cons, e.P.Pos(lf.Pos), fmt.Sprintf("integer / 10^%d under the guard int(n) %% 10^%d == 0", kk, kk-1), fmt.Sprintf("returns n / 10^%d without the guard n %% 10^%d == 0: the result need not be a tenth", kk, kk-1))
		}
	}
}

func isZeroish(t *ir.Term) bool {
	return t.Op == ir.OConst && t.C != nil && (t.C.Kind() == constant.Int || t.C.Kind() == constant.Float)
}

func (e *Env) ownSeverity(k *scoreKit) {
	c := e.C
	var sevFn *types.Func // identified by role: what every Severity() passes its own Score() to
	for _, l := range k.levels {
		m := l.Method("Severity")
		if m == nil {
			c.Fail("own-level-severity", l.String()+".Severity", "", "method missing")
			continue
		}
		sf := e.P.SSAFunc(m)
		leaves, err := ir.Leaves(sf, ir.LeafOptions{})
		if err == nil && len(leaves) == 2 {
			// an explicit guard for the nil receiver in front (if m == nil { return severity(noScore) }): the same
			// value as severity(m.Score()) when Score itself returns that constant for a nil receiver
			leaves = e.dropNilSeverityLeaf(l, leaves)
		}
		if err != nil || len(leaves) != 1 || len(leaves[0].Ret) != 1 {
			c.Undecided("own-level-severity", fname(m), e.P.Pos(m.Pos()), fmt.Sprint("not a single-path function ", err))
			continue
		}
		r := leaves[0].Ret[0]
		good := r.Op == ir.OCall && len(r.Args) == 1
		if good {
			if sevFn != nil {
				good = r.Obj == types.Object(sevFn)
			}
			a := r.Args[0]
			own := l.Method("Score")
			good = good && a.Op == ir.OCall && a.Obj == types.Object(own) && len(a.Args) == 1 && a.Args[0].Op == ir.OParam && a.Args[0].N == 0
			if good && sevFn == nil {
				if f, ok := r.Obj.(*types.Func); ok {
					sevFn = f
				}
			}
		}
		c.Check(good, "own-level-severity", fname(m), e.P.Pos(m.Pos()), "severity(receiver.Score()) with Score declared on the receiver's own type", "severity is not computed from the receiver's own-level Score(): "+clip(r.Pretty()))
	}
	k.round["severity"] = sevFn
}

func (e *Env) severityBands(k *scoreKit) {
	c := e.C
	sevFn := k.round["severity"]
	if sevFn == nil {
		c.Fail("severity-band", k.ver.Pkg+" severity()", "", "band function not found")
		return
	}
	bands := spec.BandsV3
	if k.ver.Name == "v2" {
		bands = spec.BandsV2
	}
	sf := e.P.SSAFunc(sevFn)
	leaves, err := ir.Leaves(sf, ir.LeafOptions{})
	if err != nil {
		// a loop over a table of bands: no paths to read the comparisons from; the summary of the function is
		// evaluated at every grid point instead (below)
		if s := e.F.Summarise(sevFn); s.Err != "" {
			c.Undecided("severity-band", fname(sevFn), e.P.Pos(sevFn.Pos()), err.Error()+"; and its summary: "+s.Err)
			return
		}
		leaves = nil
	}
	sevT := sevFn.Type().(*types.Signature).Results().At(0).Type()
	strM := methodOf(sevT, "String")
	// thresholds must be on the grid and conditions comparison-only
	evalGuard := func(g *ir.Term, tenths int) (bool, error) {
		if g.Op != ir.OBin {
			return false, fmt.Errorf("condition is not a comparison: %s", g.Pretty())
		}
		val := func(t *ir.Term) (int, error) {
			if t.Op == ir.OParam && t.N == 0 {
				return tenths, nil
			}
			f, ok := floatConst(t)
			if !ok {
				return 0, fmt.Errorf("operand is neither the score nor a constant: %s", t.Pretty())
			}
			k10 := math.Round(f * 10)
			if k10/10 != f {
				return 0, fmt.Errorf("threshold %v is not a multiple of 0.1", f)
			}
			return int(k10), nil
		}
		a, err := val(g.Args[0])
		if err != nil {
			return false, err
		}
		b, err := val(g.Args[1])
		if err != nil {
			return false, err
		}
		switch g.Str {
		case "<":
			return a < b, nil
		case "<=":
			return a <= b, nil
		case "==":
			return a == b, nil
		case "!=":
			return a != b, nil
		}
		return false, fmt.Errorf("operator %s", g.Str)
	}
	points := []int{}
	for t := 0; t <= 100; t++ {
		points = append(points, t)
	}
	points = append(points, -1, 101)
	for _, t := range points {
		cons := fmt.Sprintf("%s severity(%s)", k.ver.Name, tenthStr(t))
		var got *ir.Term
		n := 0
		bad := false
		for _, lf := range leaves {
			all := true
			for _, g := range lf.Guards {
				ok, err := evalGuard(g, t)
				if err != nil {
					c.Undecided("severity-band", fname(sevFn), e.P.Pos(lf.Pos), err.Error())
					bad = true
					break
				}
				if !ok {
					all = false
					break
				}
			}
			if bad {
				break
			}
			if all {
				n++
				got = lf.Ret[0]
			}
		}
		if bad {
			return
		}
		name := ""
		if n != 1 || got == nil || got.Op != ir.OConst {
			// the bands may be data (a table of thresholds walked by a helper): the function's summary evaluated at
			// this grid point, as the program computes it (the score is the float64 nearest to the tenth, a threshold the
			// float64 nearest to what the source writes)
			pt := facts.Value{Kind: facts.VConst, C: constant.MakeFloat64(float64(t) / 10), Type: types.Typ[types.Float64]}
			r := e.F.Eval(sevFn, pt)
			if r.Kind != facts.VConst || r.C == nil {
				c.Undecided("severity-band", cons, e.P.Pos(sevFn.Pos()), fmt.Sprintf("%d paths apply, and the summary of the function gives %s", n, r))
				continue
			}
			name, _ = stringOf(e.F.Eval(strM, r))
		} else {
			name, _ = stringOf(e.F.Eval(strM, facts.Value{Kind: facts.VConst, C: got.C, Type: sevT}))
		}
		want := ""
		for _, b := range bands {
			if t >= b.Lo && t <= b.Hi {
				want = b.Name
			}
		}
		switch {
		case t < 0:
			// unspecified by the property (v2 environmental negative corner); v3 never negative
			c.Ok("severity-band", cons, e.P.Pos(sevFn.Pos()), "below the grid: "+name+" (unspecified)")
		case t > 100:
			c.Ok("severity-band", cons, e.P.Pos(sevFn.Pos()), "above the grid: "+name+" (unreachable by the upper-cap rule)")
		default:
			c.Check(name == want, "severity-band", cons, e.P.Pos(sevFn.Pos()), name, fmt.Sprintf("score %s is rated %s, the band table says %s", tenthStr(t), name, want))
		}
	}
}

func tenthStr(t int) string {
	if t < 0 {
		return fmt.Sprintf("-%d.%d", -t/10, -t%10)
	}
	return fmt.Sprintf("%d.%d", t/10, t%10)
}

// upperCap: v3 scores cannot exceed 10.
func (e *Env) upperCap(k *scoreKit) {
	c := e.C
	scoreFns := map[types.Object]bool{}
	for _, f := range k.scoreFuncs() {
		scoreFns[f] = true
	}
	var bounded func(t *ir.Term, from *facts.Level) (bool, string)
	weightIn01 := func(t *ir.Term) bool {
		if t.Op != ir.OCall || len(t.Args) == 0 || t.Args[0].Op != ir.OField {
			return false
		}
		fn, _ := t.Obj.(*types.Func)
		if fn == nil || fn.Name() != "Value" {
			return false
		}
		fv, _ := t.Args[0].Obj.(*types.Var)
		if fv == nil {
			return false
		}
		// every value of the field's type, every argument combination: tabulated by C20; here all cells in [0,1]
		return e.allWeightsIn(fv.Type(), 0, 1)
	}
	bounded = func(t *ir.Term, from *facts.Level) (bool, string) {
		switch {
		case t.Op == ir.OConst:
			f, ok := floatConst(t)
			return ok && f <= 10, "constant"
		case ir.IsFMin(t):
			for _, a := range t.Args {
				if f, ok := floatConst(a); ok && f <= 10 {
					return true, "min(.,10)"
				}
			}
			return false, "min without a constant bound <= 10"
		case t.Op == ir.OCall && t.Obj == types.Object(k.round["roundUp"]):
			return bounded(t.Args[0], from)
		case t.Op == ir.OCall && scoreFns[t.Obj]:
			return true, "lower-level score (bounded by induction)"
		case t.Op == ir.OProd:
			nb := 0
			for _, a := range t.Args {
				if weightIn01(a) {
					continue
				}
				if ok, _ := bounded(a, from); ok {
					nb++
					continue
				}
				return false, "factor " + clip(a.Pretty()) + " is neither a weight in [0,1] nor a bounded score"
			}
			return nb <= 1, "one bounded score times weights in [0,1]"
		}
		return false, "no bound recognised for " + clip(t.Pretty())
	}
	for _, l := range k.levels {
		f := l.Method("Score")
		sf := e.P.SSAFunc(f)
		leaves, err := k.leavesOf(sf) // unexported float helpers inlined by substitution
		if err != nil {
			c.Undecided("upper-cap", fname(f), e.P.Pos(f.Pos()), err.Error())
			continue
		}
		for i, lf := range leaves {
			ok, why := bounded(lf.Ret[0], l)
			c.Check(ok, "upper-cap", fmt.Sprintf("%s return #%d", fname(f), i+1), e.P.Pos(lf.Pos), why, "score is not capped at 10: "+why)
		}
	}
}

// allWeightsIn: every cell of T.Value over the full argument domain lies in [lo,hi].
func (e *Env) allWeightsIn(T types.Type, lo, hi float64) bool {
	val := methodOf(T, "Value")
	if val == nil {
		return false
	}
	sig := val.Type().(*types.Signature)
	doms := [][]facts.Value{e.F.Domain(T)}
	for i := 0; i < sig.Params().Len(); i++ {
		d := e.F.Domain(sig.Params().At(i).Type())
		if d == nil {
			return false
		}
		doms = append(doms, d)
	}
	ok := true
	var rec func(i int, args []facts.Value)
	rec = func(i int, args []facts.Value) {
		if !ok {
			return
		}
		if i == len(doms) {
			f, isF := floatOf(e.F.Eval(val, args...))
			if !isF || f < lo || f > hi {
				ok = false
			}
			return
		}
		for _, v := range doms[i] {
			rec(i+1, append(append([]facts.Value{}, args...), v))
		}
	}
	rec(0, nil)
	return ok
}

var _ = ssa.BuilderMode(0)

func isTen(t *ir.Term) bool {
	f, ok := floatConst(t)
	return ok && f == 10
}

// paramIsScore: at every call of the unexported helper h inside the score
// functions, argument i is 0, a rounding-helper result or another score.
func (e *Env) paramIsScore(k *scoreKit, h *types.Func, i int, allowed map[types.Object]string) bool {
	n := 0
	okAll := true
	for _, f := range k.scoreFuncs() {
		leaves, err := ir.Leaves(e.P.SSAFunc(f), ir.LeafOptions{})
		if err != nil {
			return false
		}
		for _, lf := range leaves {
			for _, t := range append(append([]*ir.Term{}, lf.Guards...), lf.Ret...) {
				ir.Walk(t, func(x *ir.Term) bool {
					if x.Op == ir.OCall && x.Obj == types.Object(h) && i < len(x.Args) {
						n++
						a := x.Args[i]
						if !(isZeroConst(a) || (a.Op == ir.OCall && allowed[a.Obj] != "")) {
							okAll = false
						}
					}
					return true
				})
			}
		}
	}
	return n > 0 && okAll
}

// roundUpReference pins the v3 round-up helper to the algorithm of the CVSS
// v3.1 specification, Appendix A:
//
//	int_input = round_to_nearest_integer(input * 100000)
//	if (int_input % 10000) == 0 { return int_input / 100000.0 }
//	return (floor(int_input / 10000) + 1) / 10.0
//
// (the Score terms treat the helper as an uninterpreted symbol, so its body is compared here).
func (e *Env) roundUpReference(k *scoreKit, rule string) {
	c := e.C
	f := k.round["roundUp"]
	if f == nil {
		c.Fail(rule, k.ver.Pkg+" roundUp", "", "round-up helper not found")
		return
	}
	who := fname(f)
	leaves, err := ir.Leaves(e.P.SSAFunc(f), ir.LeafOptions{})
	if err != nil {
		c.Undecided(rule, who, e.P.Pos(f.Pos()), err.Error())
		return
	}
	intT := types.Typ[types.Int]
	r := k.mathCall("Round", ir.Mul(ir.Param(0), fl(100000)))
	conv := &ir.Term{Op: ir.OConv, Str: "int", Args: []*ir.Term{r}}
	g := ir.Bin("==", ir.Bin("%", conv, ir.Const(constant.MakeInt64(10000), intT)), ir.Const(constant.MakeInt64(0), intT))
	ref := []refLeaf{
		{"already a multiple of 0.1", []*ir.Term{g}, ir.Bin("/", r, fl(100000))},
		{"round up", []*ir.Term{ir.NotCond(g)}, ir.Bin("/", ir.Add(k.mathCall("Floor", ir.Bin("/", r, fl(10000))), fl(1)), fl(10))},
	}
	used := make([]bool, len(ref))
	for i, lf := range leaves {
		matched := false
		for j, rl := range ref {
			if !ir.Consistent(lf.Guards, rl.guards) {
				continue
			}
			matched = true
			used[j] = true
			cons := fmt.Sprintf("%s branch %q", who, rl.name)
			if len(lf.Ret) == 1 && lf.Ret[0].Key() == rl.ret.Key() {
				c.Ok(rule, cons, e.P.Pos(lf.Pos), "equals Appendix A: "+rl.ret.Pretty())
			} else {
				a, b := ir.Diff(lf.Ret[0], rl.ret)
				c.Fail(rule, cons, e.P.Pos(lf.Pos), fmt.Sprintf("round-up helper differs from the specification's algorithm: found %s, expected %s", clip(a), clip(b)))
			}
		}
		if !matched {
			c.Fail(rule, fmt.Sprintf("%s path #%d", who, i), e.P.Pos(lf.Pos), "path condition is not the specification's 'int_input % 10000 == 0' test: "+lf.String())
		}
	}
	for j, rl := range ref {
		if !used[j] {
			c.Fail(rule, fmt.Sprintf("%s branch %q", who, rl.name), e.P.Pos(f.Pos()), "no path of the helper corresponds to this branch of the specification's algorithm")
		}
	}
}

// dropNilSeverityLeaf: of the two paths of a Severity method, the one guarded by "receiver == nil" that returns
// f(c) for a constant c is dropped when the level's own Score has an explicit path for the nil receiver and
// returns the same constant c on it (then f(c) is f(receiver.Score()) on that path too; that the remaining path
// uses the same f is checked by the caller through sevFn).
func (e *Env) dropNilSeverityLeaf(l *facts.Level, leaves []*ir.Leaf) []*ir.Leaf {
	recvNil := ir.Bin("==", ir.Param(0), nilOf(l.Ptr()))
	own := l.Method("Score")
	if own == nil {
		return leaves
	}
	for i, lf := range leaves {
		other := leaves[1-i]
		if len(lf.Guards) != 1 || lf.Guards[0].Key() != recvNil.Key() || len(lf.Ret) != 1 || len(other.Ret) != 1 {
			continue
		}
		r, o := lf.Ret[0], other.Ret[0]
		if r.Op != ir.OCall || len(r.Args) != 1 || !isZeroish(r.Args[0]) || o.Op != ir.OCall || o.Obj != r.Obj {
			continue
		}
		if len(other.Guards) != 1 || other.Guards[0].Key() != ir.NotCond(recvNil).Key() {
			continue
		}
		sl, err := ir.Leaves(e.P.SSAFunc(own), ir.LeafOptions{})
		if err != nil {
			return leaves
		}
		found := false
		for _, s := range sl {
			if !hasGuard(s, recvNil) {
				continue
			}
			if len(s.Ret) != 1 || !isZeroish(s.Ret[0]) || constant.Compare(constant.ToFloat(s.Ret[0].C), token.NEQ, constant.ToFloat(r.Args[0].C)) {
				return leaves
			}
			found = true
		}
		if !found {
			return leaves
		}
		n := *other
		n.Guards = nil
		return []*ir.Leaf{&n}
	}
	return leaves
}
