package rules

import (
	"fmt"
	"go/constant"
	"go/token"
	"go/types"
	"strings"

	"cvsslint/internal/facts"
	"cvsslint/internal/ir"
	"cvsslint/internal/load"

	"golang.org/x/tools/go/ssa"
)

// decodeModel is what the skeleton rules know about one Decode method.
type decodeModel struct {
	Level   *facts.Level
	Fn      *types.Func
	SF      *ssa.Function
	B       *ir.Builder
	Obj     ssa.Value // the object decoded into (φ of the receiver and a fresh constructor result)
	ObjT    *ir.Term
	Split   *ssa.Call
	Values  *ir.Term // term of the split result
	Tokens  *ir.Term // the slice ranged over
	One     *ssa.Call
	Header  *ssa.BasicBlock
	LastErr *ssa.Phi
	Success *ssa.Return
	Returns []*ssa.Return
	ok      bool
}

func (e *Env) modelDecode(l *facts.Level, rule string) *decodeModel {
	c := e.C
	m := &decodeModel{Level: l}
	m.Fn = l.Method("Decode")
	if m.Fn == nil {
		c.Fail(rule, l.String()+".Decode", "", "method not found")
		return nil
	}
	who := fname(m.Fn)
	pos := e.P.Pos(m.Fn.Pos())
	m.SF = e.P.SSAFunc(m.Fn)
	if m.SF == nil || len(m.SF.Blocks) == 0 {
		c.Undecided(rule, who, pos, "no SSA body")
		return nil
	}
	sig := m.Fn.Type().(*types.Signature)
	if sig.Params().Len() != 1 || sig.Results().Len() != 2 || !types.Identical(sig.Results().At(0).Type(), l.Ptr()) {
		c.Fail(rule, who, pos, "signature is not Decode(string) (*"+l.Spec.Name+", error)")
		return nil
	}
	m.B = ir.NewBuilder(m.SF)
	for _, b := range m.SF.Blocks {
		for _, in := range b.Instrs {
			switch x := in.(type) {
			case *ssa.Return:
				m.Returns = append(m.Returns, x)
			case *ssa.Call:
				callee := x.Call.StaticCallee()
				if callee == nil {
					continue
				}
				if callee.String() == "strings.Split" {
					if m.Split != nil {
						c.Undecided(rule, who, e.P.Pos(x.Pos()), "more than one strings.Split in Decode")
						return nil
					}
					m.Split = x
				}
				if callee.Object() == types.Object(l.DecodeOne) {
					if m.One != nil {
						c.Undecided(rule, who, e.P.Pos(x.Pos()), "more than one call of the own-level decodeOne")
						return nil
					}
					m.One = x
				}
			}
		}
	}
	if m.Split == nil || m.One == nil {
		c.Undecided(rule, who, pos, "strings.Split / own-level decodeOne call not found")
		return nil
	}
	m.Obj = m.One.Call.Args[0]
	m.ObjT = m.B.Term(m.Obj)
	m.Values = m.B.Term(m.Split)
	for _, r := range m.Returns {
		if len(r.Results) == 2 && isNilValue(r.Results[1]) {
			if m.Success != nil {
				c.Undecided(rule, who, e.P.Pos(r.Pos()), "more than one success return")
				return nil
			}
			m.Success = r
		}
	}
	if m.Success == nil {
		c.Fail(rule, who, pos, "no return with a nil error")
		return nil
	}
	m.ok = true
	return m
}

func isNilValue(v ssa.Value) bool {
	c, ok := v.(*ssa.Const)
	return ok && c.Value == nil
}

// edgeConds: the conditions that hold when control passes from pred to succ.
func edgeConds(bld *ir.Builder, pred, succ *ssa.BasicBlock) []*ir.Term {
	conds := ir.DomConds(bld, pred)
	if len(pred.Succs) == 2 && pred.Succs[0] != pred.Succs[1] {
		if iff, ok := pred.Instrs[len(pred.Instrs)-1].(*ssa.If); ok {
			cnd := bld.Term(iff.Cond)
			if pred.Succs[1] == succ {
				cnd = ir.NotCond(cnd)
			}
			conds = append(conds, cnd)
		}
	}
	return conds
}

// nonNilAt: value v is provably non-nil when control is in block b.
func (e *Env) nonNilAt(m *decodeModel, v ssa.Value, b *ssa.BasicBlock, depth int) bool {
	bld := e.builder(b.Parent())
	if m != nil && b.Parent() == m.SF {
		bld = m.B
	}
	return e.nonNilUnder(bld, v, ir.DomConds(bld, b), depth)
}

// nonNilUnder: value v is provably non-nil under the given conditions.
func (e *Env) nonNilUnder(bld *ir.Builder, v ssa.Value, conds []*ir.Term, depth int) bool {
	if depth > 8 {
		return false
	}
	// guarded by  v != nil
	t := bld.Term(v)
	if ir.HasCond(conds, ir.Bin("!=", t, nilOf(v.Type()))) {
		return true
	}
	// validated typestate: v.GetError() == nil (GetError is nil-safe and reports an error for nil: rule valid-chain)
	if pt, ok := v.Type().(*types.Pointer); ok {
		if ge := load.MethodOf(pt.Elem(), "GetError"); ge != nil {
			if ir.HasCond(conds, ir.Bin("==", ir.Call(ge, t), nilOf(errorType))) {
				return true
			}
		}
	}
	switch x := v.(type) {
	case *ssa.Alloc, *ssa.MakeMap, *ssa.MakeSlice, *ssa.MakeInterface, *ssa.MakeClosure:
		return true
	case *ssa.Const:
		return x.Value != nil
	case *ssa.Call:
		if callee := x.Call.StaticCallee(); callee != nil {
			if callee.String() == "github.com/goark/errs.Wrap" && len(x.Call.Args) > 0 {
				// errs.Wrap returns nil only for a nil argument
				a := x.Call.Args[0]
				if u, ok := a.(*ssa.UnOp); ok && u.Op == token.MUL {
					if g, ok := u.X.(*ssa.Global); ok && g.Pkg.Pkg.Path() == "github.com/goark/go-cvss/cvsserr" {
						return true // sentinels are non-nil and immutable (rules sentinel-distinct / table-immutability)
					}
				}
				return e.nonNilUnder(bld, a, ir.DomConds(bld, x.Block()), depth+1)
			}
			if fe := e.F.Effects().Funcs[callee]; fe != nil && callee.Signature.Results().Len() == 1 {
				if _, ok := callee.Signature.Results().At(0).Type().(*types.Pointer); ok && e.returnsAddrOfLiteral(callee) {
					return true
				}
			}
		}
	case *ssa.Phi:
		for i, ed := range x.Edges {
			if ed == ssa.Value(x) {
				continue
			}
			if !e.nonNilUnder(bld, ed, edgeConds(bld, x.Block().Preds[i], x.Block()), depth+1) {
				return false
			}
		}
		return true
	}
	return false
}

func (e *Env) builder(fn *ssa.Function) *ir.Builder {
	if e.builders == nil {
		e.builders = map[*ssa.Function]*ir.Builder{}
	}
	if b, ok := e.builders[fn]; ok {
		return b
	}
	b := ir.NewBuilder(fn)
	e.builders[fn] = b
	return b
}

// returnsAddrOfLiteral: every return of the function is the address of a fresh allocation.
func (e *Env) returnsAddrOfLiteral(fn *ssa.Function) bool {
	n := 0
	for _, b := range fn.Blocks {
		for _, in := range b.Instrs {
			if r, ok := in.(*ssa.Return); ok {
				for _, res := range r.Results {
					n++
					if _, ok := res.(*ssa.Alloc); !ok {
						return false
					}
				}
			}
		}
	}
	return n > 0
}

// ---------------------------------------------------------------------------

// decodeSkeleton applies the Decode-level rules. props selects which rule
// families report (all families are computed; a family not selected is still
// reported when it fails to be recognised, as UNDECIDED).
func (e *Env) decodeSkeleton(l *facts.Level, v3 bool) {
	c := e.C
	m := e.modelDecode(l, "decode-skeleton")
	if m == nil {
		return
	}
	who := fname(m.Fn)
	bld := m.B
	vec := &ir.Term{Op: ir.OParam, N: 1}

	// --- split of the unmodified input
	sp := m.Values
	okSplit := len(sp.Args) == 2 && sp.Args[0].Key() == vec.Key() && isStringConst(sp.Args[1], "/")
	c.Check(okSplit, "vector-split", who, e.P.Pos(m.Split.Pos()), `strings.Split(vector, "/") on the unmodified input`, "the input is not split as strings.Split(<unmodified parameter>, \"/\"): "+sp.Pretty())

	// --- nil receiver idiom: object is φ(receiver under receiver != nil, fresh constructor result)
	recv := m.SF.Params[0]
	okObj := false
	switch x := m.Obj.(type) {
	case *ssa.Phi:
		okObj = len(x.Edges) == 2
		for i, ed := range x.Edges {
			if ed == ssa.Value(recv) {
				// the edge must come from a block where recv != nil
				conds := ir.DomConds(bld, x.Block().Preds[i])
				if len(x.Block().Preds[i].Succs) == 2 { // the If block itself: use the edge
					p := x.Block().Preds[i]
					iff := p.Instrs[len(p.Instrs)-1].(*ssa.If)
					cnd := bld.Term(iff.Cond)
					if p.Succs[1] == x.Block() {
						cnd = ir.NotCond(cnd)
					}
					conds = append(conds, cnd)
				}
				if !ir.HasCond(conds, ir.Bin("!=", bld.Term(recv), nilOf(recv.Type()))) {
					okObj = false
				}
			} else if !e.nonNilAt(m, ed, x.Block().Preds[i], 0) {
				okObj = false
			} else if call, ok := ed.(*ssa.Call); !ok || call.Call.StaticCallee() == nil || call.Call.StaticCallee().Object() != types.Object(e.P.LookupFunc(l.Version.Pkg, "New"+l.Spec.Name)) {
				okObj = false
			}
		}
	}
	c.Check(okObj, "nil-receiver-decode", who, e.P.Pos(m.Fn.Pos()), "decodes into the receiver, or into a fresh New"+l.Spec.Name+"() when the receiver is nil", "the object decoded into is not φ(receiver if non-nil, New"+l.Spec.Name+"())")

	success := m.Success.Block()
	sconds := ir.DomConds(bld, success)

	// --- v3: version prefix
	var verVal ssa.Value
	if v3 {
		e.versionPrefix(m, who, sconds, &verVal)
	}

	// --- loop over all tokens
	e.tokenLoop(m, who, v3)

	// --- deferred unsupported-metric error and immediate abort for others
	e.deferredError(m, who, sconds)

	// --- completeness before success
	if v3 {
		ge := l.Method("GetError")
		var geCall *ir.Term
		if ge != nil {
			geCall = ir.Call(ge, m.ObjT)
		}
		ok := geCall != nil && ir.HasCond(sconds, ir.Bin("==", geCall, nilOf(errorType)))
		c.Check(ok, "completeness-gate", who, e.P.Pos(m.Success.Pos()), "success is reached only after the own-level GetError() returned nil on the decoded object", "the success return is not dominated by own-level GetError() == nil on the decoded object")
	} else {
		enc := l.Method("Encode")
		var encCall *ir.Term
		if enc != nil {
			encCall = ir.Call(enc, m.ObjT)
		}
		ex := func(i int) *ir.Term { return &ir.Term{Op: ir.OExtract, N: i, Args: []*ir.Term{encCall}} }
		okErr := encCall != nil && ir.HasCond(sconds, ir.Bin("==", ex(1), nilOf(errorType)))
		c.Check(okErr, "completeness-gate", who, e.P.Pos(m.Success.Pos()), "success is reached only after the own-level Encode() reported no error", "the success return is not dominated by own-level Encode() error == nil")
		okEq := encCall != nil && ir.HasCond(sconds, ir.Bin("==", ex(0), vec))
		c.Check(okEq, "canonical-order", who, e.P.Pos(m.Success.Pos()), "success is reached only if the input equals the own-level re-encoding (vector == enc)", "the success return is not dominated by vector == own-level Encode() result")
	}

	// --- no rejection other than the ones the specification has: every error return is caused by the prefix,
	// by decodeOne, by the remembered unsupported-metric error, or by the completeness / canonical-form gate
	e.decodeRejections(m, who, v3)

	// --- returns: (obj, nil) once, (nil, non-nil error) otherwise
	for _, r := range m.Returns {
		cons := fmt.Sprintf("%s return at %s", who, e.P.Pos(r.Pos()))
		if len(r.Results) != 2 {
			continue
		}
		if r == m.Success {
			ok := r.Results[0] == m.Obj && e.nonNilAt(m, r.Results[0], r.Block(), 0)
			c.Check(ok, "result-exclusive", cons, e.P.Pos(r.Pos()), "(decoded object, nil)", "the success return does not hand out the (non-nil) object that was decoded into")
			continue
		}
		okNilObj := isNilValue(r.Results[0])
		okErr := e.nonNilAt(m, r.Results[1], r.Block(), 0)
		switch {
		case !okNilObj:
			c.Fail("result-exclusive", cons, e.P.Pos(r.Pos()), "an error return also hands out a metrics object")
		case !okErr:
			c.Fail("result-exclusive", cons, e.P.Pos(r.Pos()), "an error return whose error is not provably non-nil (neither object nor error)")
		default:
			c.Ok("result-exclusive", cons, e.P.Pos(r.Pos()), "(nil, non-nil error)")
		}
	}
}

func isStringConst(t *ir.Term, s string) bool {
	return t.Op == ir.OConst && t.C != nil && t.C.Kind() == constant.String && constant.StringVal(t.C) == s
}

// versionPrefix: R1 for v3.
func (e *Env) versionPrefix(m *decodeModel, who string, sconds []*ir.Term, verVal *ssa.Value) {
	c := e.C
	l := m.Level
	gv := e.P.LookupFunc(l.Version.Pkg, "GetVersion")
	var call *ssa.Call
	for _, b := range m.SF.Blocks {
		for _, in := range b.Instrs {
			if x, ok := in.(*ssa.Call); ok && x.Call.StaticCallee() != nil && x.Call.StaticCallee().Object() == types.Object(gv) {
				call = x
			}
		}
	}
	if gv == nil || call == nil {
		c.Fail("version-prefix", who, e.P.Pos(m.Fn.Pos()), "GetVersion is not called")
		return
	}
	ct := m.B.Term(call)
	arg := ct.Args[0]
	want := idx(m.Values, 0)
	c.Check(arg.Key() == want.Key(), "version-prefix", who+" GetVersion argument", e.P.Pos(call.Pos()), "first '/'-separated element of the input", "GetVersion is applied to "+arg.Pretty()+", not to the first element of the split input")
	ex := func(i int) *ir.Term { return &ir.Term{Op: ir.OExtract, N: i, Args: []*ir.Term{ct}} }
	c.Check(ir.HasCond(sconds, ir.Bin("==", ex(1), nilOf(errorType))), "version-prefix", who+" prefix error", e.P.Pos(call.Pos()), "success only if GetVersion reported no error", "success is reachable although GetVersion reported an error")
	verT := gv.Type().(*types.Signature).Results().At(0).Type()
	en := e.F.EnumOf(verT)
	okUnk := false
	if en != nil && en.Zero != nil {
		okUnk = ir.HasCond(sconds, ir.Bin("!=", ir.Const(en.Zero.Val(), verT), ex(0)))
	}
	c.Check(okUnk, "version-prefix", who+" supported-version gate", e.P.Pos(call.Pos()), "success only if the version is not the unknown version", "success is reachable with the unknown version")
	// version recorded on the object
	var base *facts.Level
	for lv := l; lv != nil; lv = lv.Lower {
		base = lv
	}
	stored := false
	for _, b := range m.SF.Blocks {
		for _, in := range b.Instrs {
			st, ok := in.(*ssa.Store)
			if !ok {
				continue
			}
			a := m.B.Addr(st.Addr)
			if a.Op == ir.OField && a.Obj == types.Object(base.VerField) {
				wantObj := m.ObjT
				for lv := l; lv != base; lv = lv.Lower {
					wantObj = ir.Field(wantObj, lv.Embedded)
				}
				if a.Args[0].Key() == wantObj.Key() && m.B.Term(st.Val).Key() == ex(0).Key() && b.Dominates(m.Success.Block()) {
					stored = true
				} else {
					c.Fail("version-recorded", who, e.P.Pos(st.Pos()), "Ver is assigned something other than GetVersion's result on the decoded object")
				}
			}
		}
	}
	c.Check(stored, "version-recorded", who, e.P.Pos(call.Pos()), "Ver of the decoded object = GetVersion(prefix) on every successful path", "the parsed version is not stored in the decoded object's Ver field before success")
	// GetVersion itself
	e.getVersionShape(gv)
}

// getVersionShape: GetVersion(vec) = (get(v[1]), nil) iff v := Split(vec, ":") has length 2 and v[0] == "CVSS".
func (e *Env) getVersionShape(gv *types.Func) {
	c := e.C
	who := fname(gv)
	sf := e.P.SSAFunc(gv)
	leaves, err := ir.Leaves(sf, ir.LeafOptions{Forward: true, Effects: true, Inline: e.inlineHelpers()})
	if err != nil {
		c.Undecided("version-prefix", who, e.P.Pos(gv.Pos()), err.Error())
		return
	}
	var sp *ir.Term
	for _, lf := range leaves {
		for _, ef := range lf.Effects {
			if ef.Kind == "call" && isCallOf(ef.Val, "strings.Split") {
				sp = ef.Val
			}
		}
	}
	if sp == nil {
		// another tokeniser (strings.Cut, an index scan, ...): whether it accepts exactly "CVSS:<label>" is not decided here
		c.Undecided("version-prefix", who, e.P.Pos(gv.Pos()), `the prefix is not split with strings.Split(<parameter>, ":"); the rule knows no equivalence for the tokeniser used`)
		return
	}
	if len(sp.Args) != 2 || sp.Args[0].Op != ir.OParam || !isStringConst(sp.Args[1], ":") {
		c.Fail("version-prefix", who, e.P.Pos(gv.Pos()), `the prefix is not split as strings.Split(<parameter>, ":")`)
		return
	}
	gLen := ir.Bin("==", intConst(2), lenOf(sp))
	verT := gv.Type().(*types.Signature).Results().At(0).Type()
	ps := parsersOf(gv.Pkg(), verT)
	nAcc := 0
	for _, lf := range leaves {
		if len(lf.Ret) != 2 {
			continue
		}
		cons := e.pathName(who, lf)
		if isNilConst(lf.Ret[1]) {
			nAcc++
			okLen := hasGuard(lf, gLen)
			okTag := false
			for _, g := range lf.Guards {
				if s, ok := nameEq(g, idx(sp, 0), "=="); ok && s == "CVSS" {
					okTag = true
				}
			}
			r := lf.Ret[0]
			okVal := r.Op == ir.OCall && len(r.Args) == 1 && r.Args[0].Key() == idx(sp, 1).Key()
			if okVal {
				okVal = false
				for _, g := range ps {
					if r.Obj == types.Object(g) {
						okVal = true
					}
				}
			}
			c.Check(okLen && okTag && okVal, "version-prefix", cons, e.P.Pos(lf.Pos), `accepts only "CVSS:<label>" and returns the label's table look-up`, fmt.Sprintf("prefix acceptance is not exactly: two ':'-parts, first part == \"CVSS\", value = version parser of the second part (len ok=%v, tag ok=%v, value ok=%v)", okLen, okTag, okVal))
		} else {
			s, _, isWrap := sentinelOf(lf.Ret[1])
			c.Check(isWrap && s == "ErrInvalidVector" && isZeroEnum(lf.Ret[0]), "version-prefix", cons, e.P.Pos(lf.Pos), "malformed prefix -> (unknown, ErrInvalidVector)", "a malformed prefix is not reported as (unknown version, errs.Wrap(ErrInvalidVector))")
		}
	}
	c.Check(nAcc == 1, "version-prefix", who+" accepting paths", e.P.Pos(gv.Pos()), "exactly one", fmt.Sprintf("%d accepting paths", nAcc))
}

func isZeroEnum(t *ir.Term) bool {
	if t.Op != ir.OConst || t.C == nil || t.C.Kind() != constant.Int {
		return false
	}
	v, ok := constant.Int64Val(t.C)
	return ok && v == 0
}

// tokenLoop: R2 — the own-level decodeOne is applied to every '/'-separated
// element (v2) / every element after the prefix (v3), as the first thing done
// with the element, with no way to skip one or to leave early other than
// returning.
func (e *Env) tokenLoop(m *decodeModel, who string, v3 bool) {
	c := e.C
	fail := func(msg string) { c.Fail("token-loop", who, e.P.Pos(m.One.Pos()), msg) }
	ia := elementOf(m.One.Call.Args[1])
	if ia == nil {
		fail("decodeOne is not applied to an element of the split input")
		return
	}
	lp, why := analyseIndexLoop(ia)
	if lp == nil {
		fail("the tokens are not visited by a loop over all of them: " + why)
		return
	}
	if m.One.Block() != lp.Body {
		fail("decodeOne is not the first thing done for each element (something may skip it)")
		return
	}
	st := m.B.Term(lp.Slice)
	sliced := &ir.Term{Op: ir.OSlice, Args: []*ir.Term{m.Values, intConst(1), {Op: ir.OConst}, {Op: ir.OConst}}}
	first := int64(-1)
	switch st.Key() {
	case m.Values.Key():
		first = lp.Start
	case sliced.Key():
		first = lp.Start + 1
	}
	want := int64(0)
	if v3 {
		want = 1
	}
	switch {
	case first < 0:
		fail("the loop does not range over the split input but over " + st.Pretty())
		return
	case first != want:
		fail(fmt.Sprintf("the loop starts at element %d of the split input, expected %d", first, want))
		return
	}
	m.Header = lp.Header
	m.Tokens = st
	c.Ok("token-loop", who, e.P.Pos(m.One.Pos()), fmt.Sprintf("own-level decodeOne applied to every element of the split input from index %d on; no skip, no early exit other than return", want))
}

func isBuiltin(c *ssa.Call, name string) bool {
	b, ok := c.Call.Value.(*ssa.Builtin)
	return ok && b.Name() == name
}

func isIntConst(v ssa.Value, n int64) bool {
	c, ok := v.(*ssa.Const)
	if !ok || c.Value == nil || c.Value.Kind() != constant.Int {
		return false
	}
	i, ok := constant.Int64Val(c.Value)
	return ok && i == n
}

// deferredError: C11(c) / R9. With r the result of decodeOne in the loop:
//   - on r != nil and !errs.Is(r, ErrNotSupportMetric): return (nil, errs.Wrap(r))
//   - on r != nil and Is: remembered in a loop-carried variable that is never reset
//   - success is dominated by "remembered == nil", and the remembered error is returned otherwise.
func (e *Env) deferredError(m *decodeModel, who string, sconds []*ir.Term) {
	c := e.C
	if m.Header == nil {
		c.Undecided("deferred-error", who, e.P.Pos(m.One.Pos()), "loop not recognised")
		return
	}
	h := m.Header
	r := ssa.Value(m.One)
	rT := m.B.Term(r)
	rNonNil := ir.Bin("!=", rT, nilOf(errorType))
	// find the φ that carries the remembered error
	var last *ssa.Phi
	for _, in := range h.Instrs {
		p, ok := in.(*ssa.Phi)
		if !ok {
			break
		}
		if !types.Identical(p.Type(), errorType) {
			continue
		}
		last = p
	}
	if last == nil {
		c.Fail("deferred-error", who, e.P.Pos(m.One.Pos()), "no loop-carried error variable: an 'unsupported metric' error would be forgotten")
		return
	}
	ok := true
	// leaves of the (possibly nested) φ-tree feeding the loop-carried variable
	var visit func(p *ssa.Phi, seen map[*ssa.Phi]bool)
	visit = func(p *ssa.Phi, seen map[*ssa.Phi]bool) {
		if seen[p] {
			return
		}
		seen[p] = true
		for i, ed := range p.Edges {
			pred := p.Block().Preds[i]
			if p == last && !h.Dominates(pred) {
				if !isNilValue(ed) {
					ok = false
					c.Fail("deferred-error", who, e.P.Pos(last.Pos()), "the remembered error does not start as nil")
				}
				continue
			}
			if q, isPhi := ed.(*ssa.Phi); isPhi && q != last && h.Dominates(q.Block()) {
				visit(q, seen)
				continue
			}
			conds := edgeConds(m.B, pred, p.Block())
			switch {
			case ir.HasCond(conds, rNonNil):
				if ed != r {
					ok = false
					c.Fail("deferred-error", who, e.P.Pos(m.One.Pos()), "on a path where decodeOne failed and Decode carries on, the error is not remembered")
				}
			case ir.HasCond(conds, ir.NotCond(rNonNil)):
				if ed != ssa.Value(last) {
					ok = false
					c.Fail("deferred-error", who, e.P.Pos(m.One.Pos()), "the remembered error is overwritten when a later token decodes fine")
				}
			default:
				ok = false
				c.Undecided("deferred-error", who, e.P.Pos(m.One.Pos()), "a loop back-edge not classified by decodeOne's result")
			}
		}
	}
	visit(last, map[*ssa.Phi]bool{})
	lastT := m.B.Term(last)
	if !ir.HasCond(sconds, ir.Bin("==", lastT, nilOf(errorType))) {
		ok = false
		c.Fail("deferred-error", who, e.P.Pos(m.Success.Pos()), "success is reachable although an 'unsupported metric' error was remembered")
	}
	// immediate abort for other errors and what is returned
	isFn := e.externFunc(m.Level.Pkg.Types, "github.com/goark/errs", "Is")
	nsm := e.sentinelGlobal("ErrNotSupportMetric")
	var isT *ir.Term
	if isFn != nil && nsm != nil {
		isT = ir.Call(isFn, rT, &ir.Term{Op: ir.OGlobal, Obj: nsm})
	}
	seenAbort, seenDeferred := false, false
	for _, ret := range m.Returns {
		if ret == m.Success || len(ret.Results) != 2 {
			continue
		}
		conds := ir.DomConds(m.B, ret.Block())
		et := m.B.Term(ret.Results[1])
		if isT != nil && ir.HasCond(conds, rNonNil) && ir.HasCond(conds, ir.NotCond(isT)) {
			_, inner, isWrap := sentinelOf(et)
			if isWrap && inner != nil && inner.Key() == rT.Key() {
				seenAbort = true
			} else {
				ok = false
				c.Fail("deferred-error", who, e.P.Pos(ret.Pos()), "an error other than 'unsupported metric' is not returned as errs.Wrap(that error)")
			}
		}
		if ir.HasCond(conds, ir.Bin("!=", lastT, nilOf(errorType))) && h.Dominates(ret.Block()) && !ir.HasCond(conds, rNonNil) {
			if ret.Results[1] == ssa.Value(last) {
				seenDeferred = true
			} else {
				ok = false
				c.Fail("deferred-error", who, e.P.Pos(ret.Pos()), "the remembered 'unsupported metric' error is not the one returned")
			}
		}
	}
	// every path on which decodeOne failed must either return or reach the header through a remembering edge:
	// blocks dominated by r != nil may only exit to the header (checked above) or return.
	if !seenAbort {
		ok = false
		c.Fail("deferred-error", who, e.P.Pos(m.One.Pos()), "no immediate return for decodeOne errors other than 'unsupported metric'")
	}
	if !seenDeferred {
		ok = false
		c.Fail("deferred-error", who, e.P.Pos(m.One.Pos()), "the remembered 'unsupported metric' error is never returned")
	}
	if ok {
		c.Ok("deferred-error", who, e.P.Pos(m.One.Pos()), "other errors abort at once as errs.Wrap(err); 'unsupported metric' is remembered, never reset, returned after the scan; success only if none was remembered")
	}
}

// decodeRejections classifies every error return of a Decode by the dominating
// condition that leads to it; an error return with any other cause rejects
// inputs the specification accepts (or reports a defect they do not have).
func (e *Env) decodeRejections(m *decodeModel, who string, v3 bool) {
	c := e.C
	l := m.Level
	rT := m.B.Term(m.One)
	causes := []*ir.Term{ir.Bin("!=", rT, nilOf(errorType))}
	// remembered error
	if m.Header != nil {
		for _, in := range m.Header.Instrs {
			if p, ok := in.(*ssa.Phi); ok && types.Identical(p.Type(), errorType) {
				causes = append(causes, ir.Bin("!=", m.B.Term(p), nilOf(errorType)))
			}
		}
	}
	if v3 {
		if gv := e.P.LookupFunc(l.Version.Pkg, "GetVersion"); gv != nil {
			for _, b := range m.SF.Blocks {
				for _, in := range b.Instrs {
					if x, ok := in.(*ssa.Call); ok && x.Call.StaticCallee() != nil && x.Call.StaticCallee().Object() == types.Object(gv) {
						ct := m.B.Term(x)
						ex := func(i int) *ir.Term { return &ir.Term{Op: ir.OExtract, N: i, Args: []*ir.Term{ct}} }
						causes = append(causes, ir.Bin("!=", ex(1), nilOf(errorType)))
						verT := gv.Type().(*types.Signature).Results().At(0).Type()
						if en := e.F.EnumOf(verT); en != nil && en.Zero != nil {
							causes = append(causes, ir.Bin("==", ir.Const(en.Zero.Val(), verT), ex(0)))
						}
					}
				}
			}
		}
		if ge := l.Method("GetError"); ge != nil {
			causes = append(causes, ir.Bin("!=", ir.Call(ge, m.ObjT), nilOf(errorType)))
		}
	} else if enc := l.Method("Encode"); enc != nil {
		call := ir.Call(enc, m.ObjT)
		ex := func(i int) *ir.Term { return &ir.Term{Op: ir.OExtract, N: i, Args: []*ir.Term{call}} }
		causes = append(causes, ir.Bin("!=", ex(1), nilOf(errorType)), ir.Bin("!=", ex(0), &ir.Term{Op: ir.OParam, N: 1}))
	}
	for _, r := range m.Returns {
		if r == m.Success || len(r.Results) != 2 {
			continue
		}
		conds := ir.DomConds(m.B, r.Block())
		ok := false
		for _, cause := range causes {
			if ir.HasCond(conds, cause) {
				ok = true
			}
		}
		cons := fmt.Sprintf("%s return at %s", who, e.P.Pos(r.Pos()))
		if ok {
			c.Ok("decode-rejections", cons, e.P.Pos(r.Pos()), "rejection caused by the prefix, a token, the remembered unsupported metric or the completeness/canonical-form gate")
		} else {
			var cs []string
			for _, g := range conds {
				cs = append(cs, g.Pretty())
			}
			c.Fail("decode-rejections", cons, e.P.Pos(r.Pos()), "an error return whose cause is none of the specification's (prefix, token, unsupported metric, completeness, canonical form): reached under "+clip(strings.Join(cs, " & ")))
		}
	}
}
