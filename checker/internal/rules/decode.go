package rules

import (
	"cvsslint/internal/facts"
	"cvsslint/internal/spec"
	"fmt"
	"go/constant"
	"go/token"
	"go/types"

	"cvsslint/internal/ir"
	"cvsslint/internal/load"

	"golang.org/x/tools/go/ssa"
)

// edgeConds: the conditions that hold when control passes from pred to succ.
func edgeConds(bld *ir.Builder, pred, succ *ssa.BasicBlock) []*ir.Term {
	conds := ir.DomConds(bld, pred)
	if len(pred.Succs) == 2 && pred.Succs[0] != pred.Succs[1] {
		if iff, ok := pred.Instrs[len(pred.Instrs)-1].(*ssa.If); ok {
			cnd := bld.Term(iff.Cond)
			if pred.Succs[1] == succ {
				cnd = ir.NotCond(cnd)
			}
			conds = append(conds, cnd)
		}
	}
	return conds
}

// nonNilAt: value v is provably non-nil when control is in block b.
func (e *Env) nonNilAt(v ssa.Value, b *ssa.BasicBlock, depth int) bool {
	bld := e.builder(b.Parent())
	return e.nonNilUnder(bld, v, ir.DomConds(bld, b), depth)
}

// nonNilUnder: value v is provably non-nil under the given conditions.
func (e *Env) nonNilUnder(bld *ir.Builder, v ssa.Value, conds []*ir.Term, depth int) bool {
	if depth > 8 {
		return false
	}
	// guarded by  v != nil
	t := bld.Term(v)
	if ir.HasCond(conds, ir.Bin("!=", t, nilOf(v.Type()))) {
		return true
	}
	// validated typestate: v.GetError() == nil (GetError is nil-safe and reports an error for nil: rule valid-chain)
	if pt, ok := v.Type().(*types.Pointer); ok {
		if ge := load.MethodOf(pt.Elem(), "GetError"); ge != nil {
			if ir.HasCond(conds, ir.Bin("==", ir.Call(ge, t), nilOf(errorType))) {
				return true
			}
		}
	}
	switch x := v.(type) {
	case *ssa.Alloc, *ssa.MakeMap, *ssa.MakeSlice, *ssa.MakeInterface, *ssa.MakeClosure:
		return true
	case *ssa.Const:
		return x.Value != nil
	case *ssa.Call:
		if callee := x.Call.StaticCallee(); callee != nil {
			if callee.String() == "github.com/goark/errs.Wrap" && len(x.Call.Args) > 0 {
				// errs.Wrap returns nil only for a nil argument
				a := x.Call.Args[0]
				if u, ok := a.(*ssa.UnOp); ok && u.Op == token.MUL {
					if g, ok := u.X.(*ssa.Global); ok && g.Pkg.Pkg.Path() == "github.com/goark/go-cvss/cvsserr" {
						return true // sentinels are non-nil and immutable (rules sentinel-distinct / table-immutability)
					}
				}
				return e.nonNilUnder(bld, a, ir.DomConds(bld, x.Block()), depth+1)
			}
			if fe := e.F.Effects().Funcs[callee]; fe != nil && callee.Signature.Results().Len() == 1 {
				if _, ok := callee.Signature.Results().At(0).Type().(*types.Pointer); ok && e.returnsAddrOfLiteral(callee) {
					return true
				}
			}
		}
	case *ssa.Phi:
		for i, ed := range x.Edges {
			if ed == ssa.Value(x) {
				continue
			}
			if !e.nonNilUnder(bld, ed, edgeConds(bld, x.Block().Preds[i], x.Block()), depth+1) {
				return false
			}
		}
		return true
	}
	return false
}

func (e *Env) builder(fn *ssa.Function) *ir.Builder {
	if e.builders == nil {
		e.builders = map[*ssa.Function]*ir.Builder{}
	}
	if b, ok := e.builders[fn]; ok {
		return b
	}
	b := ir.NewBuilder(fn)
	e.builders[fn] = b
	return b
}

// returnsAddrOfLiteral: every return of the function is the address of a fresh allocation.
func (e *Env) returnsAddrOfLiteral(fn *ssa.Function) bool {
	n := 0
	for _, b := range fn.Blocks {
		for _, in := range b.Instrs {
			if r, ok := in.(*ssa.Return); ok {
				for _, res := range r.Results {
					n++
					if _, ok := res.(*ssa.Alloc); !ok {
						return false
					}
				}
			}
		}
	}
	return n > 0
}

// ---------------------------------------------------------------------------

func isStringConst(t *ir.Term, s string) bool {
	return t.Op == ir.OConst && t.C != nil && t.C.Kind() == constant.String && constant.StringVal(t.C) == s
}

// getVersionShape: GetVersion(vec) = (get(v[1]), nil) iff v := Split(vec, ":") has length 2 and v[0] == "CVSS".
func (e *Env) getVersionShape(gv *types.Func) {
	c := e.C
	who := fname(gv)
	sf := e.P.SSAFunc(gv)
	// the label parser (func(string) Version) stays a call: it is decided on its own by the version-table rule
	verT0 := gv.Type().(*types.Signature).Results().At(0).Type()
	leaves, err := ir.Leaves(sf, ir.LeafOptions{Forward: true, Effects: true, Inline: e.inlineHelpers(parsersOf(gv.Pkg(), verT0)...)})
	if err != nil {
		c.Undecided("version-prefix", who, e.P.Pos(gv.Pos()), err.Error())
		return
	}
	// the tokeniser: strings.Split(vec, ":") with len == 2, or strings.Cut(vec, ":") with found and no further ':'
	// in the rest (the same prefixes pass, with the same two parts)
	var sp, cut, cutp *ir.Term
	nTok := 0
	for _, lf := range leaves {
		for _, ef := range lf.Effects {
			if ef.Kind == "call" && isCallOf(ef.Val, "strings.Split") {
				sp = ef.Val
			}
			if ef.Kind == "call" && isCallOf(ef.Val, "strings.Cut") {
				cut = ef.Val
			}
			if ef.Kind == "call" && isCallOf(ef.Val, "strings.CutPrefix") {
				cutp = ef.Val
			}
		}
	}
	for _, t := range []*ir.Term{sp, cut, cutp} {
		if t != nil {
			nTok++
		}
	}
	tagByPrefix := false
	if nTok != 1 {
		// another tokeniser (an index scan, ...): whether it accepts exactly "CVSS:<label>" is not decided here
		c.Undecided("version-prefix", who, e.P.Pos(gv.Pos()), `the prefix is not taken apart by exactly one strings.Split(<parameter>, ":"), strings.Cut(<parameter>, ":") or strings.CutPrefix(<parameter>, "CVSS:"); the rule knows no equivalence for the tokeniser used`)
		return
	}
	var shape []*ir.Term
	var part0, part1 *ir.Term
	if sp != nil {
		if len(sp.Args) != 2 || sp.Args[0].Op != ir.OParam || !isStringConst(sp.Args[1], ":") {
			c.Fail("version-prefix", who, e.P.Pos(gv.Pos()), `the prefix is not split as strings.Split(<parameter>, ":")`)
			return
		}
		shape = []*ir.Term{ir.Bin("==", intConst(2), lenOf(sp))}
		part0, part1 = idx(sp, 0), idx(sp, 1)
	} else if cutp != nil {
		// strings.CutPrefix(vec, "CVSS:") with found and no ':' in what follows: the same strings pass - exactly
		// those that split at ':' into "CVSS" and one more part - and what follows is that part
		if len(cutp.Args) != 2 || cutp.Args[0].Op != ir.OParam || !isStringConst(cutp.Args[1], "CVSS:") {
			c.Fail("version-prefix", who, e.P.Pos(gv.Pos()), `the prefix is not taken off as strings.CutPrefix(<parameter>, "CVSS:")`)
			return
		}
		part1 = ext(cutp, 0)
		part0 = &ir.Term{Op: ir.OOpaque, Str: "the tag is part of the prefix constant"}
		tagByPrefix = true
		contains := ir.Call(e.externFunc(gv.Pkg(), "strings", "Contains"), part1, ir.Const(constant.MakeString(":"), types.Typ[types.String]))
		shape = []*ir.Term{ext(cutp, 1), ir.NotCond(contains)}
	} else {
		if len(cut.Args) != 2 || cut.Args[0].Op != ir.OParam || !isStringConst(cut.Args[1], ":") {
			c.Fail("version-prefix", who, e.P.Pos(gv.Pos()), `the prefix is not taken apart as strings.Cut(<parameter>, ":")`)
			return
		}
		part0, part1 = ext(cut, 0), ext(cut, 1)
		contains := ir.Call(e.externFunc(gv.Pkg(), "strings", "Contains"), part1, ir.Const(constant.MakeString(":"), types.Typ[types.String]))
		shape = []*ir.Term{ext(cut, 2), ir.NotCond(contains)}
	}
	verT := gv.Type().(*types.Signature).Results().At(0).Type()
	ps := parsersOf(gv.Pkg(), verT)
	if len(ps) == 0 {
		e.getVersionInline(gv, leaves, shape, part0, part1, verT, tagByPrefix)
		return
	}
	nAcc := 0
	for _, lf := range leaves {
		if len(lf.Ret) != 2 {
			continue
		}
		cons := e.pathName(who, lf)
		if isNilConst(lf.Ret[1]) {
			nAcc++
			okLen := true
			for _, g := range shape {
				okLen = okLen && hasGuard(lf, g)
			}
			okTag := tagByPrefix
			for _, g := range lf.Guards {
				if s, ok := nameEq(g, part0, "=="); ok && s == "CVSS" {
					okTag = true
				}
			}
			r := lf.Ret[0]
			okVal := r.Op == ir.OCall && len(r.Args) == 1 && r.Args[0].Key() == part1.Key()
			if okVal {
				okVal = false
				for _, g := range ps {
					if r.Obj == types.Object(g) {
						okVal = true
					}
				}
			}
			c.Check(okLen && okTag && okVal, "version-prefix", cons, e.P.Pos(lf.Pos), `accepts only "CVSS:<label>" and returns the label's table look-up`, fmt.Sprintf("prefix acceptance is not exactly: two ':'-parts, first part == \"CVSS\", value = version parser of the second part (len ok=%v, tag ok=%v, value ok=%v)", okLen, okTag, okVal))
		} else {
			s, _, isWrap := sentinelOf(lf.Ret[1])
			c.Check(isWrap && s == "ErrInvalidVector" && isZeroEnum(lf.Ret[0]), "version-prefix", cons, e.P.Pos(lf.Pos), "malformed prefix -> (unknown, ErrInvalidVector)", "a malformed prefix is not reported as (unknown version, errs.Wrap(ErrInvalidVector))")
		}
	}
	c.Check(nAcc == 1, "version-prefix", who+" accepting paths", e.P.Pos(gv.Pos()), "exactly one", fmt.Sprintf("%d accepting paths", nAcc))
}

// getVersionInline: the label look-up is written out inside GetVersion (a switch or if-chain on the second part)
// instead of being a func(string) Version of its own: every accepting path has the prefix shape, is selected by
// comparisons of the second part with string constants only, and returns the constant that prints as the label it
// was selected by (the unknown version when no label matched); every label of the specification has its path.
func (e *Env) getVersionInline(gv *types.Func, leaves []*ir.Leaf, shape []*ir.Term, part0, part1 *ir.Term, verT types.Type, tagByPrefix bool) {
	c := e.C
	who := fname(gv)
	shapeKey := map[string]bool{}
	for _, g := range shape {
		shapeKey[g.Key()] = true
	}
	seenLabel := map[string]bool{}
	nDefault := 0
	for _, lf := range leaves {
		if len(lf.Ret) != 2 {
			continue
		}
		cons := e.pathName(who, lf)
		if !isNilConst(lf.Ret[1]) {
			s, _, isWrap := sentinelOf(lf.Ret[1])
			c.Check(isWrap && s == "ErrInvalidVector" && isZeroEnum(lf.Ret[0]), "version-prefix", cons, e.P.Pos(lf.Pos), "malformed prefix -> (unknown, ErrInvalidVector)", "a malformed prefix is not reported as (unknown version, errs.Wrap(ErrInvalidVector))")
			continue
		}
		okLen := true
		for _, g := range shape {
			okLen = okLen && hasGuard(lf, g)
		}
		okTag, okRest := tagByPrefix, true
		label := ""
		for _, g := range lf.Guards {
			if shapeKey[g.Key()] {
				continue
			}
			if s, ok := nameEq(g, part0, "=="); ok && s == "CVSS" {
				okTag = true
				continue
			}
			if s, ok := nameEq(g, part1, "=="); ok {
				if label != "" {
					okRest = false
				}
				label = s
				continue
			}
			if _, ok := nameEq(g, part1, "!="); ok {
				continue
			}
			// the label looked up in the label table by a reverse look-up loop written out in the function
			if rh := revHasOf(g); rh != nil && rh.Args[1].Key() == part1.Key() {
				continue
			}
			okRest = false
		}
		r := lf.Ret[0]
		okVal := false
		detail := ""
		if r.Op == "rev" && len(r.Args) == 2 && r.Args[1].Key() == part1.Key() && label == "" {
			// the key of the label table whose value is the second part (guarded by "some entry has it")
			has := &ir.Term{Op: "revhas", Args: r.Args}
			if ok, why := e.revLabelTable(r.Args[0], verT); ok && hasGuard(lf, has) {
				for _, l := range spec.VersionLabels {
					seenLabel[l] = true
				}
				okVal = true
				detail = "reverse look-up in " + clip(r.Args[0].Pretty()) + " tabulated over the label domain"
			} else {
				detail = why
			}
			c.Check(okLen && okTag && okRest && okVal, "version-prefix", cons, e.P.Pos(lf.Pos), `accepts only "CVSS:<label>"; `+detail, fmt.Sprintf("prefix acceptance is not exactly: two ':'-parts, first part == \"CVSS\", value = the label table's key for the second part (len ok=%v, tag ok=%v, only label tests=%v, value ok=%v; %s)", okLen, okTag, okRest, okVal, detail))
			continue
		}
		if r.Op == ir.OCall && label == "" {
			// the second part handed to a look-up helper together with the label table (a generic reverse look-up
			// get(table, part, unknown)): the application is tabulated over the label domain
			if ok, why := e.appliedLabelParser(r, part1, verT); ok {
				for _, l := range spec.VersionLabels {
					seenLabel[l] = true
				}
				nDefault++
				okVal = true
				detail = "label look-up " + clip(r.Pretty()) + " tabulated over the label domain"
			} else {
				detail = why
			}
			c.Check(okLen && okTag && okRest && okVal, "version-prefix", cons, e.P.Pos(lf.Pos), `accepts only "CVSS:<label>"; `+detail, fmt.Sprintf("prefix acceptance is not exactly: two ':'-parts, first part == \"CVSS\", value = the label look-up of the second part (len ok=%v, tag ok=%v, only label tests=%v, value ok=%v; %s)", okLen, okTag, okRest, okVal, detail))
			continue
		}
		if r.Op == ir.OConst && r.C != nil {
			v := facts.Value{Kind: facts.VConst, C: r.C, Type: verT}
			if en := e.F.EnumOf(verT); en != nil {
				if i, ok := constant.Int64Val(constant.ToInt(r.C)); ok {
					if k := en.ConstByVal(i); k != nil {
						v.Obj = k
					}
				}
			}
			switch {
			case label == "":
				nDefault++
				okVal = isZeroEnum(r)
				detail = "no label matched: " + r.Pretty()
			default:
				back, ok, _ := e.codeOf(verT, v)
				known := false
				for _, l := range spec.VersionLabels {
					known = known || l == label
				}
				okVal = ok && back == label && known && !seenLabel[label]
				seenLabel[label] = true
				detail = fmt.Sprintf("label %q -> %s (prints as %q)", label, r.Pretty(), back)
			}
		}
		c.Check(okLen && okTag && okRest && okVal, "version-prefix", cons, e.P.Pos(lf.Pos), `accepts only "CVSS:<label>"; `+detail, fmt.Sprintf("prefix acceptance is not exactly: two ':'-parts, first part == \"CVSS\", the second part compared with the supported labels only, each yielding the constant that prints as that label (len ok=%v, tag ok=%v, only label tests=%v, value ok=%v; %s)", okLen, okTag, okRest, okVal, detail))
	}
	for _, l := range spec.VersionLabels {
		c.Check(seenLabel[l], "version-prefix", who+" label "+l, e.P.Pos(gv.Pos()), "has an accepting path", "no accepting path for the supported label "+l)
	}
	c.Check(nDefault == 1, "version-prefix", who+" default path", e.P.Pos(gv.Pos()), "exactly one path for every other label (unknown version)", fmt.Sprintf("%d paths return without a label having matched", nDefault))
}

// revHasOf: g is revhas(M, X) or its negation; returns the revhas term.
func revHasOf(g *ir.Term) *ir.Term {
	if g.Op == ir.OUn && g.Str == "!" && len(g.Args) == 1 {
		g = g.Args[0]
	}
	if g.Op == "revhas" && len(g.Args) == 2 {
		return g
	}
	return nil
}

// revLabelTable: the term denotes a literal map from version constants to labels in which every supported label
// occurs exactly once, under the constant that prints as it, and every other value belongs to the unknown
// version: then "the key whose value is s" is the constant of label s, and there is none (or only the unknown
// one) for every other string.
func (e *Env) revLabelTable(m *ir.Term, verT types.Type) (bool, string) {
	v, ok := e.termAsValue(m)
	if !ok || v.Kind != facts.VTable || v.T == nil {
		return false, "the map searched is not a literal table: " + clip(m.Pretty())
	}
	count := map[string]int{}
	labels := map[string]bool{}
	for _, l := range spec.VersionLabels {
		labels[l] = true
	}
	for _, en := range v.T.Entries {
		s, isStr := stringOf(en.Val)
		if !isStr {
			return false, "an entry of the label table is not a string"
		}
		count[s]++
		back, ok, _ := e.codeOf(verT, en.Key)
		zero := en.Key.Kind == facts.VConst && en.Key.C != nil && constant.Sign(constant.ToInt(en.Key.C)) == 0
		switch {
		case labels[s] && (!ok || back != s):
			return false, fmt.Sprintf("label %q is the value of %s, which prints as %q", s, en.Key, back)
		case !labels[s] && !zero:
			return false, fmt.Sprintf("the string %q, not a supported label, is the value of %s", s, en.Key)
		}
	}
	for _, l := range spec.VersionLabels {
		if count[l] != 1 {
			return false, fmt.Sprintf("label %q occurs %d times in the label table", l, count[l])
		}
	}
	return true, ""
}

// appliedLabelParser: call is a library function applied to the label part and otherwise to constants and literal
// tables; evaluated over the label domain it yields, for each supported label, the constant that prints as that
// label, and the unknown version for every other string.
func (e *Env) appliedLabelParser(call, part *ir.Term, verT types.Type) (bool, string) {
	fn, _ := call.Obj.(*types.Func)
	if fn == nil || fn.Pkg() == nil || !load.IsLib(fn.Pkg().Path()) {
		return false, "the value is not a call of a library function"
	}
	pos := -1
	vals := make([]facts.Value, len(call.Args))
	strs := map[string]bool{"": true, "3": true, "2.0": true, "4.0": true, "unknown": true}
	for i, a := range call.Args {
		if a.Key() == part.Key() {
			if pos >= 0 {
				return false, "the label part is handed over twice"
			}
			pos = i
			continue
		}
		v, ok := e.termAsValue(a)
		if !ok {
			return false, "argument " + clip(a.Pretty()) + " is neither a constant nor a literal table"
		}
		vals[i] = v
		if v.Kind == facts.VTable && v.T != nil {
			for _, s := range v.T.Strings() {
				strs[s] = true
			}
		}
	}
	if pos < 0 {
		return false, "the label part is not an argument of the look-up"
	}
	labels := map[string]bool{}
	for _, l := range spec.VersionLabels {
		labels[l] = true
		strs[l] = true
	}
	seen := map[string]bool{}
	for _, s := range sortedKeys(strs) {
		vals[pos] = facts.StringValue(s)
		r := e.F.Eval(fn, vals...)
		if r.Kind != facts.VConst || r.C == nil {
			return false, fmt.Sprintf("%s on %q is not decided: %s", fname(fn), s, r)
		}
		if r.Type == nil {
			r.Type = verT
		}
		if en := e.F.EnumOf(verT); en != nil && r.Obj == nil {
			if i, ok := constant.Int64Val(constant.ToInt(r.C)); ok {
				if k := en.ConstByVal(i); k != nil {
					r.Obj = k
				}
			}
		}
		back, ok, _ := e.codeOf(verT, r)
		if labels[s] {
			if !ok || back != s || seen[s] {
				return false, fmt.Sprintf("label %q yields %s, which prints as %q", s, r, back)
			}
			seen[s] = true
			continue
		}
		if i, exact := constant.Int64Val(constant.ToInt(r.C)); !exact || i != 0 {
			return false, fmt.Sprintf("the string %q, not a supported label, yields %s", s, r)
		}
	}
	other := facts.Value{Kind: facts.VOther, Type: types.Typ[types.String]}
	vals[pos] = other
	if r := e.F.Eval(fn, vals...); r.Kind != facts.VConst || r.C == nil || constant.Sign(constant.ToInt(r.C)) != 0 {
		return false, fmt.Sprintf("any other string yields %s", r)
	}
	return true, ""
}

// termValue: a constant or a literal table as an abstract value.
func (e *Env) termAsValue(t *ir.Term) (facts.Value, bool) {
	switch t.Op {
	case ir.OConst:
		if t.C != nil {
			v := facts.Value{Kind: facts.VConst, C: t.C, Type: t.Typ}
			if t.Typ != nil {
				if en := e.F.EnumOf(t.Typ); en != nil {
					if i, ok := constant.Int64Val(constant.ToInt(t.C)); ok {
						if k := en.ConstByVal(i); k != nil {
							v.Obj = k
						}
					}
				}
			}
			return v, true
		}
	case ir.OGlobal:
		if v, ok := t.Obj.(*types.Var); ok {
			if tab := e.F.Tables[v]; tab != nil {
				return facts.Value{Kind: facts.VTable, T: tab}, true
			}
		}
	}
	if len(t.Args) == 1 && (t.Op == ir.OAddr || t.Op == "load" || t.Op == ir.OSlice) {
		return e.termAsValue(t.Args[0])
	}
	return facts.Value{}, false
}

func isZeroEnum(t *ir.Term) bool {
	if t.Op != ir.OConst || t.C == nil || t.C.Kind() != constant.Int {
		return false
	}
	v, ok := constant.Int64Val(t.C)
	return ok && v == 0
}

func isBuiltin(c *ssa.Call, name string) bool {
	b, ok := c.Call.Value.(*ssa.Builtin)
	return ok && b.Name() == name
}

func isIntConst(v ssa.Value, n int64) bool {
	c, ok := v.(*ssa.Const)
	if !ok || c.Value == nil || c.Value.Kind() != constant.Int {
		return false
	}
	i, ok := constant.Int64Val(c.Value)
	return ok && i == n
}
