package rules

import (
	"golang.org/x/tools/go/packages"
	"fmt"
	"go/constant"
	"go/token"
	"go/types"
	"sort"
	"strings"

	"cvsslint/internal/facts"
	"cvsslint/internal/ir"
	"cvsslint/internal/load"
	"cvsslint/internal/spec"

	"golang.org/x/tools/go/ssa"
)

func init() {
	register("C07", c07)
	register("C08", c08)
	register("C09", c09)
	register("C10", c10)
	register("C11", c11)
	register("C12", c12)
	register("C14", c14)
}

// keepRules keeps only the obligations (ok, violation or undecided) of the
// named rules: a property re-uses the shared decoder analysis but reports only
// the rule families that are necessary conditions of that property.
func (e *Env) keepRules(names ...string) {
	keep := map[string]bool{}
	for _, n := range names {
		keep[n] = true
	}
	out := e.C.Obs[:0]
	for _, o := range e.C.Obs {
		if keep[o.Rule] {
			out = append(out, o)
		}
	}
	e.C.Obs = out
}

// decoderAnalysis runs the shared analysis of the three decoders of a version.
func (e *Env) decoderAnalysis(v *spec.Version) ([]*facts.Level, []*decodeOneModel) {
	ls, err := e.F.Levels(v)
	if err != nil {
		e.C.Undecided("decoder-analysis", v.Pkg, "", err.Error())
		return nil, nil
	}
	var ms []*decodeOneModel
	for _, l := range ls {
		for _, p := range l.Problems {
			e.C.Fail("struct-layout", l.String(), e.P.Pos(l.Named.Obj().Pos()), p)
		}
		m := e.modelDecodeOne(l, "decode-one")
		ms = append(ms, m)
		e.armRules(l, m)
		e.decodeSkeleton(l, v.Name == "v3")
		e.getErrorRules(l, func(kind string) []string { return sentinelFor(v, l, kind) })
		if v.Name == "v2" {
			e.groupEmptiness(l)
		}
		e.promotedExported(l)
	}
	e.tokenSentinels(v, ms)
	return ls, ms
}

// sentinelFor: allowed sentinel names per defect kind at GetError.
func sentinelFor(v *spec.Version, l *facts.Level, kind string) []string {
	switch kind {
	case "version":
		return []string{spec.Sentinels["version"]}
	case "nil-receiver":
		return []string{"ErrNoBaseMetrics", "ErrNoTemporalMetrics", "ErrNoEnvironmentalMetrics"}
	case "field-invalid":
		switch {
		case l.Spec.Name == "Base":
			return []string{spec.Sentinels["base-incomplete"]}
		case v.Name == "v3":
			return []string{spec.Sentinels["bad-code"]}
		case l.Spec.Name == "Temporal":
			return []string{spec.Sentinels["temporal-group"]}
		default:
			return []string{spec.Sentinels["environment-group"]}
		}
	}
	return nil
}

// armRules: names, wiring, parser, zero test per case arm (R4, R5, C09 wiring).
func (e *Env) armRules(l *facts.Level, m *decodeOneModel) {
	c := e.C
	if m == nil || m.Fn == nil || m.Leaves == nil || m.Split == nil {
		return // the per-token decoder was not modelled (reported as UNDECIDED where that happened)
	}
	who := fname(m.Fn)
	got := m.armNames()
	want := append([]string{}, l.Spec.Names()...)
	sort.Strings(want)
	c.Check(strings.Join(got, " ") == strings.Join(want, " "), "level-names", who, e.P.Pos(m.Fn.Pos()), "accepts exactly the names "+strings.Join(want, " "), fmt.Sprintf("the names accepted at this level are [%s], the specification's are [%s]", strings.Join(got, " "), strings.Join(want, " ")))
	for _, n := range got {
		a := m.Arms[n]
		cons := fmt.Sprintf("%s case %q", who, n)
		pos := e.P.Pos(a.Accept.Pos)
		own := l.ByName[n]
		if a.Field == nil {
			continue
		}
		c.Check(own != nil && a.Field == own, "wiring", cons, pos, "token "+n+" is stored in field "+n+" of this level", fmt.Sprintf("token %s is stored in field %s", n, a.Field.Name()))
		ps := parsersOf(l.Pkg.Types, a.Field.Type())
		isParser := false
		for _, g := range ps {
			if g == a.Parser {
				isParser = true
			}
		}
		c.Check(a.Parser != nil && isParser, "arm-parser", cons, pos, "value parsed by "+nameOf(a.Parser), fmt.Sprintf("the value is parsed by %s, which is not the parser of %s", nameOf(a.Parser), a.Field.Type()))
		c.Check(len(a.Rejects) >= 1, "arm-value", cons, pos, "an unknown value code is rejected", "no rejecting path for an unknown value code of this metric")
	}
}

func nameOf(f *types.Func) string {
	if f == nil {
		return "<none>"
	}
	return f.Name()
}

// tokenSentinels: C11(b) for decodeOne.
func (e *Env) tokenSentinels(v *spec.Version, ms []*decodeOneModel) {
	c := e.C
	for _, m := range ms {
		if m == nil || m.Fn == nil {
			continue
		}
		who := fname(m.Fn)
		for _, r := range m.Rejects {
			cons := fmt.Sprintf("%s %s %s path on %s", who, r.Kind, r.Arm, r.Cond)
			if r.Kind == "propagate" {
				c.Ok("sentinel-pairing", cons, e.P.Pos(r.Leaf.Pos), "embedded level's error passed on")
				continue
			}
			want := spec.Sentinels[r.Kind]
			c.Check(r.Sentinel == want, "sentinel-pairing", cons, e.P.Pos(r.Leaf.Pos), "cvsserr."+want, fmt.Sprintf("a %s defect is reported as cvsserr.%s, expected cvsserr.%s", r.Kind, r.Sentinel, want))
		}
	}
}

const decodeTrusted = "library semantics of strings.Split and == on strings"

var languageRules = []string{"decode-rejections", "validity-rejections", "group-emptiness", "struct-layout", "decode-one", "token-split", "vector-split", "token-shape", "level-names", "arm-parser", "arm-value", "duplicate-test", "duplicate-mark", "accept-path", "arm-writes", "reject-path", "no-normalisation", "delegation-first", "token-loop", "deferred-error", "completeness-gate", "result-exclusive", "validity-coverage", "nil-receiver-decode", "code-table", "parse", "decoder-analysis", "decode-skeleton", "constructor-default"}

func c07(e *Env) {
	c := e.C
	c.Explanation = "The three v3 decoders are checked against the parsing skeleton R1-R9 of DESIGN.md 4.3, from which the accepted language follows: prefix handled by GetVersion on the first '/'-element (two ':'-parts, first == \"CVSS\", label by table look-up, unknown label rejected); the own-level decodeOne is applied to every further element with no skip or early exit; decodeOne (loop-free, analysed as guarded paths with their writes) accepts a token only under len(parts)==2, both parts non-empty, name not seen before, name one of the level's names (delegating first to the embedded level), value parsed by the metric's own parser and different from the unknown constant; every other path returns an error; an accepted token is recorded in names exactly then; success is dominated by 'no remembered error' and own-level GetError()==nil, which covers every base field; nothing on the path from the input to the string comparisons normalises it. The derived descriptor (names per level, codes per name via the C20 parser obligations) is compared with the specification."
	c.Trusted = []string{"go/types + go/ssa", decodeTrusted, "specification name/code tables in checker/internal/spec"}
	c.NotDecided = []string{"semantics of strings.Split and string == (trusted)", "resource exhaustion on huge inputs"}
	ls, _ := e.decoderAnalysis(&spec.V3)
	for _, l := range ls {
		for _, fv := range l.Metrics {
			e.metricTables(l, fv, spec.V3.Metric(fv.Name()))
		}
		// "all eight base metrics are present" is tested as "no base field still holds its unknown value": that is
		// presence only if the constructor starts every base field at that value (and the optional ones at Not Defined)
		e.constructorDefaults(l, "constructor-default")
	}
	e.versionTables()
	e.keepRules(append(languageRules, "version-prefix", "version-table")...)
	c.Floor("level-names", 3)
	c.Floor("token-loop", 3)
	c.Floor("completeness-gate", 3)
	c.Floor("deferred-error", 3)
	c.Floor("version-prefix", 12)
	c.Floor("parse", 100)
	c.Floor("validity-coverage", 22)
	c.Floor("arm-parser", 22)
	c.Floor("accept-path", 22)
	c.Floor("reject-path", 30)
	c.Floor("decode-rejections", 15)
	c.Floor("validity-rejections", 6)
}

func c08(e *Env) {
	c := e.C
	c.Explanation = "The three v2 decoders are checked against the same parsing skeleton as v3 (no prefix; the loop ranges over all '/'-elements) plus: success is dominated by the own-level Encode() reporting no error and by vector == Encode()'s text (canonical order, together with C10's emission order), and GetError's all-or-nothing group test (a present group must have every metric valid). The derived descriptor is compared with the specification's v2 names and codes."
	c.Trusted = []string{"go/types + go/ssa", decodeTrusted, "specification name/code tables in checker/internal/spec"}
	c.NotDecided = []string{"semantics of strings.Split and string == (trusted)"}
	ls, _ := e.decoderAnalysis(&spec.V2)
	for _, l := range ls {
		for _, fv := range l.Metrics {
			e.metricTables(l, fv, spec.V2.Metric(fv.Name()))
		}
		e.encodeRules(l)
		// a complete group is tested as "no field of the group still holds its invalid value": complete only if the
		// constructor starts every field there
		e.constructorDefaults(l, "constructor-default")
	}
	e.keepRules(append(languageRules, "canonical-order", "encode-order", "encode-emission", "encode-guard", "encode-emissions", "encode-error")...)
	c.Floor("level-names", 3)
	c.Floor("token-loop", 3)
	c.Floor("completeness-gate", 3)
	c.Floor("canonical-order", 3)
	c.Floor("deferred-error", 3)
	c.Floor("parse", 60)
	c.Floor("validity-coverage", 14)
	c.Floor("encode-order", 3)
	c.Floor("arm-parser", 14)
	c.Floor("accept-path", 14)
	c.Floor("reject-path", 20)
	c.Floor("decode-rejections", 12)
	c.Floor("validity-rejections", 6)
}

func c09(e *Env) {
	c := e.C
	c.Explanation = "Wiring: in every accepting path of every decodeOne the token name's constant value equals the name of the struct field written, the field is declared at the decoder's own level, and the path's write set is exactly {that field, names[name]}; no path's outcome depends on a metric field set by another token (order independence); the v3 constructors default every optional metric to the constant whose code is X and the v2 constructors to the unknown constant with an empty names set; the v3 temporal/environmental names sets are read only by the duplicate test (so explicit X and omission are indistinguishable); Ver is assigned GetVersion's result in all three v3 Decodes. Which enumeration constant a written code denotes is only observable through what the constant prints as and what it weighs: the value stored is the parser's result for the written code, that result prints as the same code (parse, code-table) carries the specification's weight for that code (weight) and answers the type's predicates as that code must (validity: IsDefined exactly for the codes other than Not Defined, IsValid/IsUnknown for every code) - two codes swapped in a table would otherwise store, for each of them, the other one's value (with equal weights, as for the v2 CDP codes N and ND, only the predicates tell them apart)."
	c.Trusted = []string{"go/types + go/ssa", "block-local store-to-load forwarding in the term builder"}
	for _, v := range []*spec.Version{&spec.V3, &spec.V2} {
		ls, _ := e.decoderAnalysis(v)
		for _, l := range ls {
			e.constructorDefaults(l, "constructor-default")
			e.constructorFresh(l, "constructor-fresh")
			for _, fv := range l.Metrics {
				e.metricTables(l, fv, v.Metric(fv.Name()))
			}
		}
		e.namesReaders(v, ls)
		// "holds" is meant for as long as the object is used: the fields a decoder stored must have no other writer
		e.writeOwnership(v, ls)
	}
	e.keepRules("write-ownership", "group-emptiness", "struct-layout", "wiring", "arm-writes", "arm-value", "arm-parser", "order-independence", "constructor-default", "constructor-fresh", "names-readers", "version-recorded", "duplicate-mark", "level-names", "decode-one", "delegation-first", "parse", "code-table", "weight", "validity")
	c.Floor("wiring", 36)
	c.Floor("constructor-default", 36)
	c.Floor("version-recorded", 3)
	c.Floor("names-readers", 6)
}

func c10(e *Env) {
	c := e.C
	c.Explanation = "For each of the six Encode methods the ordered list of emissions is extracted from the guarded paths (strings.Join of appended parts for the base level, strings.Builder writes for the others): each emission prints a name constant and a field whose name equals that constant, in the specification's order, preceded by the embedded level's own Encode/String on the embedded object (v3 base: CVSS:<Ver> first); v3 base and all v2 emissions are present exactly when names[N] holds, v3 temporal/environmental emissions are unconditional (X spelled out, with String() of Not Defined = \"X\" from the C20 code tables); the error result is the own-level GetError(); String() is Encode()'s text; every code a field value prints as parses back to that same value and every other string parses to the unknown value (parse, over the tabulated domain of each Get function). Round trip and v2 byte identity then follow from C07/C08 (R10: vector == enc) and C09."
	c.Trusted = []string{"go/types + go/ssa", "fmt.Sprintf(\"%v\") of a Stringer prints String() (trusted)"}
	for _, v := range []*spec.Version{&spec.V3, &spec.V2} {
		ls, err := e.F.Levels(v)
		if err != nil {
			c.Undecided("encode-emissions", v.Pkg, "", err.Error())
			continue
		}
		for _, l := range ls {
			e.encodeRules(l)
			for _, fv := range l.Metrics {
				e.metricTables(l, fv, v.Metric(fv.Name()))
			}
			if v.Name == "v2" {
				e.decodeSkeleton(l, false)
			}
			// "X when undefined": a metric the vector does not write is spelled X only if the constructor starts it
			// as Not Defined
			e.constructorDefaults(l, "constructor-default")
			e.constructorFresh(l, "constructor-fresh")
			// "decoding the encoding yields an object with the same fields": Encode prints field N under name N
			// (encode-emission) and the decoder stores the token named N in field N (wiring)
			e.armRules(l, e.modelDecodeOne(l, "decode-one"))
		}
		e.namesReaders(v, ls)
		// what Encode prints must still be what the decoder stored: no other writer of the fields
		e.writeOwnership(v, ls)
	}
	e.versionTables()
	c.Floor("canonical-order", 3)
	c.Floor("write-ownership", 36)
	e.keepRules("write-ownership", "names-readers", "encode-order", "encode-emission", "encode-guard", "encode-emissions", "encode-error", "encode-nil", "string-is-encode", "code-table", "parse", "canonical-order", "version-table", "version-prefix", "constructor-default", "constructor-fresh", "wiring", "arm-parser",
		// decode-encode-decode: the encoding of an accepted vector must be accepted again - no token of a canonical
		// vector may be refused for a reason the specification does not name (an arm testing against the wrong constant)
		"arm-value", "reject-path")
	c.Floor("encode-order", 6)
	c.Floor("encode-emission", 36)
	c.Floor("encode-guard", 36)
	c.Floor("string-is-encode", 6)
	c.Floor("code-table", 200)
}

func c11(e *Env) {
	c := e.C
	c.Explanation = "(a) Provenance: every error value returned by the six Decode methods, the six decodeOne, GetVersion, the six GetError and the six Encode is errs.Wrap(S, context...) of exactly one cvsserr sentinel S or errs.Wrap of such an error (no errs.WithCause, errors.New or fmt.Errorf in the metric packages); the eleven sentinels are distinct errors.New values never reassigned. (b) Pairing: every rejecting path is classified by the condition that causes it (token shape -> invalid vector, names[name] -> same metric, parsed value == unknown constant -> invalid value, name matched no case -> unsupported metric, version == unknown -> unsupported version, field validity in GetError -> no base / no temporal / no environmental metrics, vector != re-encoding -> misordered) and must wrap the sentinel the specification table gives. (c) Deferral: in each Decode loop a decodeOne error other than 'unsupported metric' returns at once, 'unsupported metric' is remembered, never reset, and returned after the scan; higher-level decodeOne passes on every embedded-level error except 'unsupported metric'."
	c.Trusted = []string{"go/types + go/ssa", "github.com/goark/errs: Wrap keeps its first argument as cause and errors.Is follows the cause chain"}
	c.NotDecided = []string{"that every malformed byte string is classified malformed (inherited from the C07/C08 skeleton rules)", "'exactly one kind present => that kind reported' beyond the order of tests (argued from the guard order, not enumerated)"}
	for _, v := range []*spec.Version{&spec.V3, &spec.V2} {
		e.decoderAnalysis(v)
		ls, _ := e.F.Levels(v)
		for _, l := range ls {
			// "unknown value code -> invalid value" needs every non-code to parse to the unknown constant
			for _, fv := range l.Metrics {
				e.metricTables(l, fv, v.Metric(fv.Name()))
			}
		}
	}
	e.sentinelProvenance()
	e.keepRules("parse", "token-split-kind", "sentinel-pairing", "deferred-error", "reject-path", "sentinel-provenance", "sentinel-distinct", "version-prefix", "duplicate-test", "token-shape", "decode-one", "decoder-analysis", "table-immutability", "group-emptiness",
		// a repeated or malformed token of a lower level is reported by that level's own tests only if the higher
		// level hands it down first
		"delegation-first")
	c.Floor("sentinel-pairing", 90)
	c.Floor("deferred-error", 6)
	c.Floor("sentinel-provenance", 18) // shared helpers (one decode loop for three levels) reduce the number of functions that return errors
	c.Floor("sentinel-distinct", 11)
}

// sentinelFacts: the cvsserr sentinels are distinct errors.New values, initialised once and never reassigned.
// Every rule that treats errs.Wrap(<sentinel>) as a non-nil error matching exactly that sentinel depends on it,
// so it is part of every property whose rules do (not only of C11).
func (e *Env) sentinelFacts() {
	c := e.C
	// sentinels: distinct errors.New, never reassigned
	pk := e.P.Lib("cvsserr")
	sp := e.P.LibSSA("cvsserr")
	initFn := sp.Func("init")
	stores := map[*ssa.Global][]ssa.Value{}
	if initFn != nil {
		for _, b := range initFn.Blocks {
			for _, in := range b.Instrs {
				if st, ok := in.(*ssa.Store); ok {
					if g, ok := st.Addr.(*ssa.Global); ok {
						stores[g] = append(stores[g], st.Val)
					}
				}
			}
		}
	}
	n := 0
	for _, name := range pk.Types.Scope().Names() {
		v, ok := pk.Types.Scope().Lookup(name).(*types.Var)
		if !ok || !types.Identical(v.Type(), errorType) {
			continue
		}
		n++
		g, _ := sp.Members[name].(*ssa.Global)
		ok = false
		if g != nil && len(stores[g]) == 1 {
			if call, isCall := stores[g][0].(*ssa.Call); isCall && call.Call.StaticCallee() != nil && call.Call.StaticCallee().String() == "errors.New" {
				ok = true
			}
		}
		c.Check(ok, "sentinel-distinct", "cvsserr."+name, e.P.Pos(v.Pos()), "initialised once with its own errors.New value", "sentinel is not a distinct errors.New value initialised exactly once")
	}
	e.tableImmutability("table-immutability", "cvsserr")
	_ = n
}

// sentinelProvenance: C11(a).
func (e *Env) sentinelProvenance() {
	c := e.C
	e.sentinelFacts()
	// provenance of every returned error in the metric packages
	errsPkg := "github.com/goark/errs"
	rels := []string{"v3/metric", "v2/metric"}
	// internal packages the metric packages import (directly or through one another): code the metric packages
	// share, its errors are theirs; an internal package only the report packages use (template plumbing) is not
	imported := map[string]bool{}
	var visit func(pk *packages.Package)
	visit = func(pk *packages.Package) {
		if pk == nil || imported[pk.PkgPath] {
			return
		}
		imported[pk.PkgPath] = true
		for _, ip := range pk.Imports {
			if strings.HasPrefix(ip.PkgPath, load.ModPath+"/") {
				visit(ip)
			}
		}
	}
	visit(e.P.Lib("v3/metric"))
	visit(e.P.Lib("v2/metric"))
	for _, rel := range e.P.LibRels() {
		if load.IsInternal(load.ModPath+"/"+rel) && imported[load.ModPath+"/"+rel] {
			rels = append(rels, rel)
		}
	}
	for _, rel := range rels {
		for _, fn := range e.F.Effects().All {
			if fn.Pkg == nil || fn.Pkg.Pkg.Path() != load.ModPath+"/"+rel || fn.Synthetic != "" {
				continue
			}
			if !e.reachableFromAPI()[fn] {
				continue // errors of entry points the property does not speak of (a lenient wrapper, a marshaller)
			}
			sig := fn.Signature
			ei := -1
			for i := 0; i < sig.Results().Len(); i++ {
				if types.Identical(sig.Results().At(i).Type(), errorType) {
					ei = i
				}
			}
			// forbidden constructors anywhere in the package
			for _, b := range fn.Blocks {
				for _, in := range b.Instrs {
					call, ok := in.(*ssa.Call)
					if !ok || call.Call.StaticCallee() == nil {
						continue
					}
					switch q := call.Call.StaticCallee().String(); q {
					case "errors.New", "fmt.Errorf":
						// an error that matches no sentinel is harmless as the *cause* attached to a wrapped sentinel
						// (errs.Error.Is consults Err and Cause); anywhere else it could be what is returned
						if !plainError(call) || !onlyUsedAsCause(call) {
							c.Fail("sentinel-provenance", fn.String()+" calls "+q, e.P.Pos(call.Pos()), "an error built here could match no sentinel, or two of them")
						}
					case errsPkg + ".WithCause":
						if len(call.Call.Args) != 1 || !noSentinelValue(call.Call.Args[0]) {
							c.Fail("sentinel-provenance", fn.String()+" calls "+q, e.P.Pos(call.Pos()), "the cause attached here is not provably free of sentinels: the error could match two of them")
						}
					case errsPkg + ".New", "errors.Join":
						c.Fail("sentinel-provenance", fn.String()+" calls "+q, e.P.Pos(call.Pos()), "an error built here could match no sentinel, or two of them")
					}
				}
			}
			if ei < 0 {
				continue
			}
			bld := e.builder(fn)
			okAll := true
			nret := 0
			for _, b := range fn.Blocks {
				for _, in := range b.Instrs {
					r, ok := in.(*ssa.Return)
					if !ok {
						continue
					}
					nret++
					if !e.singleSentinel(bld, r.Results[ei], 0) {
						okAll = false
						c.Fail("sentinel-provenance", fn.String(), e.P.Pos(r.Pos()), "returns an error that is not nil, errs.Wrap(one cvsserr sentinel, context...) or errs.Wrap of an error produced by another function of the package: "+clip(bld.Term(r.Results[ei]).Pretty()))
					}
				}
			}
			if okAll {
				c.Ok("sentinel-provenance", fn.String(), e.P.Pos(fn.Pos()), fmt.Sprintf("%d return(s): nil, Wrap(sentinel) or Wrap(error of a package function)", nret))
			}
		}
	}
}

// singleSentinel: the value is nil, errs.Wrap(sentinel...), errs.Wrap(v') with v' single-sentinel,
// the error result of a package function (checked itself), or a φ of such values.
func (e *Env) singleSentinel(bld *ir.Builder, v ssa.Value, depth int) bool {
	return e.singleSentinelSeen(bld, v, depth, map[ssa.Value]bool{})
}

func (e *Env) singleSentinelSeen(bld *ir.Builder, v ssa.Value, depth int, seen map[ssa.Value]bool) bool {
	if depth > 20 {
		return false
	}
	switch x := v.(type) {
	case *ssa.Const:
		return x.Value == nil
	case *ssa.Phi:
		if seen[x] {
			return true // a cycle of φ-nodes adds no new source
		}
		seen[x] = true
		for _, ed := range x.Edges {
			if ed == ssa.Value(x) {
				continue
			}
			if !e.singleSentinelSeen(bld, ed, depth+1, seen) {
				return false
			}
		}
		return true
	case *ssa.Extract:
		if call, ok := x.Tuple.(*ssa.Call); ok {
			return e.moduleErrorSource(call)
		}
	case *ssa.Parameter:
		// an unexported helper that wraps the error it is handed: every call site must hand it such a value
		fn := x.Parent()
		if seen[x] {
			return true
		}
		seen[x] = true
		if fn == nil || fn.Object() == nil || (fn.Object().Exported() && !(fn.Pkg != nil && load.IsInternal(fn.Pkg.Pkg.Path()))) {
			return false
		}
		ci := e.callersOf(fn)
		if ci == nil || ci.AsValue || len(ci.Callers) == 0 {
			return false
		}
		idx := -1
		for i, p := range fn.Params {
			if p == x {
				idx = i
			}
		}
		sites := 0
		for _, caller := range ci.Callers {
			cb := e.builder(caller)
			for _, b := range caller.Blocks {
				for _, in := range b.Instrs {
					call, ok := in.(ssa.CallInstruction)
					if !ok || call.Common().StaticCallee() != fn {
						continue
					}
					if _, isCall := in.(*ssa.Call); !isCall || idx < 0 || idx >= len(call.Common().Args) {
						return false // go / defer of the helper
					}
					sites++
					if !e.singleSentinelSeen(cb, call.Common().Args[idx], depth+1, seen) {
						return false
					}
				}
			}
		}
		return sites > 0
	case *ssa.UnOp:
		// the bare sentinel itself (a helper handing it to a caller that wraps it; errors.Is matches it either way)
		if x.Op == token.MUL {
			if g, ok := x.X.(*ssa.Global); ok {
				return g.Pkg.Pkg.Path() == load.ModPath+"/cvsserr"
			}
		}
	case *ssa.Call:
		callee := x.Call.StaticCallee()
		if callee == nil {
			return e.moduleErrorSource(x)
		}
		if callee.String() == "github.com/goark/errs.Wrap" {
			if len(x.Call.Args) == 0 {
				return false
			}
			// options: only errs.WithContext(...) and errs.WithCause(<an error free of sentinels>) - any other
			// ErrorContextFunc could replace the wrapped error. The option list may be assembled step by step.
			if len(x.Call.Args) > 1 && !wrapOptionsOK(x.Call.Args[1], 0) {
				return false
			}
			a := x.Call.Args[0]
			if u, ok := a.(*ssa.UnOp); ok && u.Op == token.MUL {
				if g, ok := u.X.(*ssa.Global); ok {
					return g.Pkg.Pkg.Path() == load.ModPath+"/cvsserr"
				}
			}
			return e.singleSentinelSeen(bld, a, depth+1, seen)
		}
		return e.moduleErrorSource(x)
	}
	return false
}

func (e *Env) moduleErrorSource(call *ssa.Call) bool {
	callee := call.Call.StaticCallee()
	if callee == nil && call.Call.IsInvoke() {
		// a method called through an interface or a type parameter whose method set has an unexported method of
		// the metric packages: only types of that package can implement it, so the method called is one of the
		// package's own functions
		var iface *types.Interface
		switch t := call.Call.Value.Type().(type) {
		case *types.TypeParam:
			iface, _ = t.Constraint().Underlying().(*types.Interface)
		default:
			iface, _ = t.Underlying().(*types.Interface)
		}
		if iface != nil {
			for i := 0; i < iface.NumMethods(); i++ {
				m := iface.Method(i)
				if !m.Exported() && m.Pkg() != nil && (isMetricPkg(m.Pkg().Path()) || load.IsInternal(m.Pkg().Path())) {
					return true
				}
			}
		}
		return false
	}
	if callee == nil {
		return e.handedErrorSource(call)
	}
	// (an instance of a generic function of these packages is that function)
	pk := ir.FuncPackage(callee)
	return pk != nil && (pk.Pkg.Path() == load.ModPath+"/v3/metric" || pk.Pkg.Path() == load.ModPath+"/v2/metric" || load.IsInternal(pk.Pkg.Path()))
}

// handedErrorSource: the call goes through a function value an unexported helper is handed; it is an error source
// of the metric packages if every call site of the helper hands it a function or method value of those packages.
func (e *Env) handedErrorSource(x *ssa.Call) bool {
	// a call through a function value the (unexported) helper is handed: an error source of the package if
	// every call site hands it a function or method value of the metric packages
	pv, isParam := x.Call.Value.(*ssa.Parameter)
	if !isParam || x.Call.IsInvoke() {
		return false
	}
	return e.handedParamIsModuleFunc(pv, 0)
}

// handedParamIsModuleFunc: every call site of the (unexported) function pv belongs to passes a function or method
// value of the metric packages in pv's position - directly, or by handing on a parameter of its own for which
// the same holds.
func (e *Env) handedParamIsModuleFunc(pv *ssa.Parameter, depth int) bool {
	if depth > 4 {
		return false
	}
	fn := pv.Parent()
	if fn == nil || fn.Object() == nil || (fn.Object().Exported() && !(fn.Pkg != nil && load.IsInternal(fn.Pkg.Pkg.Path()))) {
		return false
	}
	ci := e.callersOf(fn)
	if ci == nil || ci.AsValue || len(ci.Callers) == 0 {
		return false
	}
	idx := -1
	for i, q := range fn.Params {
		if q == pv {
			idx = i
		}
	}
	sites := 0
	for _, caller := range ci.Callers {
		for _, b := range caller.Blocks {
			for _, in := range b.Instrs {
				call, ok := in.(*ssa.Call)
				if !ok || call.Call.StaticCallee() != fn {
					continue
				}
				if idx < 0 || idx >= len(call.Call.Args) {
					return false
				}
				sites++
				var target *ssa.Function
				switch a := call.Call.Args[idx].(type) {
				case *ssa.Parameter:
					if !e.handedParamIsModuleFunc(a, depth+1) {
						return false
					}
					continue
				case *ssa.Function:
					target = a
				case *ssa.MakeClosure:
					target, _ = a.Fn.(*ssa.Function)
					if target != nil && strings.HasPrefix(target.Synthetic, "bound method wrapper") {
						var m *ssa.Function
						for _, blk := range target.Blocks {
							for _, bi := range blk.Instrs {
								if c, ok := bi.(*ssa.Call); ok && c.Call.StaticCallee() != nil {
									m = c.Call.StaticCallee()
								}
							}
						}
						target = m
					}
				}
				if target == nil || target.Pkg == nil || (target.Pkg.Pkg.Path() != load.ModPath+"/v3/metric" && target.Pkg.Pkg.Path() != load.ModPath+"/v2/metric") {
					return false
				}
			}
		}
	}
	return sites > 0
}

// ---------------------------------------------------------------------------
// C09 helpers

// constructorFresh: P2/E3 — names is a fresh empty map, the embedded object a fresh lower constructor result.
func (e *Env) constructorFresh(l *facts.Level, rule string) {
	c := e.C
	ctor := e.P.LookupFunc(l.Version.Pkg, "New"+l.Spec.Name)
	if ctor == nil {
		c.Fail(rule, l.String(), "", "constructor not found")
		return
	}
	fields := e.ctorFields(ctor, rule)
	if fields == nil {
		return
	}
	who := fname(ctor)
	if l.Names == nil {
		c.Undecided(rule, who+" names", e.P.Pos(ctor.Pos()), l.NamesProblem)
		return
	}
	// a map allocated in the constructor itself (map[K]V{} or make(map[K]V)); ctorFields admits no map updates, so it is empty
	x := fields[l.Names]
	if l.NamesBits {
		// a bit set: the empty set is the zero value (left out of the literal, or written as 0); being a value it is never shared
		okBits := x == nil || (x.Op == ir.OConst && (x.C == nil || (x.C.Kind() == constant.Int && constant.Sign(x.C) == 0)))
		c.Check(okBits, rule, who+" names", e.P.Pos(ctor.Pos()), "the empty bit set per object", "the names bit set does not start empty")
	} else {
		okNames := x != nil && x.Op == ir.OAlloc && x.Str == "map"
		c.Check(okNames, rule, who+" names", e.P.Pos(ctor.Pos()), "a fresh empty map per object", "names is not initialised with a fresh empty map literal (nil map write would panic / shared map would leak state between objects)")
	}
	if l.Lower != nil {
		lowerCtor := e.P.LookupFunc(l.Version.Pkg, "New"+l.Lower.Spec.Name)
		y := fields[l.Embedded]
		okEmb := y != nil && lowerCtor != nil && y.Op == ir.OCall && y.Obj == types.Object(lowerCtor) && len(y.Args) == 0
		c.Check(okEmb, rule, who+" embedded "+l.Lower.Spec.Name, e.P.Pos(ctor.Pos()), "a fresh New"+l.Lower.Spec.Name+"() per object", "the embedded lower-level object is not a fresh constructor result")
	}
	// nothing else assigns names / the embedded pointer
	for _, fn := range e.F.Effects().All {
		if fn.Synthetic != "" {
			continue
		}
		for _, b := range fn.Blocks {
			for _, in := range b.Instrs {
				st, ok := in.(*ssa.Store)
				if !ok {
					continue
				}
				fa, ok := st.Addr.(*ssa.FieldAddr)
				if !ok {
					continue
				}
				stt := fa.X.Type().Underlying().(*types.Pointer).Elem().Underlying().(*types.Struct)
				fv := stt.Field(fa.Field)
				if fv != l.Names && (l.Embedded == nil || fv != l.Embedded) {
					continue
				}
				if fv == l.Names && l.NamesBits {
					continue // a bit set is updated by assignment; who may do so is write-ownership's rule
				}
				if fn.Object() == types.Object(ctor) {
					continue
				}
				// a freshly allocated copy (Clone): no object handed out by a constructor or decoder is changed
				if rs := e.F.Effects().Roots(st.Addr); len(rs) > 0 {
					allLocal := true
					for _, r := range rs {
						if r.Kind != facts.RLocal {
							allLocal = false
						}
					}
					if allLocal {
						continue
					}
				}
				c.Fail(rule, fmt.Sprintf("%s assigns %s.%s", fn.String(), l.Spec.Name, fv.Name()), e.P.Pos(st.Pos()), "only the constructor may set this field (non-nil invariant)")
			}
		}
	}
}

// namesReaders: who reads each level's names set.
func (e *Env) namesReaders(v *spec.Version, ls []*facts.Level) {
	c := e.C
	for _, l := range ls {
		if l.Names == nil {
			c.Undecided("names-readers", l.String(), "", l.NamesProblem)
			continue
		}
		allowed := map[string]bool{}
		if l.DecodeOne != nil {
			allowed[l.DecodeOne.Name()] = true
		}
		if v.Name == "v2" || l.Lower == nil {
			allowed["Encode"] = true
		}
		if v.Name == "v2" && l.Lower != nil {
			allowed["IsEmpty"] = true
		}
		readers := map[string]bool{}
		for _, fn := range e.F.Effects().All {
			if fn.Synthetic != "" {
				continue
			}
			for _, b := range fn.Blocks {
				for _, in := range b.Instrs {
					fa, ok := in.(*ssa.FieldAddr)
					if !ok {
						continue
					}
					stt := fa.X.Type().Underlying().(*types.Pointer).Elem().Underlying().(*types.Struct)
					if stt.Field(fa.Field) != l.Names {
						continue
					}
					name := fn.Name()
					if o, ok := fn.Object().(*types.Func); ok && o == e.P.LookupFunc(l.Version.Pkg, "New"+l.Spec.Name) {
						continue
					}
					if !e.reachableFromAPI()[fn] {
						// not on any path of decoding, encoding, scoring or reporting: reading the set here cannot
						// change what those return
						readers[name+" (not reachable from the decode/encode/score/report operations)"] = true
						continue
					}
					readers[name] = true
					own := func(f *ssa.Function) bool {
						return allowed[f.Name()] && f.Signature.Recv() != nil && types.Identical(f.Signature.Recv().Type(), l.Ptr())
					}
					// (an unexported helper that runs only for the allowed readers reads in their name: what it does with
					// the set is decided where those readers are analysed, with the helper expanded in place)
					if !own(fn) && !e.privateTo(fn, own) {
						c.Fail("names-readers", fmt.Sprintf("%s reads %s.names", fn.String(), l.Spec.Name), e.P.Pos(fa.Pos()), "the set of names seen is observable here: writing X explicitly would no longer be indistinguishable from omitting the metric (v3), or group presence would be decided elsewhere (v2)")
					}
				}
			}
		}
		c.Ok("names-readers", l.String()+".names", e.P.Pos(l.Names.Pos()), "read only by "+strings.Join(sortedKeys(readers), ", "))
	}
}

// ---------------------------------------------------------------------------

func c12(e *Env) {
	c := e.C
	c.Explanation = "P1 bounds: every index/slice expression in the library packages has a constant index on a strings.Split result (length >= 1) that is 0, or is dominated by len(x)==n with n greater than the index, or is the loop variable of a canonical range loop. P2: constructors return the address of a literal whose names is a fresh map and whose embedded pointer is a fresh lower constructor result, and nothing else assigns those fields. P3 nil receivers (must-guard): in every exported pointer-receiver method of the six metrics types every dereference of the receiver is dominated by receiver != nil, by re-assignment from a constructor, or by receiver.GetError() == nil; unexported methods are checked at their call sites. P4: no panic, single-value type assertion, integer division by a non-constant or recursion in the library packages. P5: each Decode returns (object, nil) with a provably non-nil object or (nil, error) with a provably non-nil error. P6: Score starts with the own-level GetError() and returns 0 on its error edge, Encode returns the own-level GetError() as its error, GetError tests every field of its level (v2: of a present group) through a predicate that is true on the unknown constant, and the embedded level's GetError."
	c.Trusted = []string{"go/types + go/ssa", "strings.Split returns at least one element for a non-empty separator", "errs.Wrap returns nil only for a nil error"}
	c.NotDecided = []string{"panics inside fmt, strings, errs, x/text, text/template", "stack or memory exhaustion on huge inputs (the only input-proportional work is strings.Split; no recursion)", "objects assembled by hand as struct literals (outside 'obtained from a constructor or a nil receiver')"}
	for _, v := range []*spec.Version{&spec.V3, &spec.V2} {
		ls, _ := e.decoderAnalysis(v)
		k := e.newScoreKit(v, "score-gate")
		for _, l := range ls {
			e.constructorFresh(l, "constructor-fresh")
			e.constructorDefaults(l, "constructor-default")
			e.encodeRules(l)
			if k != nil {
				e.scoreGate(k, l)
			}
		}
		if k != nil {
			k.validChain("valid-chain")
		}
		e.nilReceiverRules(v, ls)
	}
	e.boundsRules()
	e.noExplicitFailure()
	e.keepRules("group-emptiness", "promoted-methods", "struct-layout", "bounds", "constructor-fresh", "constructor-default", "nil-receiver", "nil-receiver-decode", "no-explicit-failure", "result-exclusive", "validity-coverage", "score-gate", "encode-error", "encode-nil", "valid-chain", "token-shape", "decode-one", "decoder-analysis", "decode-skeleton")
	c.Floor("bounds", 8)
	c.Floor("nil-receiver", 40)
	c.Floor("result-exclusive", 30)
	c.Floor("validity-coverage", 36)
	c.Floor("score-gate", 6)
	c.Floor("constructor-fresh", 10)
}

// scoreGate: every Score returns 0 unless own-level GetError() == nil.
func (e *Env) scoreGate(k *scoreKit, l *facts.Level) {
	c := e.C
	f := l.Method("Score")
	if f == nil {
		c.Fail("score-gate", l.String()+".Score", "", "method not found")
		return
	}
	leaves, err := ir.Leaves(e.P.SSAFunc(f), ir.LeafOptions{Inline: e.inlineHelpers()})
	if err != nil {
		c.Undecided("score-gate", fname(f), e.P.Pos(f.Pos()), err.Error())
		return
	}
	valid := ir.Bin("==", ir.Call(l.Method("GetError"), ir.Param(0)), nilOf(errorType))
	ok := true
	for _, lf := range leaves {
		if hasGuard(lf, valid) {
			continue
		}
		if !(len(lf.Ret) == 1 && isZeroConst(lf.Ret[0])) {
			ok = false
			c.Fail("score-gate", fname(f), e.P.Pos(lf.Pos), "returns something other than 0 on a path where the own-level GetError() was not seen to be nil: "+lf.String())
		}
	}
	if ok {
		c.Ok("score-gate", fname(f), e.P.Pos(f.Pos()), "0 unless the own-level GetError() == nil")
	}
}

// nilReceiverRules: P3.
func (e *Env) nilReceiverRules(v *spec.Version, ls []*facts.Level) {
	c := e.C
	levelOf := map[types.Type]*facts.Level{}
	for _, l := range ls {
		levelOf[l.Named] = l
	}
	embedded := map[*types.Var]bool{}
	for _, l := range ls {
		if l.Embedded != nil {
			embedded[l.Embedded] = true
		}
	}
	for _, fn := range e.F.Effects().All {
		if fn.Signature.Recv() == nil || fn.Synthetic != "" {
			continue
		}
		pt, ok := fn.Signature.Recv().Type().(*types.Pointer)
		if !ok {
			continue
		}
		l := levelOf[pt.Elem()]
		if l == nil {
			continue
		}
		obj, _ := fn.Object().(*types.Func)
		if obj == nil {
			continue
		}
		recv := fn.Params[0]
		var bad []string
		nDeref := 0
		for _, b := range fn.Blocks {
			for _, in := range b.Instrs {
				var base ssa.Value
				switch x := in.(type) {
				case *ssa.FieldAddr:
					base = x.X
				case *ssa.Call:
					// calling an unexported pointer method passes the (possibly nil) receiver on: checked at the callee if exported, here if unexported
					if callee := x.Call.StaticCallee(); callee != nil && callee.Signature.Recv() != nil && len(x.Call.Args) > 0 {
						if co, ok := callee.Object().(*types.Func); ok && !co.Exported() && callee.Pkg == fn.Pkg {
							base = x.Call.Args[0]
						}
					}
				}
				if base == nil {
					continue
				}
				if !e.derivesFrom(base, recv) {
					// a load of an embedded pointer: non-nil by the constructor invariant (constructor-fresh)
					continue
				}
				nDeref++
				if !e.nonNilAt(base, b, 0) {
					bad = append(bad, e.P.Pos(in.Pos()))
				}
			}
		}
		cons := fname(obj)
		if obj.Exported() {
			if len(bad) > 0 {
				c.Fail("nil-receiver", cons, bad[0], fmt.Sprintf("the receiver is dereferenced without a dominating nil test (%d site(s): %s): calling this method on a nil *%s panics", len(bad), strings.Join(bad, ", "), l.Spec.Name))
			} else {
				c.Ok("nil-receiver", cons, e.P.Pos(obj.Pos()), fmt.Sprintf("%d receiver dereference(s), each dominated by a nil test, a constructor re-assignment or GetError()==nil", nDeref))
			}
			continue
		}
		// unexported: every call site must pass a provably non-nil receiver
		if len(bad) == 0 {
			c.Ok("nil-receiver", cons, e.P.Pos(obj.Pos()), "no unguarded receiver dereference")
			continue
		}
		sites := 0
		okSites := true
		for _, caller := range e.F.Effects().All {
			for _, b := range caller.Blocks {
				for _, in := range b.Instrs {
					call, ok := in.(*ssa.Call)
					if !ok || call.Call.StaticCallee() != fn {
						continue
					}
					sites++
					arg := call.Call.Args[0]
					if e.isEmbeddedLoad(arg, embedded) || e.nonNilAt(arg, b, 0) {
						continue
					}
					// an unexported level method handing on its own receiver: passing it counted as a dereference
					// of the caller above, so the obligation lies with the caller's own call sites
					if co, _ := caller.Object().(*types.Func); co != nil && !co.Exported() && caller.Signature.Recv() != nil && len(caller.Params) > 0 && e.derivesFrom(arg, caller.Params[0]) {
						if cpt, ok := caller.Signature.Recv().Type().(*types.Pointer); ok && levelOf[cpt.Elem()] != nil {
							continue
						}
					}
					okSites = false
					c.Fail("nil-receiver", cons+" called from "+caller.String(), e.P.Pos(call.Pos()), "unexported method dereferences its receiver and is called here with a receiver that is not provably non-nil")
				}
			}
		}
		if okSites {
			c.Ok("nil-receiver", cons, e.P.Pos(obj.Pos()), fmt.Sprintf("unexported; all %d call site(s) pass a non-nil receiver", sites))
		}
	}
}

// derivesFrom: v is the parameter p or a φ with p among its edges.
func (e *Env) derivesFrom(v ssa.Value, p *ssa.Parameter) bool {
	switch x := v.(type) {
	case *ssa.Parameter:
		return x == p
	case *ssa.Phi:
		for _, ed := range x.Edges {
			if ed != ssa.Value(x) && e.derivesFrom(ed, p) {
				return true
			}
		}
	}
	return false
}

func (e *Env) isEmbeddedLoad(v ssa.Value, embedded map[*types.Var]bool) bool {
	u, ok := v.(*ssa.UnOp)
	if !ok || u.Op != token.MUL {
		return false
	}
	fa, ok := u.X.(*ssa.FieldAddr)
	if !ok {
		return false
	}
	st := fa.X.Type().Underlying().(*types.Pointer).Elem().Underlying().(*types.Struct)
	return embedded[st.Field(fa.Field)]
}

// boundsRules: P1.
func (e *Env) boundsRules() {
	c := e.C
	for _, fn := range e.F.Effects().All {
		if fn.Pkg == nil || !isMetricPkg(fn.Pkg.Pkg.Path()) || fn.Synthetic != "" {
			continue
		}
		if !e.reachableFromAPI()[fn] {
			continue // the property speaks of the decoders and the named queries; a new entry point is not one of them
		}
		bld := e.builder(fn)
		for _, b := range fn.Blocks {
			for _, in := range b.Instrs {
				var x, index ssa.Value
				isSlice := false
				switch v := in.(type) {
				case *ssa.IndexAddr:
					x, index = v.X, v.Index
				case *ssa.Index:
					x, index = v.X, v.Index
				case *ssa.Slice:
					x, index = v.X, v.Low
					isSlice = true
					if v.High != nil || v.Max != nil {
						index = nil
					}
				default:
					continue
				}
				// arrays allocated by the compiler for variadic calls
				if al, ok := x.(*ssa.Alloc); ok {
					if _, isArr := al.Type().Underlying().(*types.Pointer).Elem().Underlying().(*types.Array); isArr {
						continue
					}
				}
				cons := fmt.Sprintf("%s %s", fn.String(), clip(bld.Term(in.(ssa.Value)).Pretty()))
				pos := e.P.Pos(in.Pos())
				if isSlice && index == nil {
					if sl, ok := in.(*ssa.Slice); ok && sl.Low == nil && sl.High == nil {
						continue // x[:]
					}
					c.Undecided("bounds", cons, pos, "slice expression with a high bound")
					continue
				}
				xt := bld.Term(x)
				split := isSplitCall(xt) || e.returnsSplit(xt)
				kc, isConst := index.(*ssa.Const)
				if isConst {
					k := kc.Int64()
					switch {
					case split && k == 0 && !isSlice:
						c.Ok("bounds", cons, pos, "element 0 of a strings.Split result (length >= 1)")
						continue
					case split && isSlice && k <= 1:
						c.Ok("bounds", cons, pos, "[1:] of a strings.Split result (length >= 1)")
						continue
					}
					// dominated by len(x) == n, n > k
					okLen := false
					for _, g := range ir.DomConds(bld, b) {
						if g.Op == ir.OBin && g.Str == "==" {
							for i := 0; i < 2; i++ {
								if n, ok := floatConst(g.Args[i]); ok && g.Args[1-i].Key() == lenOf(xt).Key() && float64(k) < n {
									okLen = true
								}
							}
						}
					}
					if okLen {
						c.Ok("bounds", cons, pos, "index below the length established by a dominating len(x) == n")
					} else if ex, isEx := x.(*ssa.Extract); isEx && e.lengthByHelper(bld, b, ex, k) {
						c.Ok("bounds", cons, pos, "index below the length the helper guarantees whenever it returns a nil error, and that error was tested")
					} else if pr, isParam := x.(*ssa.Parameter); isParam && !isSlice && e.lengthByCallers(pr, k, 0) {
						c.Ok("bounds", cons, pos, "index below the length every call site of this unexported helper has established for the argument")
					} else {
						c.Fail("bounds", cons, pos, "constant index not covered by a dominating length test: an input with fewer parts panics here")
					}
					continue
				}
				// loop variable of a loop over all elements (0 <= start <= i < len(x))
				okLoop := false
				if ia, isIA := in.(*ssa.IndexAddr); isIA {
					if lp, _ := analyseIndexLoop(ia); lp != nil && lp.Header.Dominates(b) && b != lp.Header {
						okLoop = true
					}
				}
				if !okLoop && !isSlice {
					// a counting loop over an array (range over an array literal): the bound is the array's length
					var at types.Type = x.Type()
					if p, ok := at.Underlying().(*types.Pointer); ok {
						at = p.Elem()
					}
					if arr, ok := at.Underlying().(*types.Array); ok && constBoundedIndex(index, arr.Len(), b) {
						okLoop = true
					}
				}
				if !okLoop && !isSlice && guardedIndex(e.expandPredicateGuards(ir.DomConds(bld, b)), bld, index, x, xt) {
					c.Ok("bounds", cons, pos, "index between 0 and the length by the dominating comparisons (lo <= i, i < len)")
					continue
				}
				if !okLoop && !isSlice {
					if why := e.predicateGuardedIndex(ir.DomConds(bld, b), bld, index, x); why != "" {
						c.Ok("bounds", cons, pos, why)
						continue
					}
				}
				if okLoop {
					c.Ok("bounds", cons, pos, "range-loop index (0 <= i < len)")
				} else {
					c.Fail("bounds", cons, pos, "index is neither a guarded constant nor a range-loop variable")
				}
			}
		}
	}
}

// noExplicitFailure: P4.
func (e *Env) noExplicitFailure() {
	c := e.C
	n := 0
	for _, fn := range e.F.Effects().All {
		if fn.Pkg == nil || !isMetricPkg(fn.Pkg.Pkg.Path()) || fn.Synthetic != "" {
			continue
		}
		if !e.reachableFromAPI()[fn] {
			continue // e.g. a MustDecode convenience that panics by contract: not a decoder or query of the property
		}
		n++
		for _, b := range fn.Blocks {
			for _, in := range b.Instrs {
				switch x := in.(type) {
				case *ssa.Panic:
					c.Fail("no-explicit-failure", fn.String()+" panic", e.P.Pos(x.Pos()), "explicit panic in a library function")
				case *ssa.TypeAssert:
					if !x.CommaOk {
						c.Ok("no-explicit-failure", fn.String()+" type assertion", e.P.Pos(x.Pos()), "single-value type assertion present: whether its operand always has the asserted type is not decided")
					}
				case *ssa.BinOp:
					if x.Op == token.QUO || x.Op == token.REM {
						if b, ok := x.X.Type().Underlying().(*types.Basic); ok && b.Info()&types.IsInteger != 0 {
							if _, isConst := x.Y.(*ssa.Const); !isConst {
								c.Fail("no-explicit-failure", fn.String()+" integer division", e.P.Pos(x.Pos()), "integer division or modulo by a non-constant can panic")
							} else if isIntConst(x.Y, 0) {
								c.Fail("no-explicit-failure", fn.String()+" integer division", e.P.Pos(x.Pos()), "division by zero")
							}
						}
					}
				case *ssa.Call:
					if callee := x.Call.StaticCallee(); callee == fn {
						c.Fail("no-explicit-failure", fn.String()+" recursion", e.P.Pos(x.Pos()), "direct recursion (unbounded stack on adversarial input)")
					}
				case *ssa.SliceToArrayPointer:
					c.Fail("no-explicit-failure", fn.String()+" slice-to-array conversion", e.P.Pos(x.Pos()), "conversion can panic")
				}
			}
		}
	}
	c.Ok("no-explicit-failure", "metric packages", "", fmt.Sprintf("%d functions of v2/metric and v3/metric: no panic, integer division by a variable, or direct recursion", n))
	e.noNilFuncCalls()
}

// noNilFuncCalls: a call through a function value panics when the value is nil (the element of a table for a key
// that is not there, a field of a row that leaves it out). Every entry point of the metric packages from which a
// call through a function value can be reached is expanded (helpers, function tables, literal rows in place); a
// call whose function is still not a known function on some path is reported: nil on that path, or not decided.
func (e *Env) noNilFuncCalls() {
	c := e.C
	hasDyn := map[*ssa.Function]bool{}
	isDyn := func(in ssa.Instruction) bool {
		call, ok := in.(ssa.CallInstruction)
		if !ok || call.Common().IsInvoke() || call.Common().StaticCallee() != nil {
			return false
		}
		_, isBuiltin := call.Common().Value.(*ssa.Builtin)
		return !isBuiltin
	}
	libFn := func(fn *ssa.Function) bool {
		pk := ir.FuncPackage(fn)
		return pk != nil && (isMetricPkg(pk.Pkg.Path()) || load.IsInternal(pk.Pkg.Path()))
	}
	for _, fn := range e.F.Effects().All {
		if !libFn(fn) {
			continue
		}
		for _, b := range fn.Blocks {
			for _, in := range b.Instrs {
				if isDyn(in) {
					hasDyn[fn] = true
				}
			}
		}
	}
	if len(hasDyn) == 0 {
		c.Ok("no-explicit-failure", "calls through function values", "", "none in the metric packages")
		return
	}
	// entry points: exported functions and methods (and the per-token decoders, which the rules never expand)
	// that reach such a call through the library's own static calls
	var reach func(fn *ssa.Function, seen map[*ssa.Function]bool) bool
	reach = func(fn *ssa.Function, seen map[*ssa.Function]bool) bool {
		if fn == nil || seen[fn] {
			return false
		}
		seen[fn] = true
		if hasDyn[fn] {
			return true
		}
		if o := fn.Origin(); o != nil && o != fn && reach(o, seen) {
			return true
		}
		for _, b := range fn.Blocks {
			for _, in := range b.Instrs {
				if call, ok := in.(ssa.CallInstruction); ok {
					if callee := call.Common().StaticCallee(); callee != nil && libFn(callee) && reach(callee, seen) {
						return true
					}
				}
			}
		}
		return false
	}
	decodeOnes := map[types.Object]bool{}
	for _, v := range []*spec.Version{&spec.V3, &spec.V2} {
		if ls, err := e.F.Levels(v); err == nil {
			for _, l := range ls {
				if l.DecodeOne != nil {
					decodeOnes[l.DecodeOne] = true
				}
			}
		}
	}
	for _, fn := range e.F.Effects().All {
		if fn.Pkg == nil || !isMetricPkg(fn.Pkg.Pkg.Path()) || fn.Synthetic != "" || fn.Parent() != nil || !e.reachableFromAPI()[fn] {
			continue
		}
		obj, _ := fn.Object().(*types.Func)
		if obj == nil || !(obj.Exported() || decodeOnes[obj]) {
			continue
		}
		if !reach(fn, map[*ssa.Function]bool{}) {
			continue
		}
		who := load.FuncName(obj)
		leaves, err := ir.Leaves(fn, ir.LeafOptions{Forward: true, Effects: true, MaxPaths: 20000, Inline: e.inlineHelpers()})
		if err != nil {
			leaves, err = ir.Leaves(fn, ir.LeafOptions{Forward: true, Effects: true, MaxPaths: 20000, Inline: e.inlineHelpers(), CutLoops: true})
		}
		if err != nil {
			c.Undecided("no-explicit-failure", who+" calls through function values", e.P.Pos(fn.Pos()), err.Error())
			continue
		}
		bad := 0
		for _, lf := range leaves {
			for _, ef := range lf.Effects {
				if ef.Kind != "call" || ef.Val == nil || ef.Val.Op != "dyncall" || len(ef.Val.Args) == 0 {
					continue
				}
				bad++
				f := ef.Val.Args[0]
				if f.Op == ir.OConst && f.C == nil {
					c.Fail("no-explicit-failure", who+" call of a nil function", e.P.Pos(ef.Pos), "on a path the function value called is nil (an element that is not in the table): run-time panic | path: "+clip(lf.String()))
				} else {
					c.Undecided("no-explicit-failure", who+" call through a function value", e.P.Pos(ef.Pos), "the function value is not a known function on this path (it may be nil): "+clip(f.Pretty()))
				}
			}
		}
		if bad == 0 {
			c.Ok("no-explicit-failure", who+" calls through function values", e.P.Pos(fn.Pos()), "every call through a function value reaches a known function on every path")
		}
	}
}

// ---------------------------------------------------------------------------

func c14(e *Env) {
	c := e.C
	c.Explanation = "Temporal embeds *Base and Environmental embeds *Temporal anonymously (both versions), so the lower-level Score/Severity/Encode obtained through a higher-level object are the lower level's own methods on the embedded object; BaseMetrics()/TemporalMetrics() return exactly that embedded field of the receiver (or the receiver itself for v3 (*Base)); every higher-level decodeOne hands the unmodified token to the embedded level's decodeOne first and stops when it accepted (so the embedded object's state is what the lower-level decoder computes for the projected vector); fields and names declared at level L are written only by L's decodeOne and constructor (Ver: by the three v3 Decodes, from GetVersion's result); the higher-level Score functions reach the lower level through the embedded object (term comparison of C02/C04/C05)."
	c.Trusted = []string{"go/types + go/ssa", "Go method promotion through embedded pointers"}
	for _, v := range []*spec.Version{&spec.V3, &spec.V2} {
		ls, _ := e.decoderAnalysis(v)
		e.accessorRules(v, ls)
		e.writeOwnership(v, ls)
		for _, l := range ls {
			e.constructorFresh(l, "constructor-fresh")
		}
		k := e.newScoreKit(v, "lower-through-embedding")
		if k != nil {
			e.guardPanics("lower-through-embedding", v.Name, func() {
				e.lowerThroughEmbedding(k)
				e.viewObligations(k, "embedding")
			})
		}
	}
	// "equal those of a base decoder applied to the vector's base metrics alone" compares two decodes: each must be
	// a function of the text (no map-order dependent look-up)
	e.determinism("determinism", false)
	e.keepRules("struct-layout", "embedding", "accessor-identity", "delegation-first", "write-ownership", "version-recorded", "constructor-fresh", "lower-through-embedding", "determinism")
	c.Floor("lower-through-embedding", 20)
	c.Floor("embedding", 4)
	c.Floor("accessor-identity", 7)
	c.Floor("delegation-first", 4)
	c.Floor("write-ownership", 36)
}

// accessorRules: BaseMetrics / TemporalMetrics return the embedded objects; lower-level queries are promoted, not redefined.
func (e *Env) accessorRules(v *spec.Version, ls []*facts.Level) {
	c := e.C
	for _, l := range ls {
		for _, acc := range []string{"BaseMetrics", "TemporalMetrics"} {
			m := l.Method(acc)
			if m == nil {
				// promoted from the embedded level: the lower level's own accessor on the embedded object (checked there)
				if obj, idx, _ := types.LookupFieldOrMethod(l.Ptr(), true, l.Pkg.Types, acc); obj != nil && len(idx) > 1 {
					c.Ok("accessor-identity", l.String()+"."+acc+" (promoted)", e.P.Pos(l.Named.Obj().Pos()), "the embedded level's accessor on the embedded object")
				}
				continue
			}
			// target level
			var target *facts.Level
			for lv := l; lv != nil; lv = lv.Lower {
				if lv.Spec.Name+"Metrics" == acc {
					target = lv
				}
			}
			if target == nil {
				c.Fail("accessor-identity", fname(m), e.P.Pos(m.Pos()), "accessor names a level this type does not contain")
				continue
			}
			want := ir.Param(0)
			for lv := l; lv != target; lv = lv.Lower {
				want = ir.Field(want, lv.Embedded)
			}
			leaves, err := ir.Leaves(e.P.SSAFunc(m), ir.LeafOptions{Forward: true})
			if err != nil {
				c.Undecided("accessor-identity", fname(m), e.P.Pos(m.Pos()), err.Error())
				continue
			}
			ok := true
			for _, lf := range leaves {
				r := lf.Ret[0]
				if isNilConst(r) && hasGuard(lf, ir.Bin("==", ir.Param(0), nilOf(l.Ptr()))) {
					continue
				}
				if r.Key() != want.Key() {
					ok = false
					c.Fail("accessor-identity", fname(m), e.P.Pos(lf.Pos), "returns "+clip(r.Pretty())+" instead of the embedded object "+want.Pretty())
				}
			}
			if ok {
				c.Ok("accessor-identity", fname(m), e.P.Pos(m.Pos()), "returns "+want.Pretty()+" (nil for a nil receiver)")
			}
		}
		// a higher level must not redefine lower-level-only API under the lower level's name in a way that changes dispatch:
		// Score/Severity/Encode/String/GetError are (deliberately) redefined per level; anything else promoted.
	}
}

// writeOwnership: fields declared at level L are written only by L's decodeOne and constructor.
func (e *Env) writeOwnership(v *spec.Version, ls []*facts.Level) {
	c := e.C
	owner := map[*types.Var]*facts.Level{}
	for _, l := range ls {
		// every field declared in the level's struct, including ones the specification does not know
		// (a cached score, a scratch value): whatever a level keeps is its own decoder's business
		for i := 0; i < l.Struct.NumFields(); i++ {
			if f := l.Struct.Field(i); !f.Embedded() {
				owner[f] = l
			}
		}
	}
	writers := map[*types.Var]map[string]bool{}
	for _, fn := range e.F.Effects().All {
		if fn.Synthetic != "" {
			continue
		}
		for _, b := range fn.Blocks {
			for _, in := range b.Instrs {
				// the outermost field of a level's struct that the written location lies in (m.last.of -> last)
				ownedField := func(addr ssa.Value) *types.Var {
					for {
						switch a := addr.(type) {
						case *ssa.FieldAddr:
							f := a.X.Type().Underlying().(*types.Pointer).Elem().Underlying().(*types.Struct).Field(a.Field)
							if owner[f] != nil {
								return f
							}
							addr = a.X
						case *ssa.IndexAddr:
							addr = a.X
						default:
							return nil
						}
					}
				}
				var fv *types.Var
				switch x := in.(type) {
				case *ssa.Store:
					fv = ownedField(x.Addr)
				case *ssa.MapUpdate:
					if u, ok := x.Map.(*ssa.UnOp); ok {
						fv = ownedField(u.X)
					}
				}
				l := owner[fv]
				if l == nil {
					continue
				}
				// a store into an object the function has just allocated itself (a Clone, a copy built for a
				// computation) does not touch any object a decoder filled; a store through a reference loaded out
				// of such a copy (copy.Base.S = ...) is traced back to what the reference points to and stays
				var target ssa.Value
				switch x := in.(type) {
				case *ssa.Store:
					target = x.Addr
				case *ssa.MapUpdate:
					target = x.Map
				}
				if target != nil {
					rs := e.F.Effects().Roots(target)
					allLocal := len(rs) > 0
					for _, r := range rs {
						if r.Kind != facts.RLocal {
							allLocal = false
						}
					}
					if allLocal && fn.Object() != types.Object(e.P.LookupFunc(v.Pkg, "New"+l.Spec.Name)) {
						continue
					}
				}
				if writers[fv] == nil {
					writers[fv] = map[string]bool{}
				}
				writers[fv][fn.String()] = true
				obj, _ := fn.Object().(*types.Func)
				okWriter := obj != nil && (obj == l.DecodeOne || obj == e.P.LookupFunc(v.Pkg, "New"+l.Spec.Name))
				if fv == l.VerField && obj != nil && obj.Name() == "Decode" {
					okWriter = true // checked by version-recorded
				}
				if fv == l.VerField && !okWriter && (obj != nil || fn.Parent() != nil || fn.Origin() != nil) {
					// a helper that runs only for the Decode methods (one shared decode procedure) records the version
					// in their name; what it records is checked where Decode is analysed (version-recorded)
					okWriter = e.privateTo(fn, func(c *ssa.Function) bool {
						co, _ := c.Object().(*types.Func)
						return co != nil && co.Name() == "Decode" && c.Signature.Recv() != nil && isMetricPkg(co.Pkg().Path())
					})
				}
				if !okWriter && (obj != nil || fn.Parent() != nil) {
					// a helper that runs only on behalf of this level's decodeOne/constructor writes in their name
					ctor := e.P.LookupFunc(v.Pkg, "New"+l.Spec.Name)
					okWriter = e.privateTo(fn, func(c *ssa.Function) bool {
						co, _ := c.Object().(*types.Func)
						return co != nil && (co == l.DecodeOne || (ctor != nil && co == ctor))
					})
				}
				if !okWriter {
					c.Fail("write-ownership", fmt.Sprintf("%s writes %s.%s", fn.String(), l.Spec.Name, fv.Name()), e.P.Pos(in.Pos()), "a field of level "+l.Spec.Name+" is written outside that level's decodeOne/constructor: views of the same vector can disagree")
				}
			}
		}
	}
	for _, l := range ls {
		fs := append([]*types.Var{}, l.Metrics...)
		if l.Names != nil {
			fs = append(fs, l.Names)
		}
		if l.VerField != nil {
			fs = append(fs, l.VerField)
		}
		for _, f := range fs {
			c.Ok("write-ownership", l.String()+"."+f.Name(), e.P.Pos(f.Pos()), "written only by "+strings.Join(sortedKeys(writers[f]), ", "))
		}
	}
}

func isMetricPkg(path string) bool {
	return path == load.ModPath+"/v3/metric" || path == load.ModPath+"/v2/metric"
}

// lowerThroughEmbedding: whenever a query of a higher level calls a method of a
// lower level, the receiver is the embedded object reached from the query's own
// receiver - never another object of that type.
func (e *Env) lowerThroughEmbedding(k *scoreKit) {
	c := e.C
	levelOfRecv := map[types.Type]*facts.Level{}
	for _, l := range k.levels {
		levelOfRecv[l.Named] = l
	}
	for _, l := range k.levels {
		if l.Lower == nil {
			continue
		}
		for _, name := range []string{"GetError", "Encode", "String", "Score", "Severity", "IsEmpty", "BaseMetrics", "TemporalMetrics"} {
			m := l.Method(name)
			if m == nil {
				continue
			}
			leaves, err := ir.Leaves(e.P.SSAFunc(m), ir.LeafOptions{Forward: true, Effects: true, MaxPaths: 20000, Inline: e.inlineHelpers()})
			if err != nil {
				c.Undecided("lower-through-embedding", fname(m), e.P.Pos(m.Pos()), err.Error())
				continue
			}
			ok := true
			n := 0
			seen := map[string]bool{}
			check := func(x *ir.Term) bool {
				if x.Op != ir.OCall || len(x.Args) == 0 {
					return true
				}
				fn, _ := x.Obj.(*types.Func)
				if fn == nil {
					return true
				}
				recv := fn.Type().(*types.Signature).Recv()
				if recv == nil {
					return true
				}
				pt, isPtr := recv.Type().(*types.Pointer)
				if !isPtr {
					return true
				}
				tl := levelOfRecv[pt.Elem()]
				if tl == nil || seen[x.Key()] {
					return true
				}
				seen[x.Key()] = true
				n++
				// acceptable receivers: the path of embedded fields from p0 down to tl
				want := ir.Param(0)
				for lv := l; lv != tl && lv != nil; lv = lv.Lower {
					want = ir.Field(want, lv.Embedded)
				}
				if x.Args[0].Key() != want.Key() {
					ok = false
					c.Fail("lower-through-embedding", fname(m)+" calls "+fn.Name(), e.P.Pos(x.Pos), "a "+tl.Spec.Name+"-level method is called on "+clip(x.Args[0].Pretty())+", not on the object embedded in the receiver ("+want.Pretty()+")")
				}
				return true
			}
			for _, lf := range leaves {
				for _, t := range append(append([]*ir.Term{}, lf.Guards...), lf.Ret...) {
					ir.Walk(t, check)
				}
				for _, ef := range lf.Effects {
					if ef.Val != nil {
						ir.Walk(ef.Val, check)
					}
				}
			}
			if ok {
				c.Ok("lower-through-embedding", fname(m), e.P.Pos(m.Pos()), fmt.Sprintf("%d call(s) of level methods, each on the receiver or its embedded object", n))
			}
		}
	}
}

// plainError: errors.New(...) or fmt.Errorf with a constant format that has no %w verb: an error value that wraps
// nothing, hence matches no sentinel.
func plainError(call *ssa.Call) bool {
	callee := call.Call.StaticCallee()
	if callee == nil {
		return false
	}
	switch callee.String() {
	case "errors.New":
		return true
	case "fmt.Errorf":
		if len(call.Call.Args) == 0 {
			return false
		}
		k, ok := call.Call.Args[0].(*ssa.Const)
		return ok && k.Value != nil && k.Value.Kind() == constant.String && !strings.Contains(constant.StringVal(k.Value), "%w")
	}
	return false
}

// noSentinelValue: the error value cannot match a cvsserr sentinel: a plain error built in place, or an error
// returned by the standard library's strconv (possibly through a φ of such values).
func noSentinelValue(v ssa.Value) bool {
	switch x := v.(type) {
	case *ssa.Call:
		if plainError(x) {
			return true
		}
	case *ssa.Extract:
		if call, ok := x.Tuple.(*ssa.Call); ok && call.Call.StaticCallee() != nil && call.Call.StaticCallee().Pkg != nil {
			return call.Call.StaticCallee().Pkg.Pkg.Path() == "strconv"
		}
	case *ssa.MakeInterface:
		return noSentinelValue(x.X)
	case *ssa.ChangeInterface:
		return noSentinelValue(x.X)
	case *ssa.Phi:
		for _, ed := range x.Edges {
			if ed == ssa.Value(x) {
				continue
			}
			if _, isPhi := ed.(*ssa.Phi); isPhi || !noSentinelValue(ed) {
				return false
			}
		}
		return len(x.Edges) > 0
	}
	return false
}

// onlyUsedAsCause: every use of the call's value is as the argument of errs.WithCause.
func onlyUsedAsCause(call *ssa.Call) bool {
	refs := call.Referrers()
	if refs == nil || len(*refs) == 0 {
		return false
	}
	var ok func(v ssa.Value, depth int) bool
	ok = func(v ssa.Value, depth int) bool {
		rs := v.Referrers()
		if rs == nil || depth > 3 {
			return false
		}
		for _, r := range *rs {
			switch u := r.(type) {
			case *ssa.DebugRef:
			case *ssa.Call:
				callee := u.Call.StaticCallee()
				if callee == nil || callee.String() != "github.com/goark/errs.WithCause" {
					return false
				}
			case *ssa.MakeInterface:
				if !ok(u, depth+1) {
					return false
				}
			case *ssa.Phi:
				if !ok(u, depth+1) {
					return false
				}
			default:
				return false
			}
		}
		return true
	}
	return ok(call, 0)
}

// wrapOptionsOK: every element that can end up in the option slice v is a call of errs.WithContext or of
// errs.WithCause with a cause that is free of sentinels.
func wrapOptionsOK(v ssa.Value, depth int) bool {
	if depth > 8 {
		return false
	}
	elemOK := func(e ssa.Value) bool {
		call, ok := e.(*ssa.Call)
		if !ok || call.Call.StaticCallee() == nil {
			return false
		}
		switch call.Call.StaticCallee().String() {
		case "github.com/goark/errs.WithContext":
			return true
		case "github.com/goark/errs.WithCause":
			return len(call.Call.Args) == 1 && noSentinelValue(call.Call.Args[0])
		}
		return false
	}
	switch x := v.(type) {
	case *ssa.Const:
		return x.Value == nil
	case *ssa.Phi:
		for _, ed := range x.Edges {
			if ed == ssa.Value(x) {
				continue
			}
			if !wrapOptionsOK(ed, depth+1) {
				return false
			}
		}
		return true
	case *ssa.Slice:
		al, ok := x.X.(*ssa.Alloc)
		if !ok || al.Referrers() == nil {
			return false
		}
		for _, r := range *al.Referrers() {
			switch ia := r.(type) {
			case *ssa.IndexAddr:
				if ia.Referrers() == nil {
					return false
				}
				for _, rr := range *ia.Referrers() {
					st, ok := rr.(*ssa.Store)
					if !ok || st.Addr != ssa.Value(ia) || !elemOK(st.Val) {
						return false
					}
				}
			case *ssa.Slice, *ssa.DebugRef:
			default:
				return false
			}
		}
		return true
	case *ssa.Call:
		if bi, ok := x.Call.Value.(*ssa.Builtin); ok && bi.Name() == "append" && len(x.Call.Args) == 2 {
			return wrapOptionsOK(x.Call.Args[0], depth+1) && wrapOptionsOK(x.Call.Args[1], depth+1)
		}
	case *ssa.MakeSlice:
		// elements must only ever be added through append (no store through an index of this value)
		if x.Referrers() == nil {
			return false
		}
		for _, r := range *x.Referrers() {
			if _, isIdx := r.(*ssa.IndexAddr); isIdx {
				return false
			}
		}
		return true
	}
	return false
}

// guardedIndex: the conditions that dominate the access bound the index from both sides: it is not
// negative (by its type, by construction, or by a comparison with a constant) and it is below the length of
// the indexed array or slice (a comparison with len(x), or with a constant not above an array's length).
func guardedIndex(conds []*ir.Term, bld *ir.Builder, index, x ssa.Value, xt *ir.Term) bool {
	it := bld.Term(index)
	arrLen := int64(-1)
	var at types.Type = x.Type()
	if p, ok := at.Underlying().(*types.Pointer); ok {
		at = p.Elem()
	}
	if arr, ok := at.Underlying().(*types.Array); ok {
		arrLen = arr.Len()
	}
	lower := nonNegative(index, 0)
	upper := false
	lenKey := lenOf(xt).Key()
	for _, g := range conds {
		if g.Op != ir.OBin || (g.Str != "<" && g.Str != "<=") || len(g.Args) != 2 {
			continue
		}
		a, b := g.Args[0], g.Args[1]
		strict := g.Str == "<"
		if b.Key() == it.Key() {
			if n, ok := floatConst(a); ok && ((strict && n >= -1) || (!strict && n >= 0)) {
				lower = true
			}
		}
		if a.Key() == it.Key() {
			if n, ok := floatConst(b); ok {
				if arrLen >= 0 && ((strict && n <= float64(arrLen)) || (!strict && n < float64(arrLen))) {
					upper = true
				}
			} else if strict && b.Key() == lenKey {
				upper = true
			}
		}
	}
	return lower && upper
}

// predicateGuardedIndex: the access to an array is dominated by a predicate of the library applied to the index
// (if v.IsValid() { return table[v] }) whose summary, evaluated over the whole domain of the index's type - the
// declared constants, the numbers just outside them and "any other number" -, is true only for values inside
// the array. Returns the reason, or "".
func (e *Env) predicateGuardedIndex(conds []*ir.Term, bld *ir.Builder, index, x ssa.Value) string {
	var at types.Type = x.Type()
	if p, ok := at.Underlying().(*types.Pointer); ok {
		at = p.Elem()
	}
	arr, ok := at.Underlying().(*types.Array)
	if !ok {
		return ""
	}
	T := index.Type()
	if ct, ok := index.(*ssa.ChangeType); ok {
		T = ct.X.Type()
	}
	if cv, ok := index.(*ssa.Convert); ok {
		T = cv.X.Type()
	}
	if e.F.EnumOf(T) == nil {
		return ""
	}
	it := bld.Term(index)
	for _, g := range conds {
		if g.Op != ir.OCall || len(g.Args) != 1 || g.Args[0].Key() != it.Key() {
			continue
		}
		fn, _ := g.Obj.(*types.Func)
		if fn == nil || fn.Pkg() == nil || !load.IsLib(fn.Pkg().Path()) {
			continue
		}
		okAll := true
		for _, v := range e.F.Domain(T) {
			r := e.F.Eval(fn, v)
			if r.Kind != facts.VConst || r.C == nil || r.C.Kind() != constant.Bool {
				okAll = false
				break
			}
			if !constant.BoolVal(r.C) {
				continue
			}
			if (v.Kind != facts.VConst && v.Kind != facts.VOther) || v.C == nil || v.C.Kind() != constant.Int {
				okAll = false // true for "any other number"
				break
			}
			n, exact := constant.Int64Val(v.C)
			if !exact || n < 0 || n >= arr.Len() {
				okAll = false
				break
			}
		}
		if okAll {
			return fmt.Sprintf("index guarded by %s, which holds only for values inside the array (evaluated over the domain of %s)", fname(fn), types.TypeString(T, nil))
		}
	}
	return ""
}

// nonNegative: the integer value cannot be negative: unsigned type, a length, a constant, or a loop counter
// that starts at such a value and only grows by a positive constant.
func nonNegative(v ssa.Value, depth int) bool {
	if depth > 4 {
		return false
	}
	if b, ok := v.Type().Underlying().(*types.Basic); ok && b.Info()&types.IsUnsigned != 0 {
		return true
	}
	switch x := v.(type) {
	case *ssa.Const:
		return x.Value != nil && x.Value.Kind() == constant.Int && constant.Sign(x.Value) >= 0
	case *ssa.ChangeType:
		return nonNegative(x.X, depth+1)
	case *ssa.Call:
		if bi, ok := x.Call.Value.(*ssa.Builtin); ok && (bi.Name() == "len" || bi.Name() == "cap") {
			return true
		}
	case *ssa.Phi:
		for _, ed := range x.Edges {
			if inc, ok := ed.(*ssa.BinOp); ok && inc.Op == token.ADD {
				base := inc.X
				if ct, ok := base.(*ssa.ChangeType); ok {
					base = ct.X
				}
				if k, isC := inc.Y.(*ssa.Const); isC && base == ssa.Value(x) && k.Value != nil && constant.Sign(k.Value) > 0 {
					continue // the counter itself plus a positive step (overflow is excluded by the upper guard the caller requires)
				}
			}
			if _, isPhi := ed.(*ssa.Phi); isPhi || !nonNegative(ed, depth+1) {
				return false
			}
		}
		return true
	}
	return false
}

// isSplitCall: strings.Split(x, sep) with a non-empty constant separator (at least one element).
func isSplitCall(xt *ir.Term) bool {
	return isCallOf(xt, "strings.Split") && len(xt.Args) == 2 && xt.Args[1].Op == ir.OConst && xt.Args[1].C != nil && !isStringConst(xt.Args[1], "")
}

// returnsSplit: xt is the call of a library helper with one result that is, on every path, such a strings.Split.
func (e *Env) returnsSplit(xt *ir.Term) bool {
	fn, _ := xt.Obj.(*types.Func)
	if xt.Op != ir.OCall || fn == nil || fn.Pkg() == nil || !load.IsLib(fn.Pkg().Path()) {
		return false
	}
	sf := e.P.SSAFunc(fn)
	if sf == nil || len(sf.Blocks) == 0 || sf.Signature.Results().Len() != 1 {
		return false
	}
	leaves, err := ir.Leaves(sf, ir.LeafOptions{Inline: e.inlineHelpers()})
	if err != nil || len(leaves) == 0 {
		return false
	}
	for _, lf := range leaves {
		if len(lf.Ret) != 1 || !isSplitCall(lf.Ret[0]) {
			return false
		}
	}
	return true
}

// lengthByHelper: x is result #i of a call of a module function that also returns an error; the access is
// dominated by the test that this error is nil, and on every path of the helper that may return a nil error
// the helper has established len(result #i) == n with n > k.
func (e *Env) lengthByHelper(bld *ir.Builder, b *ssa.BasicBlock, ex *ssa.Extract, k int64) bool {
	call, ok := ex.Tuple.(*ssa.Call)
	if !ok {
		return false
	}
	callee := call.Call.StaticCallee()
	if callee == nil || callee.Pkg == nil || !load.IsLib(callee.Pkg.Pkg.Path()) || len(callee.Blocks) == 0 {
		return false
	}
	res := callee.Signature.Results()
	ei := res.Len() - 1
	if ei < 1 || ei == ex.Index || !types.Identical(res.At(ei).Type(), errorType) {
		return false
	}
	var errEx *ssa.Extract
	for _, r := range *call.Referrers() {
		if x, ok := r.(*ssa.Extract); ok && x.Index == ei {
			errEx = x
		}
	}
	if errEx == nil || !ir.HasCond(ir.DomConds(bld, b), ir.Bin("==", bld.Term(errEx), nilOf(errorType))) {
		return false
	}
	leaves, err := ir.Leaves(callee, ir.LeafOptions{Inline: e.inlineHelpers()})
	if err != nil || len(leaves) == 0 {
		return false
	}
	for _, lf := range leaves {
		if len(lf.Ret) != res.Len() {
			return false
		}
		if nonNilErrTerm(lf, lf.Ret[ei]) {
			continue
		}
		established := false
		if n, ok := ir.ConstLen(lf.Ret[ex.Index]); ok && n > k {
			established = true
		}
		lk := lenOf(lf.Ret[ex.Index]).Key()
		for _, g := range lf.Guards {
			if g.Op == ir.OBin && g.Str == "==" {
				for i := 0; i < 2; i++ {
					if n, ok := floatConst(g.Args[i]); ok && g.Args[1-i].Key() == lk && float64(k) < n {
						established = true
					}
				}
			}
		}
		if !established {
			return false
		}
	}
	return true
}

// lenAbove: at block b the slice value x is known to have more than k elements.
func (e *Env) lenAbove(bld *ir.Builder, b *ssa.BasicBlock, x ssa.Value, k int64, depth int) bool {
	xt := bld.Term(x)
	for _, g := range ir.DomConds(bld, b) {
		if g.Op == ir.OBin && g.Str == "==" {
			for i := 0; i < 2; i++ {
				if n, ok := floatConst(g.Args[i]); ok && g.Args[1-i].Key() == lenOf(xt).Key() && float64(k) < n {
					return true
				}
			}
		}
	}
	switch v := x.(type) {
	case *ssa.Extract:
		return e.lengthByHelper(bld, b, v, k)
	case *ssa.Parameter:
		return e.lengthByCallers(v, k, depth+1)
	case *ssa.UnOp:
		// a package-level slice that is set once, by a literal, in the package initialiser
		if g, ok := v.X.(*ssa.Global); ok && v.Op == token.MUL {
			n, ok := ir.GlobalSliceLen(g)
			return ok && n > k
		}
	}
	return false
}

// lengthByCallers: the parameter of an unexported function that is only called directly, and at every call
// site the argument is known to have more than k elements.
func (e *Env) lengthByCallers(p *ssa.Parameter, k int64, depth int) bool {
	fn := p.Parent()
	if depth > 3 || fn == nil || fn.Object() == nil || fn.Object().Exported() {
		return false
	}
	ci := e.callersOf(fn)
	if ci == nil || ci.AsValue || len(ci.Callers) == 0 {
		return false
	}
	idx := -1
	for i, q := range fn.Params {
		if q == p {
			idx = i
		}
	}
	sites := 0
	for _, caller := range ci.Callers {
		cb := e.builder(caller)
		for _, b := range caller.Blocks {
			for _, in := range b.Instrs {
				call, ok := in.(ssa.CallInstruction)
				if !ok || call.Common().StaticCallee() != fn {
					continue
				}
				if _, isCall := in.(*ssa.Call); !isCall || idx < 0 || idx >= len(call.Common().Args) {
					return false
				}
				sites++
				if !e.lenAbove(cb, b, call.Common().Args[idx], k, depth) {
					return false
				}
			}
		}
	}
	return sites > 0
}

// expandPredicateGuards: a dominating condition that is the call of a boolean helper of the library
// (if !t.has(n) { return undef }; return t[n]) holds only on the helper's paths that can return true; when there
// is exactly one such path, its branch conditions and the comparison it returns hold at the access too, with the
// helper's parameters replaced by the arguments of the call. The conditions are added to the list.
func (e *Env) expandPredicateGuards(conds []*ir.Term) []*ir.Term {
	out := append([]*ir.Term{}, conds...)
	for _, g := range conds {
		fn, _ := g.Obj.(*types.Func)
		if g.Op != ir.OCall || fn == nil || fn.Pkg() == nil || !load.IsLib(fn.Pkg().Path()) {
			continue
		}
		sf := e.P.SSAFunc(fn)
		if sf == nil || len(sf.Blocks) == 0 || len(sf.Params) != len(g.Args) || sf.Signature.Results().Len() != 1 {
			continue
		}
		if bt, ok := sf.Signature.Results().At(0).Type().Underlying().(*types.Basic); !ok || bt.Kind() != types.Bool {
			continue
		}
		leaves, err := ir.Leaves(sf, ir.LeafOptions{Inline: e.inlineHelpers()})
		if err != nil || len(leaves) == 0 {
			continue
		}
		var truthy []*ir.Leaf
		bad := false
		for _, lf := range leaves {
			if len(lf.Ret) != 1 {
				bad = true
				break
			}
			if r := lf.Ret[0]; r.Op == ir.OConst && r.C != nil && r.C.Kind() == constant.Bool && !constant.BoolVal(r.C) {
				continue
			}
			truthy = append(truthy, lf)
		}
		if bad || len(truthy) != 1 {
			continue
		}
		lf := truthy[0]
		for _, lg := range lf.Guards {
			out = append(out, ir.Subst(lg, g.Args))
		}
		if r := lf.Ret[0]; r.Op != ir.OConst {
			out = append(out, ir.Subst(r, g.Args))
		}
	}
	return out
}
