package rules

import (
	"cvsslint/internal/report"
	"fmt"
	"go/constant"
	"go/types"
	"strings"

	"cvsslint/internal/facts"
	"cvsslint/internal/ir"
	"cvsslint/internal/load"
	"cvsslint/internal/spec"

	"golang.org/x/tools/go/ssa"
)

// scoreKit resolves the objects the reference equations are phrased in and
// extracts guarded leaves of scoring functions.
type scoreKit struct {
	e      *Env
	ver    *spec.Version
	levels []*facts.Level // Base, Temporal, Environmental
	pkg    *types.Package
	mathFn map[string]*types.Func
	round  map[string]*types.Func // "roundUp", "round1", "round2"
	cache  map[string][]*ir.Leaf

	scoreFns []*types.Func
}

func (e *Env) newScoreKit(v *spec.Version, rule string) *scoreKit {
	ls, err := e.F.Levels(v)
	if err != nil {
		e.C.Undecided(rule, v.Pkg, "", err.Error())
		return nil
	}
	k := &scoreKit{e: e, ver: v, levels: ls, pkg: ls[0].Pkg.Types, mathFn: map[string]*types.Func{}, round: map[string]*types.Func{}, cache: map[string][]*ir.Leaf{}}
	for _, imp := range k.pkg.Imports() {
		if imp.Path() == "math" {
			for _, n := range []string{"Min", "Max", "Pow", "Round", "Floor", "Ceil", "Trunc"} {
				if f, ok := imp.Scope().Lookup(n).(*types.Func); ok {
					k.mathFn[n] = f
				}
			}
		}
	}
	k.classifyRounders(rule)
	return k
}

func (k *scoreKit) level(name string) *facts.Level {
	for _, l := range k.levels {
		if l.Spec.Name == name {
			return l
		}
	}
	return nil
}

// classifyRounders finds the package's func(float64) float64 helpers and
// classifies them by shape: round-to-k-decimals (math.Round(x*10^k)/10^k) or
// the v3 round-up helper.
func (k *scoreKit) classifyRounders(rule string) {
	// the package's own helpers first, then those of the module's internal packages it imports (shared arithmetic)
	var cands []*types.Func
	scopes := []*types.Scope{k.pkg.Scope()}
	for _, imp := range k.pkg.Imports() {
		if load.IsInternal(imp.Path()) {
			scopes = append(scopes, imp.Scope())
		}
	}
	for _, sc := range scopes {
		for _, n := range sc.Names() {
			if fn, ok := sc.Lookup(n).(*types.Func); ok {
				cands = append(cands, fn)
			}
		}
	}
	for _, fn := range cands {
		sig := fn.Type().(*types.Signature)
		if sig.Recv() != nil || sig.Params().Len() != 1 || sig.Results().Len() != 1 {
			continue
		}
		if !isFloat64(sig.Params().At(0).Type()) || !isFloat64(sig.Results().At(0).Type()) {
			continue
		}
		sf := k.e.P.SSAFunc(fn)
		if sf == nil {
			continue
		}
		leaves, err := ir.Leaves(sf, ir.LeafOptions{})
		if err != nil {
			continue
		}
		if len(leaves) == 1 && len(leaves[0].Ret) == 1 {
			if kk, ok := roundKShape(leaves[0].Ret[0], k.mathFn["Round"]); ok {
				k.round[fmt.Sprintf("round%d", kk)] = fn
				continue
			}
		}
		// the v3 helper: uses math.Floor and returns on two paths
		usesFloor := false
		for _, lf := range leaves {
			for _, r := range lf.Ret {
				ir.Walk(r, func(t *ir.Term) bool {
					if t.Op == ir.OCall && t.Obj == types.Object(k.mathFn["Floor"]) {
						usesFloor = true
					}
					return true
				})
			}
		}
		if usesFloor || fn.Name() == "roundUp" {
			if prev := k.round["roundUp"]; prev != nil && prev != fn {
				k.e.C.Undecided(rule, k.ver.Pkg, k.e.P.Pos(fn.Pos()), "more than one round-up shaped helper: "+prev.Name()+" and "+fn.Name())
			}
			k.round["roundUp"] = fn
		}
	}
}

func isFloat64(t types.Type) bool {
	b, ok := t.Underlying().(*types.Basic)
	return ok && b.Kind() == types.Float64
}

// roundKShape recognises  math.Round(p0*10^k)/10^k .
func roundKShape(t *ir.Term, round *types.Func) (int, bool) {
	if t.Op != ir.OBin || t.Str != "/" {
		return 0, false
	}
	den, ok := floatConst(t.Args[1])
	if !ok {
		return 0, false
	}
	kk := 0
	switch den {
	case 10:
		kk = 1
	case 100:
		kk = 2
	case 1000:
		kk = 3
	default:
		return 0, false
	}
	c := t.Args[0]
	if c.Op != ir.OCall || c.Obj != types.Object(round) || len(c.Args) != 1 {
		return 0, false
	}
	p := c.Args[0]
	if p.Op != ir.OProd || len(p.Args) != 2 {
		return 0, false
	}
	var other *ir.Term
	var mul float64
	for i, a := range p.Args {
		if f, ok := floatConst(a); ok {
			mul = f
			other = p.Args[1-i]
		}
	}
	if other == nil || other.Op != ir.OParam || other.N != 0 || mul != den {
		return 0, false
	}
	return kk, true
}

func floatConst(t *ir.Term) (float64, bool) {
	if t.Op != ir.OConst || t.C == nil {
		return 0, false
	}
	if t.C.Kind() != constant.Float && t.C.Kind() != constant.Int {
		return 0, false
	}
	f, _ := constant.Float64Val(t.C)
	return f, true
}

// ---- term constructors for the reference side --------------------------------

// obj returns the term of the level object `to` as seen from a receiver of level `from`.
func (k *scoreKit) obj(from, to *facts.Level) *ir.Term {
	t := ir.Param(0)
	l := from
	for l != to {
		if l.Embedded == nil || l.Lower == nil {
			panic("no embedding path from " + from.String() + " to " + to.String())
		}
		t = ir.Field(t, l.Embedded)
		l = l.Lower
	}
	return t
}

// fld returns the term of metric field `name` as seen from level `from`.
func (k *scoreKit) fld(from *facts.Level, name string) *ir.Term {
	for l := from; l != nil; l = l.Lower {
		if f := l.ByName[name]; f != nil {
			return ir.Field(k.obj(from, l), f)
		}
		if name == "Ver" && l.VerField != nil {
			return ir.Field(k.obj(from, l), l.VerField)
		}
	}
	panic("no field " + name + " reachable from " + from.String())
}

func (k *scoreKit) fieldType(from *facts.Level, name string) types.Type {
	for l := from; l != nil; l = l.Lower {
		if f := l.ByName[name]; f != nil {
			return f.Type()
		}
	}
	return nil
}

// w is the weight term  recv.<name>.Value(recv.<args>...) .
func (k *scoreKit) w(from *facts.Level, name string, args ...string) *ir.Term {
	T := k.fieldType(from, name)
	m := load.MethodOf(T, "Value")
	if m == nil {
		panic("type of " + name + " has no Value method")
	}
	ts := []*ir.Term{k.fld(from, name)}
	for _, a := range args {
		ts = append(ts, k.fld(from, a))
	}
	return ir.Call(m, ts...)
}

func (k *scoreKit) pred(from *facts.Level, name, method string, args ...string) *ir.Term {
	T := k.fieldType(from, name)
	m := load.MethodOf(T, method)
	if m == nil {
		panic("type of " + name + " has no " + method + " method")
	}
	ts := []*ir.Term{k.fld(from, name)}
	for _, a := range args {
		ts = append(ts, k.fld(from, a))
	}
	return ir.Call(m, ts...)
}

func nilOf(t types.Type) *ir.Term { return &ir.Term{Op: ir.OConst, Typ: t} }

var errorType = types.Universe.Lookup("error").Type()

// valid is the guard  <obj>.GetError() == nil  for the level `of` seen from `from`.
func (k *scoreKit) valid(from, of *facts.Level) *ir.Term {
	m := of.Method("GetError")
	if m == nil {
		panic(of.String() + " has no GetError")
	}
	return ir.Bin("==", ir.Call(m, k.obj(from, of)), nilOf(errorType))
}

func (k *scoreKit) method(from, of *facts.Level, name string, args ...*ir.Term) *ir.Term {
	m := of.Method(name)
	if m == nil {
		panic(of.String() + " has no method " + name)
	}
	return ir.Call(m, append([]*ir.Term{k.obj(from, of)}, args...)...)
}

func (k *scoreKit) mathCall(name string, args ...*ir.Term) *ir.Term {
	if (name == "Min" || name == "Max") && len(args) == 2 {
		return ir.FMinMax(name == "Min", args[0], args[1])
	}
	f := k.mathFn[name]
	if f == nil {
		panic("package does not import math." + name)
	}
	return ir.Call(f, args...)
}

func (k *scoreKit) rnd(kind string, x *ir.Term) *ir.Term {
	f := k.round[kind]
	if f == nil {
		panic("no " + kind + " helper found in " + k.ver.Pkg)
	}
	return ir.Call(f, x)
}

func fl(f float64) *ir.Term { return ir.Float(f) }

func le0(x *ir.Term) *ir.Term { return ir.Bin("<=", x, fl(0)) }

// kf marks a position where a recorded known finding (an extra rounding
// helper) may wrap the operand.
func kf(role string, x *ir.Term) *ir.Term { return &ir.Term{Op: "kf", Str: role, Args: []*ir.Term{x}} }

func stripKF(t *ir.Term) *ir.Term {
	return ir.Replace(t, func(x *ir.Term) *ir.Term {
		if x.Op == "kf" {
			return x.Args[0]
		}
		return nil
	})
}

// refLeaf is one guarded leaf of a reference equation.
type refLeaf struct {
	name   string
	guards []*ir.Term
	ret    *ir.Term
}

// ---- extraction --------------------------------------------------------------

// leavesOf extracts (and caches) the guarded leaves of a module function,
// inlining unexported same-package helpers that take parameters.
func (k *scoreKit) leavesOf(sf *ssa.Function) ([]*ir.Leaf, error) {
	if ls, ok := k.cache[sf.String()]; ok {
		return ls, nil
	}
	byName := map[string]*ssa.Function{}
	inlineOK := func(callee *ssa.Function) bool {
		if callee.Pkg == nil || callee.Pkg.Pkg != k.pkg || len(callee.Blocks) == 0 {
			return false
		}
		obj, _ := callee.Object().(*types.Func)
		if obj == nil || obj.Exported() {
			return false
		}
		// rounding helpers stay uninterpreted
		for _, r := range k.round {
			if r == obj {
				return false
			}
		}
		// only helpers whose result is a float64 computed from parameters
		sig := obj.Type().(*types.Signature)
		if sig.Results().Len() != 1 || !(isFloat64(sig.Results().At(0).Type()) || isFloatStruct(sig.Results().At(0).Type())) {
			return false
		}
		byName[callee.String()] = callee
		return true
	}
	ls, err := ir.Leaves(sf, ir.LeafOptions{InlineOK: inlineOK, Forward: true})
	if err != nil {
		return nil, err
	}
	ls, err = ir.ExpandInline(ls, func(name string) ([]*ir.Leaf, error) {
		c := byName[name]
		if c == nil {
			return nil, fmt.Errorf("inlined callee %s not found", name)
		}
		return k.leavesOf(c)
	})
	if err != nil {
		return nil, err
	}
	k.cache[sf.String()] = ls
	return ls, nil
}

// isFloatStruct: a struct of float64 fields (a handful of constants of an equation passed around as one value).
func isFloatStruct(t types.Type) bool {
	st, ok := t.Underlying().(*types.Struct)
	if !ok || st.NumFields() == 0 {
		return false
	}
	for i := 0; i < st.NumFields(); i++ {
		if !isFloat64(st.Field(i).Type()) {
			return false
		}
	}
	return true
}

// closeGuards adds the guards implied by validity of a level: a level whose
// GetError is nil has lower levels whose GetError is nil (obligation
// valid-chain, checked separately).
func (k *scoreKit) closeGuards(gs []*ir.Term) []*ir.Term {
	out := append([]*ir.Term{}, gs...)
	seen := map[string]bool{}
	for _, g := range out {
		seen[g.Key()] = true
	}
	for i := 0; i < len(out); i++ {
		g := out[i]
		if g.Op != ir.OBin || g.Str != "==" {
			continue
		}
		var call *ir.Term
		for _, a := range g.Args {
			if a.Op == ir.OCall {
				call = a
			}
		}
		if call == nil || len(call.Args) != 1 {
			continue
		}
		for _, l := range k.levels {
			if l.Lower == nil || call.Obj != types.Object(l.Method("GetError")) {
				continue
			}
			lowerObj := ir.Field(call.Args[0], l.Embedded)
			ng := ir.Bin("==", ir.Call(l.Lower.Method("GetError"), lowerObj), nilOf(errorType))
			if !seen[ng.Key()] {
				seen[ng.Key()] = true
				out = append(out, ng)
			}
		}
	}
	return out
}

type kfHit struct {
	fn   string // function containing the rounding call
	role string
	pos  string
}

// compareScoreAny compares fn with several equivalent forms of the reference equation and reports the first one
// that matches completely; if none does, the findings against the first form are reported.
func (k *scoreKit) compareScoreAny(rule string, fn *types.Func, refs ...[]refLeaf) (hits []kfHit, ok bool) {
	real := k.e.C
	defer func() { k.e.C = real }()
	var first *report.Ctx
	var firstHits []kfHit
	for _, ref := range refs {
		tmp := report.NewCtx(real.Prop, real.Tier)
		tmp.Variant = real.Variant
		k.e.C = tmp
		h, good := k.compareScore(rule, fn, ref)
		if good {
			real.Obs = append(real.Obs, tmp.Obs...)
			return h, true
		}
		if first == nil {
			first, firstHits = tmp, h
		}
	}
	real.Obs = append(real.Obs, first.Obs...)
	return firstHits, false
}

// compareScore compares the extracted leaves of fn with the reference leaves.
// Known-finding positions (kf nodes in the reference) tolerate one wrapping
// call of the round2 helper; such wrappers are reported through hits.
func (k *scoreKit) compareScore(rule string, fn *types.Func, ref []refLeaf) (hits []kfHit, ok bool) {
	c := k.e.C
	name := fname(fn)
	pos := k.e.P.Pos(fn.Pos())
	sf := k.e.P.SSAFunc(fn)
	if sf == nil {
		c.Undecided(rule, name, pos, "no SSA body")
		return nil, false
	}
	// E1 (local): the function must not store to non-local memory, otherwise field loads are not one leaf
	if fe := k.e.F.Effects().Funcs[sf]; fe != nil && (len(fe.Writes) > 0 || len(fe.Undecided) > 0) {
		for _, w := range fe.Writes {
			c.Fail(rule, name+" writes memory", k.e.P.Pos(w.Pos), k.e.F.Effects().Describe(w))
		}
		for _, u := range fe.Undecided {
			c.Undecided(rule, name, pos, u)
		}
		return nil, false
	}
	leaves, err := k.leavesOf(sf)
	if err != nil {
		c.Undecided(rule, name, pos, err.Error())
		return nil, false
	}
	round2 := k.round["round2"]
	strip2 := func(t *ir.Term) *ir.Term {
		if round2 == nil {
			return t
		}
		return ir.Replace(t, func(x *ir.Term) *ir.Term {
			if x.Op == ir.OCall && x.Obj == types.Object(round2) && len(x.Args) == 1 {
				return x.Args[0]
			}
			return nil
		})
	}
	// roles: stripped operand key -> role
	roles := map[string]string{}
	for _, r := range ref {
		for _, t := range append(append([]*ir.Term{}, r.guards...), r.ret) {
			ir.Walk(t, func(x *ir.Term) bool {
				if x.Op == "kf" {
					roles[stripKF(x.Args[0]).Key()] = x.Str
				}
				return true
			})
		}
	}
	var recvNil, recvInvalid *ir.Term
	if recv := fn.Type().(*types.Signature).Recv(); recv != nil {
		for _, l := range k.levels {
			if types.Identical(recv.Type(), l.Ptr()) && l.Method("GetError") != nil {
				recvNil = ir.Bin("==", ir.Param(0), nilOf(l.Ptr()))
				recvInvalid = ir.Bin("!=", ir.Call(l.Method("GetError"), ir.Param(0)), nilOf(errorType))
			}
		}
	}
	type embObj struct{ isNil, invalid *ir.Term }
	var embeddedObjs []embObj
	if recv := fn.Type().(*types.Signature).Recv(); recv != nil {
		for _, l := range k.levels {
			if !types.Identical(recv.Type(), l.Ptr()) {
				continue
			}
			obj := ir.Param(0)
			for lv := l; lv.Lower != nil && lv.Embedded != nil; lv = lv.Lower {
				obj = ir.Field(obj, lv.Embedded)
				if ge := lv.Lower.Method("GetError"); ge != nil {
					embeddedObjs = append(embeddedObjs, embObj{ir.Bin("==", obj, nilOf(lv.Lower.Ptr())), ir.Bin("!=", ir.Call(ge, obj), nilOf(errorType))})
				}
			}
		}
	}
	type pl struct {
		guards []*ir.Term
		ret    *ir.Term
		raw    *ir.Leaf
	}
	var prog []pl
	for _, lf := range leaves {
		if len(lf.Ret) != 1 {
			c.Undecided(rule, name, pos, "not a single-result function")
			return nil, false
		}
		var gs []*ir.Term
		for _, g := range lf.Guards {
			g = strip2(g)
			// a test of the receiver for nil: GetError() of a nil receiver is an error (rule valid-chain: it returns
			// nil only under receiver != nil), so "receiver == nil" is a case of "invalid object" and
			// "receiver != nil" adds nothing to a path that is classified by GetError() anyway
			if recvNil != nil {
				if g.Key() == recvNil.Key() {
					g = recvInvalid
				} else if g.Key() == ir.NotCond(recvNil).Key() {
					continue
				}
			}
			// the same for the embedded lower-level objects (p0.Base == nil after GetError() was tested: GetError of
			// the lower level reports an error for a nil receiver, and valid-chain makes it part of the own level's)
			if dropped := false; true {
				for _, eo := range embeddedObjs {
					if g.Key() == eo.isNil.Key() {
						g = eo.invalid
					} else if g.Key() == ir.NotCond(eo.isNil).Key() {
						dropped = true
					}
				}
				if dropped {
					continue
				}
			}
			gs = append(gs, g)
		}
		gs = k.closeGuards(gs)
		// drop leaves whose closed guard set is contradictory
		if !ir.Consistent(gs, gs) {
			continue
		}
		prog = append(prog, pl{gs, lf.Ret[0], lf})
	}
	all := true
	usedRef := make([]bool, len(ref))
	seenHit := map[string]bool{}
	// atoms of the reference partition (either polarity)
	refAtoms := map[string]*ir.Term{}
	for _, r := range ref {
		var rg []*ir.Term
		for _, g := range r.guards {
			rg = append(rg, stripKF(g))
		}
		for _, g := range k.closeGuards(rg) {
			refAtoms[g.Key()] = g
			refAtoms[ir.NotCond(g).Key()] = ir.NotCond(g)
		}
	}
	reportedCond := map[string]bool{}
	for i, p := range prog {
		// a path condition the reference does not know: report the closest reference condition and
		// do not pair this path with reference branches (the pairing would be arbitrary)
		unknown := false
		for _, g := range p.guards {
			if refAtoms[g.Key()] != nil {
				continue
			}
			unknown = true
			usedAll := true
			_ = usedAll
			if reportedCond[g.Key()] {
				continue
			}
			reportedCond[g.Key()] = true
			bestA, bestB := g.Pretty(), "<no condition of this form in the reference equation>"
			best := -1
			for _, ra := range refAtoms {
				if ra.Op != g.Op || ra.Str != g.Str {
					continue
				}
				a, b := ir.Diff(g, ra)
				if best < 0 || len(a)+len(b) < best {
					best = len(a) + len(b)
					bestA, bestB = a, b
				}
			}
			c.Fail(rule, fmt.Sprintf("%s condition", name), k.e.P.Pos(p.raw.Pos), fmt.Sprintf("a branch condition differs from the reference equation: found %s, expected %s", clip(bestA), clip(bestB)))
			all = false
		}
		if unknown {
			for j := range ref {
				usedRef[j] = true // do not additionally report reference branches as missing
			}
			continue
		}
		matched := false
		for j, r := range ref {
			var rg []*ir.Term
			for _, g := range r.guards {
				rg = append(rg, stripKF(g))
			}
			rg = k.closeGuards(rg)
			if !ir.Consistent(p.guards, rg) {
				continue
			}
			matched = true
			usedRef[j] = true
			want := stripKF(r.ret)
			got := strip2(p.ret)
			cons := fmt.Sprintf("%s branch %q", name, r.name)
			if got.Key() != want.Key() {
				a, b := ir.Diff(got, want)
				c.Fail(rule, cons, k.e.P.Pos(p.raw.Pos), fmt.Sprintf("returned term differs from the reference equation: found %s, expected %s", clip(a), clip(b)))
				all = false
				continue
			}
			c.Ok(rule, cons, k.e.P.Pos(p.raw.Pos), "term equals the reference equation: "+clip(want.Pretty()))
		}
		if !matched {
			c.Undecided(rule, fmt.Sprintf("%s path #%d", name, i), k.e.P.Pos(p.raw.Pos), "path conditions match no branch of the reference equation: "+p.raw.String())
			all = false
		}
		// rounding-point discipline: every round2 wrapper must sit on a known-finding position
		if round2 != nil {
			for _, t := range append(append([]*ir.Term{}, p.raw.Guards...), p.raw.Ret...) {
				ir.Walk(t, func(x *ir.Term) bool {
					if x.Op == ir.OCall && x.Obj == types.Object(round2) && len(x.Args) == 1 {
						opk := strip2(x.Args[0]).Key()
						site := k.e.P.Pos(x.Pos)
						holder := k.holderOf(x, sf)
						if role, ok := roles[opk]; ok {
							hk := role
							if !seenHit[hk] {
								seenHit[hk] = true
								hits = append(hits, kfHit{fn: holder, role: role, pos: site})
							}
						} else {
							c.Fail("rounding-point", fmt.Sprintf("helper=round-to-2-decimals operand=%s", clip(strip2(x.Args[0]).Pretty())), site, "a sub-score is rounded (in "+holder+") before use at a point where the specification does not round")
							all = false
						}
					}
					return true
				})
			}
		}
	}
	for j, r := range ref {
		if !usedRef[j] {
			c.Fail(rule, fmt.Sprintf("%s branch %q", name, r.name), pos, "no path of the function corresponds to this branch of the reference equation")
			all = false
		}
	}
	return hits, all
}

// holderOf names the function whose body contains the call at x.Pos.
func (k *scoreKit) holderOf(x *ir.Term, root *ssa.Function) string {
	best := root
	for _, fn := range k.e.F.Effects().All {
		if fn.Pkg == nil || fn.Pkg.Pkg != k.pkg || fn.Syntax() == nil {
			continue
		}
		n := fn.Syntax()
		if n.Pos() <= x.Pos && x.Pos < n.End() {
			best = fn
		}
	}
	if o, ok := best.Object().(*types.Func); ok {
		return fname(o)
	}
	return best.String()
}

func clip(s string) string {
	if len(s) > 300 {
		return s[:300] + "..."
	}
	return s
}

// validChain checks the implication used by closeGuards: each level's GetError
// returns nil only on paths where the embedded level's GetError returned nil,
// and only where the receiver is non-nil.
func (k *scoreKit) validChain(rule string) {
	c := k.e.C
	for _, l := range k.levels {
		m := l.Method("GetError")
		if m == nil {
			c.Fail(rule, l.String()+".GetError", "", "method missing")
			continue
		}
		sf := k.e.P.SSAFunc(m)
		leaves, err := ir.Leaves(sf, ir.LeafOptions{Inline: k.e.inlineHelpers()})
		if err != nil {
			c.Undecided(rule, fname(m), k.e.P.Pos(m.Pos()), err.Error())
			continue
		}
		nNil := 0
		good := true
		for _, lf := range leaves {
			if len(lf.Ret) != 1 || !(lf.Ret[0].Op == ir.OConst && lf.Ret[0].C == nil) {
				continue
			}
			nNil++
			keys := map[string]bool{}
			for _, g := range lf.Guards {
				keys[g.Key()] = true
			}
			recvNonNil := ir.Bin("!=", ir.Param(0), nilOf(l.Ptr()))
			if !keys[recvNonNil.Key()] {
				good = false
				c.Fail(rule, fname(m), k.e.P.Pos(lf.Pos), "returns nil on a path that does not test the receiver for nil: "+lf.String())
			}
			if l.Lower != nil {
				lw := ir.Bin("==", ir.Call(l.Lower.Method("GetError"), ir.Field(ir.Param(0), l.Embedded)), nilOf(errorType))
				if !keys[lw.Key()] {
					good = false
					c.Fail(rule, fname(m), k.e.P.Pos(lf.Pos), "returns nil on a path that did not see the embedded level's GetError return nil: "+lf.String())
				}
			}
		}
		if nNil == 0 {
			c.Fail(rule, fname(m), k.e.P.Pos(m.Pos()), "never returns nil")
		} else if good {
			c.Ok(rule, fname(m), k.e.P.Pos(m.Pos()), fmt.Sprintf("%d nil-returning path(s), each under receiver != nil and lower-level GetError() == nil", nNil))
		}
	}
}

var _ = strings.Join
