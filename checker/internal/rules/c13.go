package rules

import (
	"fmt"
	"go/types"
	"math/big"

	"cvsslint/internal/ir"

	"cvsslint/internal/facts"
	"cvsslint/internal/spec"
)

func init() { register("C13", c13) }

func c13(e *Env) {
	c := e.C
	c.Level = "other"
	c.Explanation = "Decides the table facts and term shapes from which 'Not Defined is score-neutral and temporal never exceeds base' follows: (a) the weight of every Not Defined code of the temporal metrics and requirements is exactly 1 (v2 CDP:ND exactly 0), Modified metrics that are Not Defined delegate to the base metric's table (C20 obligations, re-evaluated); (b) every temporal weight lies in (0,1]; (c) the temporal equations are rounding(BaseScore * E * RL * RC) with BaseScore the already rounded lower-level Score() (term comparison as in C02/C04), v2 temporal with an absent group returns the base score itself; (d) v2 environmental is round1(P * w(TD)) with w(TD:N) = 0 a top-level factor (term comparison as in C05); (e) for the v3 'environmental all-X equals temporal' clause the cap never binds at requirement weight 1: 1-(1-w)^3 < 0.915 for the largest impact weight w, computed exactly from the source constants."
	c.Trusted = []string{"go/types + go/ssa", "specification tables in checker/internal/spec"}
	c.NotDecided = []string{"idempotence and monotonicity of the rounding helpers on their own outputs (roundUp(k/10) = k/10, x<=y => round(x)<=round(y)) and that IEEE multiplication by a factor in (0,1] does not increase a non-negative value: paper arguments about floating point, not decided here", floatCaveat}
	c.Floor("nd-weight", 14)
	c.Floor("temporal-weight-range", 25)
	c.Floor("score-term", 10)
	for _, v := range []*spec.Version{&spec.V3, &spec.V2} {
		ls, err := e.F.Levels(v)
		if err != nil {
			c.Undecided("nd-weight", v.Pkg, "", err.Error())
			continue
		}
		for _, l := range ls {
			for _, fv := range l.Metrics {
				m := v.Metric(fv.Name())
				if m.NoWeight || m.ScopeDependent {
					continue
				}
				T := fv.Type()
				val := methodOf(T, "Value")
				if val == nil {
					continue
				}
				for _, sc := range m.Codes {
					cv, ok := e.constByCode(T, sc.Code)
					if !ok {
						continue
					}
					if m.ModifiedOf != "" {
						continue // delegation handled by the weight obligations below
					}
					w, okw := floatOf(e.F.Eval(val, cv))
					cons := fmt.Sprintf("%s %s:%s", v.Name, m.Name, sc.Code)
					if sc.NotDefined {
						want := 1.0
						if m.Name == "CDP" {
							want = 0
						}
						c.Check(okw && w == want, "nd-weight", cons, e.P.Pos(val.Pos()), fmt.Sprintf("Not Defined weight is exactly %v", want), fmt.Sprintf("Not Defined weight is %v, must be exactly %v to be score-neutral", w, want))
					}
					if l.Spec.Name == "Temporal" {
						c.Check(okw && w > 0 && w <= 1, "temporal-weight-range", cons, e.P.Pos(val.Pos()), fmt.Sprintf("%v in (0,1]", w), fmt.Sprintf("temporal weight %v is outside (0,1]: the temporal score could exceed the base score (or vanish)", w))
					}
					if m.Name == "TD" && sc.Code == "N" {
						c.Check(okw && w == 0, "td-none-zero", cons, e.P.Pos(val.Pos()), "Target Distribution None has weight 0", fmt.Sprintf("TD:N weight is %v, not 0", w))
					}
				}
			}
		}
	}
	// Modified -> base delegation and all other weights
	e.weightObligations(&spec.V3, "E", "RL", "RC", "CR", "IR", "AR", "MAV", "MAC", "MPR", "MUI", "MS", "MC", "MI", "MA")
	e.weightObligations(&spec.V2, "E", "RL", "RC", "TD", "CDP", "CR", "IR", "AR")

	k3 := e.newScoreKit(&spec.V3, "score-term")
	k2 := e.newScoreKit(&spec.V2, "score-term")
	if k3 != nil {
		e.guardPanics("score-term", "v3 references", func() {
			e.termV3Base(k3)
			e.termV3Temporal(k3)
			e.termV3Env(k3)
			k3.validChain("valid-chain")
			e.capNeverBinds(k3)
		})
		// "all Not Defined: temporal = base" is Roundup(base x 1 x 1 x 1) = base: the round-up helper must leave a value
		// that is already a tenth where it is, i.e. be the specification's algorithm
		e.roundUpReference(k3, "round-up-helper")
		e.constructorDefaults(k3.level("Temporal"), "constructor-default")
		e.constructorDefaults(k3.level("Environmental"), "constructor-default")
	}
	if k2 != nil {
		e.guardPanics("score-term", "v2 references", func() {
			e.termV2BaseTemporal(k2, false)
			e.termV2Env(k2, false)
			k2.validChain("valid-chain")
		})
	}
	e.guardPanics("neutrality-reduction", "reductions", func() { e.neutralityReductions(k3, k2) })
}

// capNeverBinds: with requirement weight 1 the modified impact sub-score
// 1-(1-wC)(1-wI)(1-wA) is at most 1-(1-wmax)^3, which must be below the cap
// 0.915 for "all environmental metrics X" to reproduce the base impact.
func (e *Env) capNeverBinds(k *scoreKit) {
	B := k.level("Base")
	var wmax *big.Rat
	for _, n := range []string{"C", "I", "A"} {
		T := B.ByName[n].Type()
		val := methodOf(T, "Value")
		for _, v := range e.F.Domain(T) {
			if v.Kind != facts.VConst {
				continue
			}
			f, ok := floatOf(e.F.Eval(val, v))
			if !ok {
				continue
			}
			r := new(big.Rat).SetFloat64(f)
			if wmax == nil || r.Cmp(wmax) > 0 {
				wmax = r
			}
		}
	}
	if wmax == nil {
		e.C.Undecided("cap-never-binds", "v3 impact weights", "", "no weights")
		return
	}
	one := big.NewRat(1, 1)
	d := new(big.Rat).Sub(one, wmax)
	d3 := new(big.Rat).Mul(d, new(big.Rat).Mul(d, d))
	miss := new(big.Rat).Sub(one, d3)
	capR := new(big.Rat).SetFloat64(0.915) // the cap constant is pinned by the C03 term comparison re-run above
	f, _ := miss.Float64()
	e.C.Check(miss.Cmp(capR) < 0, "cap-never-binds", "v3 max ISS at requirement weight 1", e.P.Pos(B.Named.Obj().Pos()), fmt.Sprintf("1-(1-wmax)^3 = %.6f < 0.915", f), fmt.Sprintf("1-(1-wmax)^3 = %.6f reaches the cap 0.915: environmental all-X would differ from temporal", f))
}

// neutralityReductions mechanises the paper argument of section 4.8: the
// reference equations (which the extracted terms were just shown to equal) are
// rewritten under "all optional metrics are Not Defined" using rewrite rules
// that are each justified by a table fact decided in this same run, and the
// result is compared syntactically with the lower level's equation.
func (e *Env) neutralityReductions(k3, k2 *scoreKit) {
	c := e.C
	rule := "neutrality-reduction"
	isValueOf := func(t *ir.Term, fld *ir.Term) bool {
		return t.Op == ir.OCall && len(t.Args) >= 1 && t.Args[0].Key() == fld.Key() && t.Obj != nil && t.Obj.Name() == "Value"
	}
	if k3 != nil {
		E, T, B := k3.level("Environmental"), k3.level("Temporal"), k3.level("Base")
		// --- v3 temporal, E=RL=RC=X  ==> roundUp(BaseScore)
		{
			valid := k3.valid(T, T)
			_ = valid
			prod := ir.Mul(ir.Mul(ir.Mul(k3.method(T, B, "Score"), k3.w(T, "E")), k3.w(T, "RL")), k3.w(T, "RC"))
			red := ir.Replace(k3.rnd("roundUp", prod), func(x *ir.Term) *ir.Term {
				for _, n := range []string{"E", "RL", "RC"} {
					if isValueOf(x, k3.fld(T, n)) {
						return fl(1) // weight of X is exactly 1 (rule nd-weight)
					}
				}
				return nil
			})
			want := k3.rnd("roundUp", k3.method(T, B, "Score"))
			c.Check(red.Key() == want.Key(), rule, "v3 temporal with E=RL=RC=X", e.P.Pos(T.Method("Score").Pos()), "reduces to roundUp(Base.Score()): equal to the base score if roundUp is idempotent on tenths (not decided)", "does not reduce to roundUp(Base.Score()): "+clip(red.Pretty()))
		}
		// --- v3 environmental, all eleven metrics X
		sigma := func(t *ir.Term) *ir.Term {
			return ir.Replace(t, func(x *ir.Term) *ir.Term {
				for _, n := range []string{"CR", "IR", "AR"} {
					if isValueOf(x, k3.fld(E, n)) {
						return fl(1)
					}
				}
				for _, pr := range [][2]string{{"MAV", "AV"}, {"MAC", "AC"}, {"MUI", "UI"}, {"MC", "C"}, {"MI", "I"}, {"MA", "A"}} {
					if isValueOf(x, k3.fld(E, pr[0])) {
						return k3.w(E, pr[1]) // Modified X delegates to the base table (C20 weight obligations)
					}
				}
				if isValueOf(x, k3.fld(E, "MPR")) {
					return k3.w(E, "PR", "S")
				}
				if x.Op == ir.OCall && x.Obj != nil && x.Obj.Name() == "IsChanged" && len(x.Args) == 2 && x.Args[0].Key() == k3.fld(E, "MS").Key() {
					return k3.pred(E, "S", "IsChanged")
				}
				if ir.IsFMin(x) {
					for i := 0; i < 2; i++ {
						if f, ok := floatConst(x.Args[i]); ok && f == 0.915 {
							return x.Args[1-i] // the cap never binds at requirement weight 1 (rule cap-never-binds)
						}
					}
				}
				return nil
			})
		}
		envRef := v3EnvRef(k3)
		baseRef, _ := v3BaseRef(k3, E)
		tmul := func(x *ir.Term) *ir.Term {
			return ir.Mul(ir.Mul(ir.Mul(x, k3.w(E, "E")), k3.w(E, "RL")), k3.w(E, "RC"))
		}
		v31c, _ := k3.pkg.Scope().Lookup("V3_1").(*types.Const)
		is31 := ir.Bin("==", k3.fld(E, "Ver"), ir.Const(v31c.Val(), v31c.Type()))
		changed := k3.pred(E, "S", "IsChanged")
		n := 0
		for _, el := range envRef {
			if isZeroConst(el.ret) {
				continue
			}
			var gs []*ir.Term
			for _, g := range el.guards {
				gs = append(gs, sigma(g))
			}
			has := func(g *ir.Term) bool { return ir.HasCond(gs, g) }
			if has(changed) && has(is31) {
				c.Ok(rule, "v3 environmental all-X, "+el.name, e.P.Pos(E.Method("Score").Pos()), "v3.1 with changed scope: the specification itself prescribes a different polynomial (excluded by the property)")
				continue
			}
			red := sigma(el.ret)
			// the base branch with the same scope polarity and positive impact
			matched := false
			for _, bl := range baseRef {
				if isZeroConst(bl.ret) {
					continue
				}
				if ir.HasCond(bl.guards, changed) != has(changed) {
					continue
				}
				want := k3.rnd("roundUp", tmul(bl.ret))
				matched = true
				n++
				c.Check(red.Key() == want.Key(), rule, "v3 environmental all-X, "+el.name, e.P.Pos(E.Method("Score").Pos()), "reduces to roundUp(<base equation of the same branch> * E * RL * RC) = the temporal equation", "with every environmental metric Not Defined the environmental equation does not reduce to the temporal one: "+firstDiff(red, want))
			}
			if !matched {
				c.Undecided(rule, "v3 environmental all-X, "+el.name, e.P.Pos(E.Method("Score").Pos()), "no base branch of the same scope polarity")
			}
		}
		c.Floor(rule, 5)
		_ = n
	}
	if k2 != nil {
		E, T, B := k2.level("Environmental"), k2.level("Temporal"), k2.level("Base")
		// v2 temporal, all ND ==> round1(BaseScore)
		prod := ir.Mul(ir.Mul(ir.Mul(k2.method(T, B, "Score"), k2.w(T, "E")), k2.w(T, "RL")), k2.w(T, "RC"))
		red := ir.Replace(k2.rnd("round1", prod), func(x *ir.Term) *ir.Term {
			for _, n := range []string{"E", "RL", "RC"} {
				if isValueOf(x, k2.fld(T, n)) {
					return fl(1)
				}
			}
			return nil
		})
		want := k2.rnd("round1", k2.method(T, B, "Score"))
		c.Check(red.Key() == want.Key(), rule, "v2 temporal with E=RL=RC=ND", e.P.Pos(T.Method("Score").Pos()), "reduces to round1(Base.Score()): equal to the base score if round1 is idempotent on tenths (not decided)", "does not reduce to round1(Base.Score()): "+clip(red.Pretty()))
		// v2 environmental, TD:N ==> round1(0 * ...)
		at := k2.method(E, B, "Score") // any adjusted temporal term; the shape of the outer product is what matters
		outer := k2.rnd("round1", ir.Mul(ir.Add(at, ir.Mul(ir.Sub(fl(10), at), k2.w(E, "CDP"))), k2.w(E, "TD")))
		red = ir.Replace(outer, func(x *ir.Term) *ir.Term {
			if isValueOf(x, k2.fld(E, "TD")) {
				return fl(0) // weight of TD:N is exactly 0 (rule td-none-zero)
			}
			return nil
		})
		okZero := red.Op == ir.OCall && len(red.Args) == 1 && red.Args[0].Op == ir.OProd
		if okZero {
			okZero = false
			for _, a := range red.Args[0].Args {
				if isZeroConst(a) {
					okZero = true
				}
			}
		}
		c.Check(okZero, rule, "v2 environmental with TD:N", e.P.Pos(E.Method("Score").Pos()), "reduces to round1(0 * (...)): the Target Distribution weight is a factor of the whole sum", "TD:N does not zero the whole environmental score: "+clip(red.Pretty()))
	}
}

func firstDiff(a, b *ir.Term) string {
	x, y := ir.Diff(a, b)
	return "found " + clip(x) + ", expected " + clip(y)
}
