package rules

import (
	"fmt"
	"math/big"

	"cvsslint/internal/facts"
	"cvsslint/internal/spec"
)

func init() { register("C13", c13) }

func c13(e *Env) {
	c := e.C
	c.Level = "other"
	c.Explanation = "Decides the table facts and term shapes from which 'Not Defined is score-neutral and temporal never exceeds base' follows: (a) the weight of every Not Defined code of the temporal metrics and requirements is exactly 1 (v2 CDP:ND exactly 0), Modified metrics that are Not Defined delegate to the base metric's table (C20 obligations, re-evaluated); (b) every temporal weight lies in (0,1]; (c) the temporal equations are rounding(BaseScore * E * RL * RC) with BaseScore the already rounded lower-level Score() (term comparison as in C02/C04), v2 temporal with an absent group returns the base score itself; (d) v2 environmental is round1(P * w(TD)) with w(TD:N) = 0 a top-level factor (term comparison as in C05); (e) for the v3 'environmental all-X equals temporal' clause the cap never binds at requirement weight 1: 1-(1-w)^3 < 0.915 for the largest impact weight w, computed exactly from the source constants."
	c.Trusted = []string{"go/types + go/ssa", "specification tables in checker/internal/spec"}
	c.NotDecided = []string{"idempotence and monotonicity of the rounding helpers on their own outputs (roundUp(k/10) = k/10, x<=y => round(x)<=round(y)) and that IEEE multiplication by a factor in (0,1] does not increase a non-negative value: paper arguments about floating point, not decided here", floatCaveat}
	c.Floor("nd-weight", 14)
	c.Floor("temporal-weight-range", 25)
	c.Floor("score-term", 10)
	for _, v := range []*spec.Version{&spec.V3, &spec.V2} {
		ls, err := e.F.Levels(v)
		if err != nil {
			c.Undecided("nd-weight", v.Pkg, "", err.Error())
			continue
		}
		for _, l := range ls {
			for _, fv := range l.Metrics {
				m := v.Metric(fv.Name())
				if m.NoWeight || m.ScopeDependent {
					continue
				}
				T := fv.Type()
				val := methodOf(T, "Value")
				if val == nil {
					continue
				}
				for _, sc := range m.Codes {
					cv, ok := e.constByCode(T, sc.Code)
					if !ok {
						continue
					}
					if m.ModifiedOf != "" {
						continue // delegation handled by the weight obligations below
					}
					w, okw := floatOf(e.F.Eval(val, cv))
					cons := fmt.Sprintf("%s %s:%s", v.Name, m.Name, sc.Code)
					if sc.NotDefined {
						want := 1.0
						if m.Name == "CDP" {
							want = 0
						}
						c.Check(okw && w == want, "nd-weight", cons, e.P.Pos(val.Pos()), fmt.Sprintf("Not Defined weight is exactly %v", want), fmt.Sprintf("Not Defined weight is %v, must be exactly %v to be score-neutral", w, want))
					}
					if l.Spec.Name == "Temporal" {
						c.Check(okw && w > 0 && w <= 1, "temporal-weight-range", cons, e.P.Pos(val.Pos()), fmt.Sprintf("%v in (0,1]", w), fmt.Sprintf("temporal weight %v is outside (0,1]: the temporal score could exceed the base score (or vanish)", w))
					}
					if m.Name == "TD" && sc.Code == "N" {
						c.Check(okw && w == 0, "td-none-zero", cons, e.P.Pos(val.Pos()), "Target Distribution None has weight 0", fmt.Sprintf("TD:N weight is %v, not 0", w))
					}
				}
			}
		}
	}
	// Modified -> base delegation and all other weights
	e.weightObligations(&spec.V3, "E", "RL", "RC", "CR", "IR", "AR", "MAV", "MAC", "MPR", "MUI", "MS", "MC", "MI", "MA")
	e.weightObligations(&spec.V2, "E", "RL", "RC", "TD", "CDP", "CR", "IR", "AR")

	k3 := e.newScoreKit(&spec.V3, "score-term")
	k2 := e.newScoreKit(&spec.V2, "score-term")
	if k3 != nil {
		e.guardPanics("score-term", "v3 references", func() {
			e.termV3Base(k3)
			e.termV3Temporal(k3)
			e.termV3Env(k3)
			k3.validChain("valid-chain")
			e.capNeverBinds(k3)
		})
		e.constructorDefaults(k3.level("Temporal"), "constructor-default")
		e.constructorDefaults(k3.level("Environmental"), "constructor-default")
	}
	if k2 != nil {
		e.guardPanics("score-term", "v2 references", func() {
			e.termV2BaseTemporal(k2, false)
			e.termV2Env(k2, false)
			k2.validChain("valid-chain")
		})
	}
}

// capNeverBinds: with requirement weight 1 the modified impact sub-score
// 1-(1-wC)(1-wI)(1-wA) is at most 1-(1-wmax)^3, which must be below the cap
// 0.915 for "all environmental metrics X" to reproduce the base impact.
func (e *Env) capNeverBinds(k *scoreKit) {
	B := k.level("Base")
	var wmax *big.Rat
	for _, n := range []string{"C", "I", "A"} {
		T := B.ByName[n].Type()
		val := methodOf(T, "Value")
		for _, v := range e.F.Domain(T) {
			if v.Kind != facts.VConst {
				continue
			}
			f, ok := floatOf(e.F.Eval(val, v))
			if !ok {
				continue
			}
			r := new(big.Rat).SetFloat64(f)
			if wmax == nil || r.Cmp(wmax) > 0 {
				wmax = r
			}
		}
	}
	if wmax == nil {
		e.C.Undecided("cap-never-binds", "v3 impact weights", "", "no weights")
		return
	}
	one := big.NewRat(1, 1)
	d := new(big.Rat).Sub(one, wmax)
	d3 := new(big.Rat).Mul(d, new(big.Rat).Mul(d, d))
	miss := new(big.Rat).Sub(one, d3)
	capR := new(big.Rat).SetFloat64(0.915) // the cap constant is pinned by the C03 term comparison re-run above
	f, _ := miss.Float64()
	e.C.Check(miss.Cmp(capR) < 0, "cap-never-binds", "v3 max ISS at requirement weight 1", e.P.Pos(B.Named.Obj().Pos()), fmt.Sprintf("1-(1-wmax)^3 = %.6f < 0.915", f), fmt.Sprintf("1-(1-wmax)^3 = %.6f reaches the cap 0.915: environmental all-X would differ from temporal", f))
}
