// Package rules holds one rule set per property.
package rules

import (
	"fmt"
	"go/constant"
	"go/types"
	"hash/fnv"
	"path/filepath"
	"sort"
	"strconv"
	"strings"

	"cvsslint/internal/facts"
	"cvsslint/internal/ir"
	"cvsslint/internal/load"
	"cvsslint/internal/report"
	"cvsslint/internal/spec"

	"golang.org/x/tools/go/ssa"
)

// Env is what every rule set receives.
type Env struct {
	P *load.Program
	F *facts.Facts
	C *report.Ctx

	builders map[*ssa.Function]*ir.Builder
	callers  map[*ssa.Function]*callerInfo
	apiReach map[*ssa.Function]bool
	keyFns   map[*types.Func]bool // verified name-to-bit functions (namesrep.go)
	keyFuncs map[*facts.Level]map[string]*keyFunc
}

// callerInfo: who calls a function statically, and whether the function is
// also used as a value (stored, passed, bound as a method value), in which
// case its callers are not all known.
type callerInfo struct {
	Callers []*ssa.Function
	AsValue bool
}

// callersOf indexes the static call sites of every module function.
func (e *Env) callersOf(fn *ssa.Function) *callerInfo {
	if e.callers == nil {
		e.callers = map[*ssa.Function]*callerInfo{}
		get := func(f *ssa.Function) *callerInfo {
			ci := e.callers[f]
			if ci == nil {
				ci = &callerInfo{}
				e.callers[f] = ci
			}
			return ci
		}
		for _, caller := range e.F.Effects().All {
			for _, b := range caller.Blocks {
				for _, in := range b.Instrs {
					var inCallPos ssa.Value
					if ci, ok := in.(ssa.CallInstruction); ok {
						if callee := ci.Common().StaticCallee(); callee != nil {
							if _, isClosure := ci.Common().Value.(*ssa.MakeClosure); !isClosure {
								inCallPos = ci.Common().Value
							}
							targets := []*ssa.Function{callee}
							if o := callee.Origin(); o != nil && o != callee {
								targets = append(targets, o) // a call of an instance is a call of the generic function
							}
							for _, tgt := range targets {
								info := get(tgt)
								seen := false
								for _, c := range info.Callers {
									if c == caller {
										seen = true
									}
								}
								if !seen {
									info.Callers = append(info.Callers, caller)
								}
							}
						}
					}
					for _, op := range in.Operands(nil) {
						if op == nil || *op == nil {
							continue
						}
						if f, ok := (*op).(*ssa.Function); ok && (*op) != inCallPos {
							get(f).AsValue = true
							if o := f.Origin(); o != nil && o != f {
								get(o).AsValue = true
							}
						}
					}
				}
			}
		}
	}
	if ci := e.callers[fn]; ci != nil {
		return ci
	}
	return &callerInfo{}
}

// privateTo: fn is an unexported, top-level module function that is never used
// as a value and whose every static caller satisfies base or is itself
// privateTo base: it runs only on behalf of the base functions.
func (e *Env) privateTo(fn *ssa.Function, base func(*ssa.Function) bool) bool {
	return e.privateToRec(fn, base, map[*ssa.Function]bool{})
}

func (e *Env) privateToRec(fn *ssa.Function, base func(*ssa.Function) bool, busy map[*ssa.Function]bool) bool {
	if busy[fn] {
		return true // a cycle among helpers adds no outside caller
	}
	busy[fn] = true
	defer delete(busy, fn)
	if fn.Parent() != nil {
		// a function literal of a function table runs for the functions that look the table up and call the
		// element (ir/functab.go)
		callers, ok := ir.TableCallers(fn)
		if !ok {
			// an element of a literal table of rows: whoever can hold a function of its shape (ir/globals.go)
			callers, ok = ir.LiteralHolders(fn)
		}
		if !ok || len(callers) == 0 {
			return false
		}
		for _, c := range callers {
			if !base(c) && !e.privateToRec(c, base, busy) {
				return false
			}
		}
		return true
	}
	obj, _ := fn.Object().(*types.Func)
	if o := fn.Origin(); o != nil && o != fn && strings.HasPrefix(fn.Synthetic, "instantiation wrapper") {
		// an instance of a generic helper: private when the helper is one and every caller of this instance is
		oo, _ := o.Object().(*types.Func)
		if oo == nil || !load.IsHelper(oo) {
			return false
		}
		ci := e.callersOf(fn)
		if ci.AsValue || len(ci.Callers) == 0 {
			return false
		}
		for _, c := range ci.Callers {
			if c == fn || base(c) {
				continue
			}
			if !e.privateToRec(c, base, busy) {
				return false
			}
		}
		return true
	}
	if obj == nil || !load.IsHelper(obj) || fn.Synthetic != "" {
		return false
	}
	ci := e.callersOf(fn)
	if ci.AsValue || len(ci.Callers) == 0 {
		return false
	}
	for _, c := range ci.Callers {
		if c == fn || base(c) {
			continue
		}
		if !e.privateToRec(c, base, busy) {
			return false
		}
	}
	return true
}

type RuleFunc func(e *Env)

var Registry = map[string]RuleFunc{}

func register(id string, f RuleFunc) { Registry[id] = f }

func Props() []string {
	var out []string
	for k := range Registry {
		out = append(out, k)
	}
	sort.Strings(out)
	return out
}

// levels resolves both versions' struct types, reporting problems as violations.
func (e *Env) levels(rule string) (v3, v2 []*facts.Level) {
	get := func(v *spec.Version) []*facts.Level {
		ls, err := e.F.Levels(v)
		if err != nil {
			e.C.Undecided(rule, v.Pkg, "", err.Error())
			return nil
		}
		for _, l := range ls {
			for _, p := range l.Problems {
				e.C.Fail(rule, l.String(), e.P.Pos(l.Named.Obj().Pos()), p)
			}
		}
		return ls
	}
	return get(&spec.V3), get(&spec.V2)
}

func parseWeight(s string) float64 {
	f, err := strconv.ParseFloat(s, 64)
	if err != nil {
		panic("spec weight " + s + ": " + err.Error())
	}
	return f
}

// floatOf extracts the float64 the program sees for a constant value.
func floatOf(v facts.Value) (float64, bool) {
	if v.Kind != facts.VConst || v.C == nil {
		return 0, false
	}
	switch v.C.Kind() {
	case constant.Int, constant.Float:
		f, _ := constant.Float64Val(v.C)
		return f, true
	}
	return 0, false
}

func stringOf(v facts.Value) (string, bool) {
	if v.Kind != facts.VConst || v.C == nil || v.C.Kind() != constant.String {
		return "", false
	}
	return constant.StringVal(v.C), true
}

func boolOf(v facts.Value) (bool, bool) {
	if v.Kind != facts.VConst || v.C == nil || v.C.Kind() != constant.Bool {
		return false, false
	}
	return constant.BoolVal(v.C), true
}

// parsersOf returns the package-level functions  func(string) T .
func parsersOf(pkg *types.Package, t types.Type) []*types.Func {
	var out []*types.Func
	sc := pkg.Scope()
	for _, n := range sc.Names() {
		fn, ok := sc.Lookup(n).(*types.Func)
		if !ok {
			continue
		}
		sig := fn.Type().(*types.Signature)
		if sig.Recv() != nil || sig.Params().Len() != 1 || sig.Results().Len() != 1 {
			continue
		}
		if b, ok := sig.Params().At(0).Type().(*types.Basic); !ok || b.Kind() != types.String {
			continue
		}
		if types.Identical(sig.Results().At(0).Type(), t) {
			out = append(out, fn)
		}
	}
	return out
}

func fname(fn *types.Func) string { return load.FuncName(fn) }

func sortedKeys[M ~map[string]V, V any](m M) []string {
	var out []string
	for k := range m {
		out = append(out, k)
	}
	sort.Strings(out)
	return out
}

// codeOf evaluates T.String() on a value.
func (e *Env) codeOf(t types.Type, v facts.Value) (string, bool, string) {
	m := load.MethodOf(t, "String")
	if m == nil {
		return "", false, "type has no String method"
	}
	r := e.F.Eval(m, v)
	s, ok := stringOf(r)
	if !ok {
		return "", false, r.String()
	}
	return s, true, ""
}

// constByCode finds the declared constant of enum type t whose String() is code.
func (e *Env) constByCode(t types.Type, code string) (facts.Value, bool) {
	for _, v := range e.F.Domain(t) {
		if v.Kind != facts.VConst {
			continue
		}
		if s, ok, _ := e.codeOf(t, v); ok && s == code {
			return v, true
		}
	}
	return facts.Value{}, false
}

// inlineHelpers returns the predicate the path models use to expand calls in place: unexported
// functions and methods of the library packages (helpers a maintainer may extract), except the ones
// a rule needs to see as calls (the per-token decoders, the options constructor, the template helpers).
func (e *Env) inlineHelpers(except ...*types.Func) func(*ssa.Function) bool {
	skip := map[types.Object]bool{}
	for _, f := range except {
		if f != nil {
			skip[f] = true
		}
	}
	for _, v := range []*spec.Version{&spec.V3, &spec.V2} {
		if ls, err := e.F.Levels(v); err == nil {
			for _, l := range ls {
				if l.DecodeOne != nil {
					skip[l.DecodeOne] = true
				}
			}
		}
	}
	return func(fn *ssa.Function) bool {
		if fn.Pkg == nil && fn.Origin() != nil && len(fn.Blocks) > 0 {
			fn = fn.Origin() // an instance of a generic helper is a helper when the generic function is
		}
		if fn.Pkg == nil || fn.Parent() != nil || len(fn.Blocks) == 0 {
			return false
		}
		obj, _ := fn.Object().(*types.Func)
		if obj == nil || skip[obj] {
			return false
		}
		path := fn.Pkg.Pkg.Path()
		// functions of an internal package of the module are helpers whatever their spelling: not part of the API
		if load.IsModule(path) && (strings.Contains(path, "/internal/") || strings.HasSuffix(path, "/internal")) {
			return true
		}
		if !load.IsLib(path) {
			return false
		}
		if obj.Exported() {
			// a method of an unexported type is a helper whatever its own spelling (String() of a small private type)
			if sig, ok := obj.Type().(*types.Signature); ok && sig.Recv() != nil {
				rt := sig.Recv().Type()
				if pt, ok := rt.(*types.Pointer); ok {
					rt = pt.Elem()
				}
				if named, ok := rt.(*types.Named); ok && !named.Obj().Exported() {
					return true
				}
			}
			return false
		}
		return true
	}
}

// pathName names one path of a function by the conditions it assumes (not by the position of its return
// statement: several paths may share one after a refactoring, and the number of instances must not depend on that).
func (e *Env) pathName(who string, lf *ir.Leaf) string {
	gs := guardString(lf)
	if gs == "" {
		gs = "unconditional"
	}
	h := fnv.New32a()
	h.Write([]byte(gs))
	short := gs
	if len(short) > 90 {
		short = short[:90] + "..."
	}
	return fmt.Sprintf("%s path {%s}#%08x returning at %s", who, short, h.Sum32(), e.P.Pos(lf.Pos))
}

func init() {
	// the cvsserr sentinels: distinct errors.New values that are never reassigned (rules sentinel-distinct and
	// table-immutability decide that); a comparison of one of them with nil is therefore decided
	ir.NonNilGlobal = func(obj types.Object) bool {
		v, ok := obj.(*types.Var)
		return ok && v.Pkg() != nil && v.Pkg().Path() == load.ModPath+"/cvsserr" && types.Identical(v.Type(), errorType)
	}
}

// installAccessorPaths: the accessors BaseMetrics()/TemporalMetrics() that do return the embedded object of their
// receiver (every path: that object, or nil under receiver == nil) are read as the field path they stand for, so
// that x.BaseMetrics().Ver = v is a store to the base object's Ver like x.Base.Ver = v. An accessor that does
// anything else stays a call (and is reported by accessor-identity where that rule is kept).
func (e *Env) installAccessorPaths() {
	paths := map[*types.Func][]*types.Var{}
	ir.AccessorPath = nil
	for _, v := range []*spec.Version{&spec.V3, &spec.V2} {
		ls, err := e.F.Levels(v)
		if err != nil {
			continue
		}
		for _, l := range ls {
			for _, acc := range []string{"BaseMetrics", "TemporalMetrics"} {
				m := l.Method(acc)
				if m == nil {
					continue
				}
				var target *facts.Level
				for lv := l; lv != nil; lv = lv.Lower {
					if lv.Spec.Name+"Metrics" == acc {
						target = lv
					}
				}
				if target == nil {
					continue
				}
				path := []*types.Var{} // empty for the level itself: x.BaseMetrics() of a *Base is x
				want := ir.Param(0)
				for lv := l; lv != target; lv = lv.Lower {
					want = ir.Field(want, lv.Embedded)
					path = append(path, lv.Embedded)
				}
				sf := e.P.SSAFunc(m)
				if sf == nil {
					continue
				}
				leaves, err := ir.Leaves(sf, ir.LeafOptions{Forward: true})
				if err != nil || len(leaves) == 0 {
					continue
				}
				ok := true
				for _, lf := range leaves {
					if len(lf.Ret) != 1 {
						ok = false
						break
					}
					r := lf.Ret[0]
					if isNilConst(r) && hasGuard(lf, ir.Bin("==", ir.Param(0), nilOf(l.Ptr()))) {
						continue
					}
					if r.Key() != want.Key() {
						ok = false
					}
				}
				if ok {
					paths[m] = path
				}
			}
		}
	}
	ir.AccessorPath = func(fn *types.Func) ([]*types.Var, bool) {
		p, ok := paths[fn]
		return p, ok
	}
}

// tableModelProblems reports what the table model could not represent, for the tables a property's rules read
// (a package-level map of another kind - functions, structs - in another package is none of its business; a rule
// that does read such a table gets an invalid value and reports UNDECIDED itself).
func (e *Env) tableModelProblems(relevant func(t *facts.Table) bool) {
	for _, p := range e.F.TableProblems {
		if p.T == nil || relevant(p.T.Root()) {
			e.C.Fail("table-model", "package-level tables", "", p.Msg)
		}
	}
}

func tableInPkgs(t *facts.Table, rels ...string) bool {
	if t.Pkg == nil {
		return false
	}
	for _, r := range rels {
		if t.Pkg.PkgPath == load.ModPath+"/"+r {
			return true
		}
	}
	return false
}

// buildCoverage: a static check sees only what was parsed. Every non-test Go file of the six library packages
// must be part of the configuration analysed (no file left out by a GOOS/GOARCH/tag constraint), and the packages
// must not reach outside the analysed language (cgo, assembly, unsafe, reflection, go:linkname). Otherwise the verdict of any
// property would silently be about a different program than the one built elsewhere: reported as UNDECIDED.
func (e *Env) buildCoverage() {
	c := e.C
	for _, rel := range e.P.LibRels() {
		pk := e.P.Lib(rel)
		if pk == nil {
			continue
		}
		ok := true
		for _, f := range pk.IgnoredFiles {
			if strings.HasSuffix(f, "_test.go") || !strings.HasSuffix(f, ".go") {
				continue
			}
			ok = false
			c.Undecided("build-coverage", rel+"/"+filepath.Base(f), "", "this file is compiled only under another build configuration (GOOS/GOARCH/build tag) and is not part of the program analysed")
		}
		for _, f := range pk.OtherFiles {
			ok = false
			c.Undecided("build-coverage", rel+"/"+filepath.Base(f), "", "non-Go source file (assembly / C) in a library package")
		}
		for path := range pk.Imports {
			if path == "unsafe" || path == "C" || path == "reflect" || path == "plugin" {
				ok = false
				c.Undecided("build-coverage", rel+" imports "+path, "", "memory can be reached in ways the analysis does not model")
			}
		}
		for _, f := range pk.Syntax {
			for _, cg := range f.Comments {
				for _, cm := range cg.List {
					if strings.HasPrefix(cm.Text, "//go:linkname") {
						ok = false
						c.Undecided("build-coverage", rel+" "+e.P.Pos(cm.Pos()), e.P.Pos(cm.Pos()), "go:linkname binds a symbol outside the analysed program")
					}
				}
			}
		}
		if ok {
			c.Ok("build-coverage", rel, "", fmt.Sprintf("all %d non-test Go files of the package are part of the configuration analysed; no cgo, assembly, unsafe, reflect or go:linkname", len(pk.GoFiles)))
		}
	}
}

// propertyAPI: the operations the properties speak about (by name, per the specification of the library's
// behaviour - not a snapshot of today's method sets). Code that is not reachable from any of them - a new
// convenience method such as Clone or Equal - cannot change what they return by merely READING state.
var propertyAPI = map[string]bool{
	"Decode": true, "Encode": true, "String": true, "Score": true, "Severity": true, "GetError": true,
	"IsEmpty": true, "BaseMetrics": true, "TemporalMetrics": true, "Value": true,
	"NewBase": true, "NewTemporal": true, "NewEnvironmental": true, "ExportWith": true, "ExportWithString": true,
	"GetVersion": true,
}

// reachableFromAPI: every module function reachable (static calls, resolved dynamic calls, closures) from an
// exported function or method named in propertyAPI, from any exported function of the report and names
// packages, or from a package initialiser.
func (e *Env) reachableFromAPI() map[*ssa.Function]bool {
	if e.apiReach != nil {
		return e.apiReach
	}
	ef := e.F.Effects()
	reach := map[*ssa.Function]bool{}
	var visit func(fn *ssa.Function)
	visit = func(fn *ssa.Function) {
		if fn == nil || reach[fn] {
			return
		}
		reach[fn] = true
		for _, af := range fn.AnonFuncs {
			visit(af)
		}
		fe := ef.Funcs[fn]
		if fe == nil {
			return
		}
		for _, cs := range fe.Calls {
			visit(cs.Callee)
			for _, t := range cs.Targets {
				visit(t)
			}
		}
	}
	for _, fn := range ef.All {
		if fn.Pkg == nil || fn.Parent() != nil {
			continue
		}
		if fn.Synthetic != "" {
			if fn.Name() == "init" {
				visit(fn)
			}
			continue
		}
		obj, _ := fn.Object().(*types.Func)
		if obj == nil {
			continue
		}
		path := fn.Pkg.Pkg.Path()
		switch {
		case strings.HasPrefix(obj.Name(), "init"):
			visit(fn)
		case obj.Exported() && (propertyAPI[obj.Name()] || strings.HasPrefix(obj.Name(), "Get")):
			visit(fn)
		case obj.Exported() && (path == load.ModPath+"/v3/report/names"):
			visit(fn)
		}
	}
	e.apiReach = reach
	return reach
}
