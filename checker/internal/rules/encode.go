package rules

import (
	"fmt"
	"go/constant"
	"go/types"
	"strings"

	"cvsslint/internal/facts"
	"cvsslint/internal/ir"
)

// emission is one piece of text an Encode path appends.
type emission struct {
	kind   string // metric | version | lower
	name   string // metric name constant's value ("AV"), "CVSS" for the version
	field  *types.Var
	format string
	term   *ir.Term
}

// key identifies an emission across paths by what it prints (kind, name, field), not by how the text is put
// together on a particular path (the separator in front of it may differ).
func (em emission) key() string {
	f := ""
	if em.field != nil {
		f = em.field.Name()
	}
	return em.kind + "|" + em.name + "|" + f
}

// emissionsOf extracts the ordered emissions of one Encode path.
func (e *Env) emissionsOf(l *facts.Level, lf *ir.Leaf) (list []emission, builder bool, err error) {
	if len(lf.Ret) != 2 {
		return nil, false, fmt.Errorf("not a two-result function")
	}
	r := lf.Ret[0]
	var pieces []*ir.Term
	switch {
	case isCallOf(r, "strings.Join"):
		if len(r.Args) != 2 || !isStringConst(r.Args[1], "/") {
			return nil, false, fmt.Errorf("strings.Join with a separator other than \"/\"")
		}
		var err error
		pieces, err = flattenSlice(r.Args[0], 0)
		if err != nil {
			return nil, false, err
		}
	case isCallOf(r, "(*strings.Builder).String") || r.Op == "concat":
		// a strings.Builder, one concatenation, or a mixture (lower-level text + builder.String())
		builder = true
		stream, err := e.textStream(l, lf, r, 0)
		if err != nil {
			return nil, true, err
		}
		pieces, err = groupStream(stream)
		if err != nil {
			return nil, true, err
		}
	case isCallOf(r, "strings.TrimPrefix") && len(r.Args) == 2 && isStringConst(r.Args[1], "/"):
		// every element written as "/NAME:value" and the first separator cut off again: strings.Join(parts, "/")
		stream, err := e.textStream(l, lf, r.Args[0], 0)
		if err != nil {
			return nil, false, err
		}
		ps, err := groupStream(stream)
		if err != nil {
			return nil, false, err
		}
		for _, p := range ps {
			if p.Op != "concat" || len(p.Args) != 2 || !isStrConstTerm(p.Args[0]) || !strings.HasPrefix(constant.StringVal(p.Args[0].C), "/") {
				return nil, false, fmt.Errorf("strings.TrimPrefix(text, \"/\") over text whose elements do not all start with the separator: %s", clip(p.Pretty()))
			}
			q := ir.Concat(ir.Const(constant.MakeString(constant.StringVal(p.Args[0].C)[1:]), types.Typ[types.String]), p.Args[1])
			q.Pos = p.Pos
			pieces = append(pieces, q)
		}
	case r.Op == ir.OConst && r.C != nil && r.C.Kind() == constant.String:
		return nil, false, nil // constant text (error paths)
	default:
		return nil, false, fmt.Errorf("the encoded text is neither strings.Join(parts, \"/\") nor a strings.Builder: %s", clip(r.Pretty()))
	}
	for _, p := range pieces {
		em := emission{term: p}
		switch {
		case isCallOf(p, "fmt.Sprintf") && len(p.Args) == 2 && p.Args[1].Op == "list" && len(p.Args[1].Args) == 2 && p.Args[0].Op == ir.OConst && p.Args[0].C != nil:
			em.format = constant.StringVal(p.Args[0].C)
			n, v := p.Args[1].Args[0], p.Args[1].Args[1]
			if n.Op != ir.OConst || n.C == nil || n.C.Kind() != constant.String {
				return nil, builder, fmt.Errorf("the name part of an emission is not a constant: %s", clip(p.Pretty()))
			}
			em.name = constant.StringVal(n.C)
			if v.Op != ir.OField {
				return nil, builder, fmt.Errorf("the value part of an emission is not a field of the object: %s", clip(p.Pretty()))
			}
			em.field, _ = v.Obj.(*types.Var)
			em.kind = "metric"
			// the field must be selected from the receiver at this level (or Ver of the base object)
			if v.Args[0].Op != ir.OParam || v.Args[0].N != 0 {
				if !(l.VerField == nil && em.field != nil && em.field.Name() == "Ver") {
					return nil, builder, fmt.Errorf("emission prints a field of another object: %s", clip(p.Pretty()))
				}
			}
			if em.field != nil && em.field.Name() == "Ver" {
				em.kind = "version"
			}
		case p.Op == "concat" && len(p.Args) == 2 && isStrConstTerm(p.Args[0]) && (p.Args[1].Op == ir.OCall || p.Args[1].Op == "invoke") && len(p.Args[1].Args) == 1 && p.Args[1].Args[0].Op == ir.OField && isStringMethod(p.Args[1]):
			// "NAME:" + field.String()  prints what  Sprintf("%s:%v", NAME, field)  prints (%v of a Stringer is its String())
			txt := constant.StringVal(p.Args[0].C)
			em.format = "%s:%v"
			if strings.HasPrefix(txt, "/") {
				em.format = "/%s:%v"
				txt = txt[1:]
			}
			if !strings.HasSuffix(txt, ":") || strings.ContainsAny(txt[:len(txt)-1], ":/") || len(txt) < 2 {
				return nil, builder, fmt.Errorf("unrecognised emission: %s", clip(p.Pretty()))
			}
			em.name = txt[:len(txt)-1]
			v := p.Args[1].Args[0]
			em.field, _ = v.Obj.(*types.Var)
			em.kind = "metric"
			if v.Args[0].Op != ir.OParam || v.Args[0].N != 0 {
				if !(l.VerField == nil && em.field != nil && em.field.Name() == "Ver") {
					return nil, builder, fmt.Errorf("emission prints a field of another object: %s", clip(p.Pretty()))
				}
			}
			if em.field != nil && em.field.Name() == "Ver" {
				em.kind = "version"
			}
		case l.Lower != nil && p.Op == ir.OExtract && p.N == 0 && len(p.Args) == 1 && p.Args[0].Op == ir.OCall && p.Args[0].Obj == types.Object(l.Lower.Method("Encode")):
			em.kind = "lower"
		case l.Lower != nil && p.Op == ir.OCall && p.Obj == types.Object(l.Lower.Method("String")):
			em.kind = "lower"
		default:
			return nil, builder, fmt.Errorf("unrecognised emission: %s", clip(p.Pretty()))
		}
		if em.kind == "lower" {
			call := p
			if p.Op == ir.OExtract {
				call = p.Args[0]
			}
			if len(call.Args) != 1 || call.Args[0].Key() != ir.Field(ir.Param(0), l.Embedded).Key() {
				return nil, builder, fmt.Errorf("the lower-level text is not taken from the embedded object")
			}
		}
		list = append(list, em)
	}
	return list, builder, nil
}

// encodeRules decides C10's emission-list obligations for one level.
func (e *Env) encodeRules(l *facts.Level) {
	c := e.C
	enc := l.Method("Encode")
	if enc == nil {
		c.Fail("encode-emissions", l.String()+".Encode", "", "method not found")
		return
	}
	who := fname(enc)
	pos := e.P.Pos(enc.Pos())
	if l.Names == nil {
		c.Undecided("encode-emissions", who, pos, l.NamesProblem)
		return
	}
	sf := e.P.SSAFunc(enc)
	leaves, err := ir.Leaves(sf, ir.LeafOptions{Forward: true, Effects: true, MaxPaths: 20000, Inline: e.inlineHelpers()})
	if err != nil {
		c.Undecided("encode-emissions", who, pos, err.Error())
		return
	}
	leaves, badRep := e.canonNames(l, leaves)
	for _, why := range badRep {
		c.Undecided("encode-emissions", who+" names representation", pos, why)
	}
	if l.Embedded != nil {
		// the embedded lower object of an object that comes from a constructor is never nil (constructor-fresh: the
		// constructor allocates it; write-ownership: nobody else sets the field): a path that needs it to be nil
		// (if m.Base != nil { write m.Base.String() }) is not a path of such an object
		embNil := ir.Bin("==", ir.Field(ir.Param(0), l.Embedded), nilOf(l.Embedded.Type()))
		var kept []*ir.Leaf
		for _, lf := range leaves {
			if !hasGuard(lf, embNil) {
				kept = append(kept, lf)
			}
		}
		leaves = kept
	}
	v3 := l.Version.Name == "v3"
	recvNonNil := ir.Bin("!=", ir.Param(0), nilOf(l.Ptr()))
	ge := l.Method("GetError")
	geCall := ir.Call(ge, ir.Param(0))
	namesMap := ir.Field(ir.Param(0), l.Names)
	nameGuard := func(n string) *ir.Term {
		return &ir.Term{Op: ir.OLookup, Args: []*ir.Term{namesMap, ir.Const(constant.MakeString(n), types.Typ[types.String])}}
	}
	type pathInfo struct {
		lf   *ir.Leaf
		list []emission
	}
	var paths []pathInfo
	var full *pathInfo
	okAll := true
	for _, lf := range leaves {
		cons := fmt.Sprintf("%s path returning at %s", who, e.P.Pos(lf.Pos))
		if !hasGuard(lf, recvNonNil) {
			// nil receiver: ("", error)
			_, _, isWrap := sentinelOf(lf.Ret[1])
			ok := isStringConst(lf.Ret[0], "") && isWrap
			c.Check(ok, "encode-nil", cons, e.P.Pos(lf.Pos), `nil receiver: ("", errs.Wrap(sentinel))`, "a nil receiver does not yield (\"\", error)")
			continue
		}
		// error result = own-level GetError (possibly wrapped)
		er := lf.Ret[1]
		_, inner, isWrap := sentinelOf(er)
		okErr := er.Key() == geCall.Key() || (isWrap && inner != nil && inner.Key() == geCall.Key())
		if !okErr && isNilConst(er) && hasGuard(lf, ir.Bin("==", geCall, nilOf(errorType))) {
			// nil on a path that saw GetError() == nil: the same value (GetError is a pure query and Encode writes nothing: pure-query)
			okErr = true
		}
		if !okErr {
			okAll = false
			c.Fail("encode-error", cons, e.P.Pos(lf.Pos), "the error result is not the own-level GetError(): "+clip(er.Pretty()))
		}
		if isStringConst(lf.Ret[0], "") {
			// early exit with empty text: only allowed when GetError() != nil
			ok := hasGuard(lf, ir.Bin("!=", geCall, nilOf(errorType)))
			c.Check(ok, "encode-error", cons, e.P.Pos(lf.Pos), "empty text only when the object is invalid", "returns empty text for an object whose GetError() was not seen to be non-nil")
			continue
		}
		list, _, err := e.emissionsOf(l, lf)
		if err != nil {
			okAll = false
			c.Undecided("encode-emissions", cons, e.P.Pos(lf.Pos), err.Error())
			continue
		}
		paths = append(paths, pathInfo{lf, list})
		if full == nil || len(list) > len(full.list) {
			p := paths[len(paths)-1]
			full = &p
		}
	}
	if full == nil {
		c.Fail("encode-emissions", who, pos, "no path produces text")
		return
	}
	if okAll {
		c.Ok("encode-error", who, pos, "every path returns the own-level GetError() as its error")
	}
	// the full list against the specification order
	var want []string
	if l.Lower != nil {
		want = append(want, "<lower>")
	} else if v3 {
		want = append(want, "CVSS")
	}
	want = append(want, l.Spec.Names()...)
	var got []string
	for _, em := range full.list {
		switch em.kind {
		case "lower":
			got = append(got, "<lower>")
		default:
			got = append(got, em.name)
		}
	}
	c.Check(strings.Join(got, " ") == strings.Join(want, " "), "encode-order", who, pos, "emits "+strings.Join(want, " ")+" in specification order", fmt.Sprintf("emission order is [%s], the specification order is [%s]", strings.Join(got, " "), strings.Join(want, " ")))
	// each emission: name = field name, format, guard
	sepFmt := map[bool][]string{false: {"%v:%v", "%s:%v"}, true: {"/%v:%v", "/%s:%v"}}
	_, isBuilder, _ := e.emissionsOf(l, full.lf)
	for _, em := range full.list {
		if em.kind == "lower" {
			c.Ok("encode-emission", who+" lower-level text first", e.P.Pos(em.term.Pos), "the embedded level's own Encode()/String() on the embedded object")
			continue
		}
		cons := fmt.Sprintf("%s emission %s", who, em.name)
		epos := e.P.Pos(em.term.Pos)
		// separators: strings.Join puts them between the parts (no part carries one); text written piece by piece
		// carries a "/" in front of every element that follows something (the lower level's text, or an earlier
		// element of the same path - the if b.Len() > 0 idiom), and none in front of the very first
		okFmt := true
		for _, p := range paths {
			for i, x := range p.list {
				if x.key() != em.key() {
					continue
				}
				wantSlash := isBuilder && i > 0
				good := false
				for _, f := range sepFmt[wantSlash] {
					if x.format == f {
						good = true
					}
				}
				if !good {
					okFmt = false
				}
			}
		}
		if !okFmt {
			c.Fail("encode-emission", cons, epos, fmt.Sprintf("format %q does not print 'name:value' with the separator the construction needs", em.format))
			continue
		}
		// what %v prints for the value is decided by the type's method set: fmt prefers Format, then Error,
		// then String - and only methods with a value receiver are seen, because the field is passed by value
		if em.field != nil {
			ms := types.NewMethodSet(em.field.Type())
			hasString := false
			bad := ""
			for i := 0; i < ms.Len(); i++ {
				fn, _ := ms.At(i).Obj().(*types.Func)
				if fn == nil {
					continue
				}
				switch fn.Name() {
				case "String":
					sig := fn.Type().(*types.Signature)
					hasString = sig.Params().Len() == 0 && sig.Results().Len() == 1 && types.Identical(sig.Results().At(0).Type(), types.Typ[types.String])
				case "Format", "Error":
					bad = fn.Name()
				}
			}
			c.Check(hasString && bad == "", "encode-emission", cons+" printer", epos, "%v of the field prints its String() (value receiver; no Format/Error method takes precedence)", fmt.Sprintf("%%v of field %s does not print its code: String() with a value receiver present=%v, method taking precedence: %q", em.field.Name(), hasString, bad))
		}
		if em.kind == "version" {
			ok := em.name == "CVSS"
			c.Check(ok, "encode-emission", cons, epos, "CVSS:<Ver>", "the prefix is not CVSS:<Ver>")
		} else {
			own := l.ByName[em.name]
			c.Check(em.field != nil && em.field == own, "encode-emission", cons, epos, "prints field "+em.name+" under the name "+em.name, fmt.Sprintf("the name %s is printed with field %s", em.name, varName(em.field)))
		}
		// guard: present on exactly the paths where the guard holds
		var g *ir.Term
		switch {
		case em.kind == "version":
			for _, x := range e.validGuards(l, l.VerField) {
				if hasGuard(full.lf, x) {
					g = x
				}
			}
		case l.Lower == nil || !v3:
			g = nameGuard(em.name) // v3 base and all v2 levels: emitted iff recorded in names
		}
		in := 0
		consistent := true
		for _, p := range paths {
			has := false
			for _, x := range p.list {
				if x.key() == em.key() {
					has = true
				}
			}
			if has {
				in++
			}
			if g != nil {
				if has != hasGuard(p.lf, g) {
					consistent = false
				}
			} else if !has {
				consistent = false
			}
		}
		if g != nil {
			c.Check(consistent, "encode-guard", cons, epos, "emitted exactly when "+g.Pretty(), "emission is not controlled by "+g.Pretty()+" on every path")
		} else {
			c.Check(consistent, "encode-guard", cons, epos, "emitted unconditionally (X spelled out when undefined)", "a temporal/environmental metric is not emitted on every path: an omitted metric would disappear from the encoding")
		}
	}
	// every path's list is a subsequence of the full list (order never changes)
	for _, p := range paths {
		i := 0
		for _, x := range p.list {
			for i < len(full.list) && full.list[i].key() != x.key() {
				i++
			}
			if i == len(full.list) {
				c.Fail("encode-order", fmt.Sprintf("%s path returning at %s", who, e.P.Pos(p.lf.Pos)), e.P.Pos(p.lf.Pos), "a path emits metrics in a different order than the full path")
				break
			}
			i++
		}
	}
	// String() = first result of own Encode()
	if s := l.Method("String"); s != nil {
		ls, err := ir.Leaves(e.P.SSAFunc(s), ir.LeafOptions{Inline: e.inlineHelpers()})
		ok := err == nil && len(ls) >= 1
		for _, lf := range ls {
			if !ok || len(lf.Ret) != 1 {
				ok = false
				break
			}
			r := lf.Ret[0]
			switch {
			case r.Op == ir.OExtract && r.N == 0 && r.Args[0].Key() == ir.Call(enc, ir.Param(0)).Key():
			case isStringConst(r, "") && hasGuard(lf, ir.Bin("==", ir.Param(0), nilOf(l.Ptr()))):
				// "" for a nil receiver: what Encode returns for it (rule encode-nil)
			default:
				ok = false
			}
		}
		c.Check(ok, "string-is-encode", fname(s), e.P.Pos(s.Pos()), "returns the first result of the own-level Encode()", "String() is not the text of the own-level Encode()")
	} else {
		c.Fail("string-is-encode", l.String()+".String", "", "method not found")
	}
}

func isStrConstTerm(t *ir.Term) bool {
	return t.Op == ir.OConst && t.C != nil && t.C.Kind() == constant.String
}

// isStringMethod: the call is the String() string method of its receiver's own type (fmt's %v uses exactly that),
// called directly or through an interface value holding the receiver (fmt.Stringer): the dynamic type of a field
// stored in an interface is the field's type, whose method set the printer rule inspects.
func isStringMethod(t *ir.Term) bool {
	fn, _ := t.Obj.(*types.Func)
	if fn == nil || fn.Name() != "String" {
		return false
	}
	sig := fn.Type().(*types.Signature)
	return sig.Recv() != nil && sig.Params().Len() == 0 && sig.Results().Len() == 1 && types.Identical(sig.Results().At(0).Type(), types.Typ[types.String])
}

func calleeName(t *ir.Term) string {
	if fn, _ := t.Obj.(*types.Func); fn != nil {
		return fn.FullName()
	}
	return ""
}

// flattenSlice: the elements of a []string value whose construction is spelled out on the path: a literal, nil or
// an empty fresh slice, append(s, e...) of such values - where what is appended may itself be such a slice
// (append(head, helper(...)...)).
func flattenSlice(t *ir.Term, depth int) ([]*ir.Term, error) {
	if depth > 64 {
		return nil, fmt.Errorf("slice built through too many appends")
	}
	switch {
	case t.Op == "list":
		return append([]*ir.Term{}, t.Args...), nil
	case t.Op == ir.OBuiltin && t.Str == "append" && len(t.Args) == 2:
		head, err := flattenSlice(t.Args[0], depth+1)
		if err != nil {
			return nil, err
		}
		tail, err := flattenSlice(t.Args[1], depth+1)
		if err != nil {
			return nil, err
		}
		return append(head, tail...), nil
	case t.Op == ir.OBuiltin && t.Str == "append":
		return nil, fmt.Errorf("append of other than one slice of elements")
	case t.Op == ir.OConst && t.C == nil, t.Op == ir.OAlloc, t.Op == ir.OAddr, t.Op == ir.OSlice:
		return nil, nil // nil, or a fresh empty slice ([]string{} is a slice of a zero-length allocation)
	}
	return nil, fmt.Errorf("the list of parts is not spelled out on this path: %s", clip(t.Pretty()))
}

// groupStream turns the sequence of strings written to the text into emissions: a piece that is already one
// (Sprintf(...), the lower level's text) stays; a constant "...NAME:" followed by a value's String() becomes the
// concatenation of the two; nested concatenations are flattened and adjacent constants joined first.
func groupStream(stream []*ir.Term) ([]*ir.Term, error) {
	var flat []*ir.Term
	for _, t := range stream {
		if t.Op == "concat" {
			flat = append(flat, t.Args...)
		} else {
			flat = append(flat, t)
		}
	}
	var merged []*ir.Term
	for _, t := range flat {
		if n := len(merged); n > 0 && isStrConstTerm(merged[n-1]) && isStrConstTerm(t) {
			merged[n-1] = ir.Const(constant.MakeString(constant.StringVal(merged[n-1].C)+constant.StringVal(t.C)), types.Typ[types.String])
			continue
		}
		merged = append(merged, t)
	}
	var out []*ir.Term
	for i := 0; i < len(merged); i++ {
		t := merged[i]
		if isStrConstTerm(t) {
			if i+1 < len(merged) && (merged[i+1].Op == ir.OCall || merged[i+1].Op == "invoke") && isStringMethod(merged[i+1]) {
				p := ir.Concat(t, merged[i+1])
				p.Pos = merged[i+1].Pos
				out = append(out, p)
				i++
				continue
			}
			// constant text in front of Sprintf(format, ...) is Sprintf(text+format, ...) ("/" + e.String())
			if i+1 < len(merged) && isCallOf(merged[i+1], "fmt.Sprintf") && len(merged[i+1].Args) >= 1 && isStrConstTerm(merged[i+1].Args[0]) {
				sp := merged[i+1]
				pre := strings.ReplaceAll(constant.StringVal(t.C), "%", "%%")
				args := append([]*ir.Term{ir.Const(constant.MakeString(pre+constant.StringVal(sp.Args[0].C)), types.Typ[types.String])}, sp.Args[1:]...)
				p := ir.Rebuild(sp, args)
				p.Pos = sp.Pos
				out = append(out, p)
				i++
				continue
			}
			return nil, fmt.Errorf("constant text %s is written that is not the name part of an emission", t.Pretty())
		}
		out = append(out, t)
	}
	return out, nil
}

// textStream flattens the text t denotes into the sequence of strings it is made of: the operands of a
// concatenation, and for builder.String() the strings written to that builder on this path, in order.
func (e *Env) textStream(l *facts.Level, lf *ir.Leaf, t *ir.Term, depth int) ([]*ir.Term, error) {
	if depth > 4 {
		return nil, fmt.Errorf("text built through too many layers")
	}
	switch {
	case t.Op == "concat":
		var out []*ir.Term
		for _, a := range t.Args {
			s, err := e.textStream(l, lf, a, depth+1)
			if err != nil {
				return nil, err
			}
			out = append(out, s...)
		}
		return out, nil
	case isCallOf(t, "(*strings.Builder).String") && len(t.Args) == 1:
		bobj := t.Args[0].Key()
		var stream []*ir.Term
		for _, ef := range lf.Effects {
			if ef.Kind != "call" || ef.Val.Op != ir.OCall || len(ef.Val.Args) == 0 {
				continue
			}
			onBuilder := ef.Val.Args[0].Key() == bobj
			switch {
			case isCallOf(ef.Val, "(*strings.Builder).WriteString") && len(ef.Val.Args) == 2 && onBuilder:
				s, err := e.textStream(l, lf, ef.Val.Args[1], depth+1)
				if err != nil {
					return nil, err
				}
				stream = append(stream, s...)
			case (isCallOf(ef.Val, "(*strings.Builder).WriteByte") || isCallOf(ef.Val, "(*strings.Builder).WriteRune")) && len(ef.Val.Args) == 2 && onBuilder:
				ch := ef.Val.Args[1]
				if ch.Op == ir.OConv && len(ch.Args) == 1 {
					ch = ch.Args[0]
				}
				v, ok := int64Const(ch)
				if !ok || v < 0 || v > 0x10FFFF {
					return nil, fmt.Errorf("a non-constant character is written to the text")
				}
				stream = append(stream, ir.Const(constant.MakeString(string(rune(v))), types.Typ[types.String]))
			case isCallOf(ef.Val, "fmt.Fprintf") && len(ef.Val.Args) == 3 && onBuilder:
				// fmt.Fprintf(&builder, format, args...) writes the same text as WriteString(fmt.Sprintf(format, args...))
				sp := e.externFunc(l.Pkg.Types, "fmt", "Sprintf")
				if sp == nil {
					return nil, fmt.Errorf("fmt.Sprintf not resolvable")
				}
				p := ir.Call(sp, ef.Val.Args[1], ef.Val.Args[2])
				p.Pos = ef.Val.Pos
				stream = append(stream, p)
			case (isCallOf(ef.Val, "(*strings.Builder).Grow") || isCallOf(ef.Val, "(*strings.Builder).Len")) && onBuilder:
				// capacity / length only
			case onBuilder && strings.HasPrefix(calleeName(ef.Val), "(*strings.Builder).") && !isCallOf(ef.Val, "(*strings.Builder).String"):
				return nil, fmt.Errorf("unexpected operation on the builder: %s", clip(ef.Val.Pretty()))
			}
		}
		return stream, nil
	}
	return []*ir.Term{t}, nil
}
