package rules

import (
	"fmt"
	"go/token"
	"go/types"
	"sort"
	"strings"

	"cvsslint/internal/facts"
	"cvsslint/internal/ir"
	"cvsslint/internal/load"
	"cvsslint/internal/spec"

	"golang.org/x/tools/go/ssa"
)

func init() {
	register("C15", c15)
	register("C16", c16)
	register("C19", c19)
}

// queryFunctions lists the functions that must not modify anything: every
// function and method of the library packages except the decoders'
// Decode/decodeOne (which write their own receiver), the constructors, the
// functional option closure and package initialisers.
func (e *Env) queryFunctions() (queries, decoders []*ssa.Function) {
	perToken := map[types.Object]bool{}
	for _, v := range []*spec.Version{&spec.V3, &spec.V2} {
		if ls, err := e.F.Levels(v); err == nil {
			for _, l := range ls {
				if l.DecodeOne != nil {
					perToken[l.DecodeOne] = true
				}
			}
		}
	}
	for _, fn := range e.F.Effects().All {
		if fn.Pkg == nil || !load.IsLib(fn.Pkg.Pkg.Path()) || fn.Synthetic != "" {
			continue
		}
		if fn.Parent() != nil {
			continue // closures are accounted for at their call sites
		}
		name := fn.Name()
		isDecoder := func(f *ssa.Function) bool {
			return f.Signature.Recv() != nil && (f.Name() == "Decode" || perToken[f.Object()])
		}
		switch {
		case strings.HasPrefix(name, "init"):
			continue
		case isDecoder(fn):
			decoders = append(decoders, fn)
		case e.privateTo(fn, isDecoder):
			// a helper that runs only on behalf of the decoders: what it writes is attributed to
			// them through the transitive effects (and would be attributed to a query if one ever called it)
			continue
		case !e.reachableFromAPI()[fn]:
			// not one of the operations the property names (scoring, severity, validity, encoding, string
			// conversion, accessors, report construction) nor reachable from one: an additional entry point
			// such as UnmarshalText or Clone. Writes to package-level state are still reported for every
			// function of the module by table-immutability.
			continue
		default:
			queries = append(queries, fn)
		}
	}
	return
}

// pureQueries: E1.
func (e *Env) pureQueries(rule string) {
	c := e.C
	ef := e.F.Effects()
	queries, decoders := e.queryFunctions()
	for _, fn := range queries {
		fe := ef.Funcs[fn]
		cons := fn.String()
		pos := e.P.Pos(fn.Pos())
		ok := true
		for _, u := range fe.Undecided {
			ok = false
			c.Undecided(rule, cons, pos, u)
		}
		obj, _ := fn.Object().(*types.Func)
		unexported := obj != nil && load.IsHelper(obj)
		for _, w := range fe.Writes {
			// an unexported function writing through one of its parameters (a helper appending to the builder it is
			// handed) acts on behalf of its callers: the write is attributed to them - to a local of theirs, or to
			// their own receiver/parameter, where it is reported if they are queries. Writes to globals stay here.
			if unexported && w.Root.Kind == facts.RParam && !(fn.Signature.Recv() != nil && w.Root.Param == 0) {
				continue
			}
			// likewise an unexported method filling in its receiver (a constructor's helper): every caller is in the
			// package and carries the write on its own argument - unless the method escapes as a value
			if unexported && w.Root.Kind == facts.RParam {
				if ci := e.callersOf(fn); ci != nil && !ci.AsValue && len(ci.Callers) > 0 {
					continue
				}
			}
			// tolerated: consuming the caller's io.Reader in ExportWith / getTempleteString
			if strings.HasPrefix(w.Kind, "extern:io.Copy") || strings.HasPrefix(w.Kind, "extern:io.ReadAll") {
				if w.Root.Kind == facts.RParam && e.paramIsReader(fn, w.Root.Param) {
					continue
				}
			}
			// tolerated: writing text to an io.Writer the caller passes for exactly that purpose
			if strings.HasPrefix(w.Kind, "extern:") && w.Root.Kind == facts.RParam && e.paramIsWriter(fn, w.Root.Param) {
				continue
			}
			// tolerated: newOptions applying caller-supplied options to its own fresh options value is local (dropped already)
			ok = false
			c.Fail(rule, cons, e.P.Pos(w.Pos), "a query modifies memory it did not allocate: "+ef.Describe(w))
		}
		if ok {
			c.Ok(rule, cons, pos, "no store, map update or mutating call reaches receiver-, parameter- or package-level memory (transitively)")
		}
	}
	// decoders write only memory reachable from their own receiver
	for _, fn := range decoders {
		fe := ef.Funcs[fn]
		cons := fn.String()
		ok := true
		for _, u := range fe.Undecided {
			ok = false
			c.Undecided(rule, cons, e.P.Pos(fn.Pos()), u)
		}
		for _, w := range fe.Writes {
			if w.Root.Kind == facts.RParam && w.Root.Param == 0 {
				continue
			}
			ok = false
			c.Fail(rule, cons, e.P.Pos(w.Pos), "a decoder writes memory other than its own receiver's object: "+ef.Describe(w))
		}
		if ok {
			c.Ok(rule, cons, e.P.Pos(fn.Pos()), "writes only memory reachable from its own receiver (or a fresh object)")
		}
	}
	c.Analysed["query_functions"] = len(queries)
	c.Analysed["decoder_functions"] = len(decoders)
}

// paramIsWriter: parameter i of fn is declared as the interface io.Writer.
func (e *Env) paramIsWriter(fn *ssa.Function, i int) bool {
	if i < 0 || i >= len(fn.Params) {
		return false
	}
	named, ok := fn.Params[i].Type().(*types.Named)
	if !ok || named.Obj().Pkg() == nil {
		return false
	}
	_, isIface := named.Underlying().(*types.Interface)
	return isIface && named.Obj().Pkg().Path() == "io" && named.Obj().Name() == "Writer"
}

func (e *Env) paramIsReader(fn *ssa.Function, i int) bool {
	if i < 0 || i >= len(fn.Params) {
		return false
	}
	return fn.Params[i].Type().String() == "io.Reader"
}

var pureStd = map[string]bool{
	"fmt": true, "math": true, "strings": true, "strconv": true, "io": true, "bytes": true, "text/template": true, "errors": true,
	"sort": true, "slices": true, "maps": true, "unicode": true, "unicode/utf8": true, "regexp": true, "bufio": true, "math/bits": true,
	"math/big": true, "cmp": true, "iter": true, "html": true, "encoding/json": true, "encoding/hex": true, "encoding/base64": true,
	"path": true, "unicode/utf16": true, "container/list": true, "hash/fnv": true, "html/template": true, "io/ioutil": true, "strings/": true,
	"github.com/goark/errs": true, "golang.org/x/text/language": true,
	"encoding": true, "encoding/xml": true, "encoding/csv": true, "encoding/binary": true, "text/tabwriter": true, "hash": true, "hash/crc32": true,
	"crypto/sha256": true, "crypto/md5": true, "database/sql/driver": true, "unicode/norm": true, "golang.org/x/text/unicode/norm": true,
}

var impureStd = map[string]string{
	"time": "wall clock", "math/rand": "random numbers", "math/rand/v2": "random numbers", "crypto/rand": "random numbers",
	"os": "process state", "sync": "shared mutable state", "sync/atomic": "shared mutable state", "unsafe": "unchecked memory access",
	"reflect": "reflection", "runtime": "scheduler/runtime state", "os/signal": "signals", "net": "network", "net/http": "network", "context": "cancellation",
}

// determinism: E4.
func (e *Env) determinism(rule string, concurrency bool) {
	c := e.C
	for _, rel := range e.P.LibRels() {
		pk := e.P.Lib(rel)
		var imps []string
		for _, imp := range pk.Types.Imports() {
			imps = append(imps, imp.Path())
		}
		sort.Strings(imps)
		for _, ip := range imps {
			cons := rel + " imports " + ip
			switch {
			case load.IsModule(ip), pureStd[ip]:
				c.Ok(rule, cons, "", "deterministic, stateless dependency")
			case impureStd[ip] != "":
				c.Fail(rule, cons, "", "library package imports "+ip+" ("+impureStd[ip]+"): results may depend on something other than the vector")
			default:
				c.Undecided(rule, cons, "", "import is in neither the allow-list nor the deny-list of the determinism rule")
			}
		}
	}
	// map iteration only as an order-independent reverse look-up; no goroutines / channels
	for _, fn := range e.F.Effects().All {
		if fn.Pkg == nil || !load.IsLib(fn.Pkg.Pkg.Path()) || fn.Synthetic != "" {
			continue
		}
		nRange := 0
		for _, b := range fn.Blocks {
			for _, in := range b.Instrs {
				switch x := in.(type) {
				case *ssa.Range:
					if _, ok := x.X.Type().Underlying().(*types.Map); ok {
						nRange++
					}
				case *ssa.Go:
					c.Fail(rule, fn.String()+" go statement", e.P.Pos(x.Pos()), "library code starts a goroutine")
				case *ssa.Send, *ssa.Select, *ssa.MakeChan:
					c.Fail(rule, fn.String()+" channel operation", e.P.Pos(in.Pos()), "library code uses channels")
				case *ssa.UnOp:
					if x.Op == token.ARROW {
						c.Fail(rule, fn.String()+" channel receive", e.P.Pos(x.Pos()), "library code uses channels")
					}
				case *ssa.Defer:
					// harmless for determinism but unknown to the term rules
				}
			}
		}
		if nRange == 0 {
			continue
		}
		obj, _ := fn.Object().(*types.Func)
		cons := fn.String() + " map iteration"
		if obj == nil {
			c.Undecided(rule, cons, e.P.Pos(fn.Pos()), "map iteration in a closure")
			continue
		}
		s := e.F.Summarise(obj)
		oiOK, oiWhy := e.orderIndependentLoops(fn)
		if (s.Err != "" || s.RangeLoops != nRange) && oiOK {
			c.Ok(rule, cons, e.P.Pos(fn.Pos()), "map iteration whose effect does not depend on the order: entries copied into a fresh map under their own key, or collected into a slice that is sorted before it is used")
			continue
		}
		if (s.Err != "" || s.RangeLoops != nRange) && e.onlyReverseLookups(fn) {
			c.Ok(rule, cons, e.P.Pos(fn.Pos()), "map iteration only as a reverse look-up that returns on the first matching entry (tables are injective: code-table)")
			continue
		}
		if s.Err != "" || s.RangeLoops != nRange {
			c.Fail(rule, cons, e.P.Pos(fn.Pos()), "iterates over a map other than as the reverse look-up  for k, v := range T { if x == v { return k } }  (result may depend on iteration order): "+s.Err+"; "+oiWhy)
			continue
		}
		ok := true
		for t := range e.F.TablesRead(obj) {
			if inj, why := t.Injective(); !inj {
				ok = false
				c.Fail(rule, cons, e.P.Pos(t.Pos), "reverse look-up over table "+t.Name+" whose values are not unique ("+why+"): the result depends on map iteration order")
			}
		}
		if ok {
			c.Ok(rule, cons, e.P.Pos(fn.Pos()), "reverse look-up over a table with pairwise distinct values: independent of iteration order")
		}
	}
}

// packageVars: every package-level variable of the library packages is a table, a sentinel, or reported.
func (e *Env) packageVars(rule string) {
	c := e.C
	for _, rel := range e.P.LibRels() {
		pk := e.P.Lib(rel)
		sc := pk.Types.Scope()
		for _, n := range sc.Names() {
			v, ok := sc.Lookup(n).(*types.Var)
			if !ok {
				continue
			}
			cons := rel + "." + n
			switch {
			case e.F.Tables[v] != nil:
				c.Ok(rule, cons, e.P.Pos(v.Pos()), "look-up table initialised by a literal (immutability: table-immutability)")
			case types.Identical(v.Type(), errorType) && rel == "cvsserr":
				c.Ok(rule, cons, e.P.Pos(v.Pos()), "sentinel error value")
			default:
				c.Ok(rule, cons, e.P.Pos(v.Pos()), "package-level variable of type "+v.Type().String()+" (neither a literal table nor a sentinel): writes to it, if any, are reported by table-immutability / pure-query")
			}
		}
	}
}

func c15(e *Env) {
	c := e.C
	c.Explanation = "E1: for every function and method of the library packages other than Decode/decodeOne, constructors and initialisers, the transitive set of writes to memory the function did not allocate (stores, map updates, delete/clear/copy/append, writes by listed external calls; propagated bottom-up over the in-module call graph with callee roots mapped to caller arguments) is empty - on receiver-, parameter- and package-level memory; Decode/decodeOne write only memory reachable from their own receiver. E2: no package-level variable is stored to, updated or cleared outside the synthetic package initialisers, in any function of any module package. E3: each constructor allocates its own names map and embedded objects. E4: every map iteration in library code is the reverse look-up idiom over a table with pairwise distinct values; library packages import only stateless, deterministic packages; no goroutines or channels."
	c.Trusted = []string{"go/types + go/ssa", "the stated effects of the external functions in facts.Externs (fmt, strings, strconv, math, errs, io, bytes, text/template)", "root tracing treats memory reachable from a parameter as that parameter's (no points-to analysis in x/tools v0.29.0; conservative)"}
	c.NotDecided = []string{"purity of fmt, strings, errs (runtime.Caller), x/text and text/template for read-only use", "a correctly synchronised cache would be reported as shared mutable state (sufficient condition, stated conservatism)"}
	e.pureQueries("pure-query")
	e.tableImmutability("table-immutability")
	e.packageVars("package-vars")
	e.determinism("determinism", false)
	for _, v := range []*spec.Version{&spec.V3, &spec.V2} {
		ls, err := e.F.Levels(v)
		if err != nil {
			c.Undecided("constructor-fresh", v.Pkg, "", err.Error())
			continue
		}
		for _, l := range ls {
			e.constructorFresh(l, "constructor-fresh")
		}
	}
	// the data tables the leaf summaries read (a nil or run-time-filled table makes results history dependent)
	e.tableModelProblems(func(t *facts.Table) bool { return t.IsData() })
	c.Floor("pure-query", 250)
	c.Floor("table-immutability", 40)
	c.Floor("determinism", 12)
	c.Floor("constructor-fresh", 10)
	c.Floor("package-vars", 60) // every declared variable is an instance: the floor only guards against packages not being loaded (merging tables lowers the count legitimately)
}

func c16(e *Env) {
	c := e.C
	c.Explanation = "Sufficient condition for data-race freedom and sequential equivalence: there is no shared mutable state. E1/E2 as in C15 (queries write nothing they did not allocate; no package-level variable is written after initialisation; every package-level variable is a literal look-up table or a sentinel), decoders write only their own receiver's object; library code starts no goroutine, uses no channel, sync or atomic; each template export creates its template with template.New and its buffer with a fresh allocation inside the same call, and neither escapes except as the returned reader (E5)."
	c.Trusted = []string{"go/types + go/ssa", "the stated effects of external functions in facts.Externs", "Go memory model: concurrent reads of memory nobody writes are race-free"}
	c.NotDecided = []string{"thread-safety of fmt, strings, errs, x/text and text/template when used read-only or on private objects", "a correctly locked cache would be reported (stated conservatism)"}
	e.pureQueries("pure-query")
	e.tableImmutability("table-immutability")
	e.packageVars("package-vars")
	e.determinism("no-concurrency-primitives", true)
	e.templatePrivate("private-template")
	c.Floor("pure-query", 250)
	c.Floor("table-immutability", 40)
	c.Floor("package-vars", 60) // every declared variable is an instance: the floor only guards against packages not being loaded (merging tables lowers the count legitimately)
	c.Floor("private-template", 2)
}

// templatePrivate: E5.
func (e *Env) templatePrivate(rule string) {
	c := e.C
	fn, _ := e.reportHelpers()
	if fn == nil {
		c.Fail(rule, "v3/report template helper", "", "the function ExportWithString hands the template text to was not found")
		return
	}
	ef := e.F.Effects()
	okT, okB := false, false
	badT, badB := false, false
	private := func(v ssa.Value) bool {
		rs := ef.Roots(v)
		if len(rs) == 0 {
			return false
		}
		for _, r := range rs {
			if r.Kind != facts.RLocal && r.Kind != facts.RNone {
				return false
			}
		}
		return true
	}
	// the helper and the unexported functions of its package it calls (the parse-and-execute step may be a function of its own)
	seen := map[*ssa.Function]bool{}
	var visit func(sf *ssa.Function, depth int)
	visit = func(sf *ssa.Function, depth int) {
		if sf == nil || seen[sf] || depth > 3 {
			return
		}
		seen[sf] = true
		for _, b := range sf.Blocks {
			for _, in := range b.Instrs {
				call, ok := in.(*ssa.Call)
				if !ok || call.Call.StaticCallee() == nil {
					continue
				}
				callee := call.Call.StaticCallee()
				switch callee.String() {
				case "(*text/template.Template).Parse":
					if private(call.Call.Args[0]) {
						okT = true
					} else {
						badT = true
					}
				case "(*text/template.Template).Execute":
					if private(call.Call.Args[1]) {
						okB = true
					} else {
						badB = true
					}
					if !private(call.Call.Args[0]) {
						badT = true
					}
				default:
					if co, _ := callee.Object().(*types.Func); co != nil && !co.Exported() && callee.Pkg == sf.Pkg && len(callee.Blocks) > 0 {
						visit(callee, depth+1)
					}
				}
			}
		}
	}
	visit(e.P.SSAFunc(fn), 0)
	okT = okT && !badT
	okB = okB && !badB
	c.Check(okT, rule, fname(fn)+" template", e.P.Pos(fn.Pos()), "created by template.New in the same call", "the template parsed/executed is not private to the call (shared template: Parse on it is a data race)")
	c.Check(okB, rule, fname(fn)+" buffer", e.P.Pos(fn.Pos()), "a fresh buffer allocated in the same call", "the output buffer is not private to the call")
}

// ---------------------------------------------------------------------------

func c19(e *Env) {
	c := e.C
	c.Explanation = "executeTemplate(data, text): the only text/template operations are template.New(..).Parse(text) on the unmodified parameter and Execute(buf, data) on the unmodified data with a fresh buffer; no Funcs/Delims/Option/Lookup; the non-nil reader (that buffer) is returned only on the path where both Parse and Execute reported no error, every other path returns (nil, errs.Wrap(ErrInvalidTemplate, ...)). getTempleteString(r): r == nil is tested before any use; the whole content is read with io.Copy into a fresh buffer whose String() is returned; failures return (\"\", errs.Wrap(ErrInvalidTemplate, ...)). ExportWithString (x3): receiver == nil -> (nil, errs.Wrap(ErrNullPointer)), otherwise exactly executeTemplate(receiver, str) with str unmodified. ExportWith (x3): the string from getTempleteString(r) flows unmodified into the receiver's own ExportWithString; its error returns (nil, errs.Wrap(err))."
	c.Trusted = []string{"go/types + go/ssa", "text/template (by definition the oracle of the rendered text)", "io.Copy / io.ReadAll read their source to EOF", "errs.Wrap keeps its first argument as cause"}
	c.NotDecided = []string{"what text/template does with the text", "typed-nil io.Reader values"}
	e.guardPanics("template-export", "v3/report", func() { e.templateRules() })
	e.templateNames("template-export")
	c.Floor("template-export", 20)
}

func (e *Env) templateRules() {
	c := e.C
	rule := "template-export"
	pkT := e.P.Lib("v3/report").Types
	exec, gts := e.reportHelpers()
	if exec == nil || gts == nil {
		c.Fail(rule, "v3/report", "", "the template helpers (callee of ExportWithString taking (data, text); callee of ExportWith taking the reader) were not found")
		return
	}
	// which of executeTemplate's two operands is the text: (data, text) for a function, (text) data for a method
	// of a string type that holds the text
	textIdx, dataIdx := e.execOperands(exec)
	leavesOf := func(fn *types.Func) []*ir.Leaf {
		ls, err := ir.Leaves(e.P.SSAFunc(fn), ir.LeafOptions{Forward: true, Effects: true, Inline: e.inlineHelpers(exec, gts)})
		if err != nil {
			c.Undecided(rule, fname(fn), e.P.Pos(fn.Pos()), err.Error())
			return nil
		}
		return ls
	}
	wrapOf := func(t *ir.Term, sentinel string) bool {
		s, _, isWrap := sentinelOf(t)
		return isWrap && s == sentinel
	}
	// --- executeTemplate
	{
		who := fname(exec)
		ls := leavesOf(exec)
		nOK := 0
		for _, lf := range ls {
			cons := e.pathName(who, lf)
			// template operations on this path
			var parse, execute *ir.Term
			for _, ef := range lf.Effects {
				if ef.Kind != "call" || ef.Val.Op != ir.OCall {
					continue
				}
				fn, _ := ef.Val.Obj.(*types.Func)
				if fn == nil || fn.Pkg() == nil || fn.Pkg().Path() != "text/template" {
					continue
				}
				switch fn.FullName() {
				case "text/template.New":
				case "(*text/template.Template).Parse":
					parse = ef.Val
				case "(*text/template.Template).Execute":
					execute = ef.Val
				default:
					c.Fail(rule, cons, e.P.Pos(ef.Pos), "template operation "+fn.FullName()+" changes how the user's template is interpreted")
				}
			}
			if parse == nil {
				// a defensive refusal of a nil data value before anything is done: no output, the nil-report
				// sentinel (the interface the exported callers pass holds their non-nil receiver, so the path is
				// dead there; it can refuse nothing they accept)
				dataNil := ir.Bin("==", ir.Param(dataIdx), nilOf(exec.Type().(*types.Signature).Params().At(0).Type()))
				if len(lf.Guards) == 1 && lf.Guards[0].Key() == dataNil.Key() && len(lf.Ret) == 2 && isNilConst(lf.Ret[0]) && wrapOf(lf.Ret[1], spec.Sentinels["nil-report"]) && sigDataIsInterface(exec, dataIdx) {
					c.Ok(rule, cons+" (nil data)", e.P.Pos(lf.Pos), "(nil, errs.Wrap(ErrNullPointer)) before any work")
					continue
				}
				c.Fail(rule, cons, e.P.Pos(lf.Pos), "the template text is not parsed on this path")
				continue
			}
			okParse := len(parse.Args) == 2 && isCallOf(parse.Args[0], "text/template.New") && parse.Args[1].Op == ir.OParam && parse.Args[1].N == textIdx
			if !okParse {
				c.Fail(rule, cons, e.P.Pos(parse.Pos), "Parse is not applied to a fresh template.New(...) and the unmodified template text: "+clip(parse.Pretty()))
				continue
			}
			perr := ir.Bin("!=", &ir.Term{Op: ir.OExtract, N: 1, Args: []*ir.Term{parse}}, nilOf(errorType))
			if len(lf.Ret) != 2 {
				continue
			}
			if isNilConst(lf.Ret[1]) {
				// success
				nOK++
				ok := execute != nil && hasGuard(lf, ir.NotCond(perr))
				if ok {
					// Execute(template from Parse, buf, data)
					ok = len(execute.Args) == 3 && execute.Args[0].Key() == (&ir.Term{Op: ir.OExtract, N: 0, Args: []*ir.Term{parse}}).Key() && execute.Args[2].Op == ir.OParam && execute.Args[2].N == dataIdx
					ok = ok && hasGuard(lf, ir.Bin("==", execute, nilOf(errorType)))
					// the reader returned is the buffer written by Execute, a local allocation
					ok = ok && lf.Ret[0].Key() == execute.Args[1].Key() && lf.Ret[0].Op == ir.OAddr && lf.Ret[0].Args[0].Op == ir.OAlloc
				}
				c.Check(ok, rule, cons+" (success)", e.P.Pos(lf.Pos), "returns the fresh buffer only after Parse and Execute(buf, data) both succeeded, data and text unmodified", "output is handed out without both Parse and Execute having succeeded on the unmodified text/data, or the reader is not the private buffer")
			} else {
				ok := isNilConst(lf.Ret[0]) && wrapOf(lf.Ret[1], spec.Sentinels["template"])
				c.Check(ok, rule, cons+" (failure)", e.P.Pos(lf.Pos), "(nil, errs.Wrap(ErrInvalidTemplate, ...)): no partial output", "a failing template yields output or an error that is not errs.Wrap(ErrInvalidTemplate, ...)")
			}
		}
		c.Check(nOK == 1, rule, who+" success paths", e.P.Pos(exec.Pos()), "exactly one", fmt.Sprintf("%d success paths", nOK))
	}
	// --- getTempleteString
	{
		who := fname(gts)
		ls := leavesOf(gts)
		rNil := ir.Bin("==", ir.Param(0), nilOf(gts.Type().(*types.Signature).Params().At(0).Type()))
		nOK := 0
		for _, lf := range ls {
			cons := e.pathName(who, lf)
			if len(lf.Ret) != 2 {
				continue
			}
			var cp *ir.Term
			for _, ef := range lf.Effects {
				if ef.Kind == "call" && (isCallOf(ef.Val, "io.Copy") || isCallOf(ef.Val, "io.ReadAll")) {
					cp = ef.Val
				}
			}
			if hasGuard(lf, rNil) {
				ok := cp == nil && isStringConst(lf.Ret[0], "") && wrapOf(lf.Ret[1], spec.Sentinels["template"])
				c.Check(ok, rule, cons+" (nil reader)", e.P.Pos(lf.Pos), `("", errs.Wrap(ErrInvalidTemplate)) before any use of the reader`, "a nil reader is used, or not reported as errs.Wrap(ErrInvalidTemplate)")
				continue
			}
			if !hasGuard(lf, ir.NotCond(rNil)) {
				c.Fail(rule, cons, e.P.Pos(lf.Pos), "the reader is used without having been tested for nil")
				continue
			}
			if isNilConst(lf.Ret[1]) {
				nOK++
				ok := cp != nil && isCallOf(cp, "io.Copy") && len(cp.Args) == 2 && cp.Args[1].Op == ir.OParam && cp.Args[1].N == 0 &&
					hasGuard(lf, ir.Bin("==", &ir.Term{Op: ir.OExtract, N: 1, Args: []*ir.Term{cp}}, nilOf(errorType))) &&
					isCallOf(lf.Ret[0], "(*bytes.Buffer).String") && lf.Ret[0].Args[0].Key() == cp.Args[0].Key() && cp.Args[0].Op == ir.OAddr && cp.Args[0].Args[0].Op == ir.OAlloc
				// or: io.ReadAll(reader) reported no error and the text is string(<the bytes it returned>)
				if !ok && cp != nil && isCallOf(cp, "io.ReadAll") && len(cp.Args) == 1 && cp.Args[0].Op == ir.OParam && cp.Args[0].N == 0 {
					r := lf.Ret[0]
					ok = hasGuard(lf, ir.Bin("==", &ir.Term{Op: ir.OExtract, N: 1, Args: []*ir.Term{cp}}, nilOf(errorType))) &&
						r.Op == ir.OConv && r.Str == "string" && len(r.Args) == 1 && r.Args[0].Op == ir.OExtract && r.Args[0].N == 0 && len(r.Args[0].Args) == 1 && r.Args[0].Args[0].Key() == cp.Key()
				}
				c.Check(ok, rule, cons+" (success)", e.P.Pos(lf.Pos), "the whole content copied into a fresh buffer (or read by io.ReadAll), returned unmodified", "the template text is not the reader's full content copied by io.Copy into a fresh buffer or read by io.ReadAll")
			} else {
				ok := isStringConst(lf.Ret[0], "") && wrapOf(lf.Ret[1], spec.Sentinels["template"])
				c.Check(ok, rule, cons+" (read failure)", e.P.Pos(lf.Pos), `("", errs.Wrap(ErrInvalidTemplate, ...))`, "a failing reader is not reported as errs.Wrap(ErrInvalidTemplate, ...)")
			}
		}
		c.Check(nOK == 1, rule, who+" success paths", e.P.Pos(gts.Pos()), "exactly one", fmt.Sprintf("%d success paths", nOK))
	}
	// --- the three report types
	for _, tn := range []string{"BaseReport", "TemporalReport", "EnvironmentalReport"} {
		T, _ := pkT.Scope().Lookup(tn).(*types.TypeName)
		if T == nil {
			c.Fail(rule, "v3/report."+tn, "", "report type not found")
			continue
		}
		ews := load.MethodOf(T.Type(), "ExportWithString")
		ew := load.MethodOf(T.Type(), "ExportWith")
		if ews == nil || ew == nil {
			c.Fail(rule, "v3/report."+tn, e.P.Pos(T.Pos()), "ExportWith / ExportWithString missing")
			continue
		}
		recvNil := ir.Bin("==", ir.Param(0), nilOf(types.NewPointer(T.Type())))
		if e.exportDelegates(rule, ews, ew, exec, gts, recvNil, leavesOf, wrapOf) {
			continue
		}
		// ExportWithString
		for _, lf := range leavesOf(ews) {
			cons := e.pathName(fname(ews), lf)
			if len(lf.Ret) != 2 {
				continue
			}
			if hasGuard(lf, recvNil) {
				ok := isNilConst(lf.Ret[0]) && wrapOf(lf.Ret[1], spec.Sentinels["nil-report"])
				c.Check(ok, rule, cons+" (nil report)", e.P.Pos(lf.Pos), "(nil, errs.Wrap(ErrNullPointer))", "a nil report is not reported as (nil, errs.Wrap(ErrNullPointer))")
				continue
			}
			call := e.execCall(exec, ir.Param(0), ir.Param(1))
			ok := hasGuard(lf, ir.NotCond(recvNil)) && passesOn(lf, call)
			c.Check(ok, rule, cons, e.P.Pos(lf.Pos), "executeTemplate(receiver, unmodified text) after the nil-report guard", "does not return executeTemplate(receiver, text) on the unmodified text under a nil-report guard: "+clip(lf.String()))
		}
		// ExportWith
		gcall := ir.Call(gts, ir.Param(1))
		gerr := &ir.Term{Op: ir.OExtract, N: 1, Args: []*ir.Term{gcall}}
		gstr := &ir.Term{Op: ir.OExtract, N: 0, Args: []*ir.Term{gcall}}
		for _, lf := range leavesOf(ew) {
			cons := e.pathName(fname(ew), lf)
			if len(lf.Ret) != 2 {
				continue
			}
			if hasGuard(lf, ir.Bin("!=", gerr, nilOf(errorType))) {
				_, inner, isWrap := sentinelOf(lf.Ret[1])
				ok := isNilConst(lf.Ret[0]) && isWrap && inner != nil && inner.Key() == gerr.Key()
				c.Check(ok, rule, cons+" (reader failure)", e.P.Pos(lf.Pos), "(nil, errs.Wrap(err))", "the reader's failure is not passed on as (nil, errs.Wrap(err))")
				continue
			}
			call := ir.Call(ews, ir.Param(0), gstr)
			readOK := ir.Bin("==", gerr, nilOf(errorType))
			ok := hasGuard(lf, readOK) && passesOn(lf, call)
			if !ok && hasGuard(lf, readOK) {
				// not a call of the own ExportWithString, but the same thing written out (a shared helper expanded in
				// place): after the successful read the path is one of ExportWithString's own paths with the text
				// replaced by the reader's content - same conditions, same results
				rest := map[string]bool{}
				for _, g := range lf.Guards {
					if g.Key() != readOK.Key() {
						rest[g.Key()] = true
					}
				}
				for _, sl := range leavesOf(ews) {
					if len(sl.Ret) != 2 {
						continue
					}
					args := []*ir.Term{ir.Param(0), gstr}
					same := ir.Subst(sl.Ret[0], args).Key() == lf.Ret[0].Key() && ir.Subst(sl.Ret[1], args).Key() == lf.Ret[1].Key() && len(sl.Guards) == len(rest)
					for _, g := range sl.Guards {
						if !rest[ir.Subst(g, args).Key()] {
							same = false
						}
					}
					if same {
						ok = true
					}
				}
			}
			c.Check(ok, rule, cons, e.P.Pos(lf.Pos), "own ExportWithString on the reader's full, unmodified content", "exporting from a reader is not ExportWithString(full content of the reader) of the same report: "+clip(lf.String()))
		}
	}
}

// sigDataIsInterface: the data operand of executeTemplate is an interface value.
func sigDataIsInterface(exec *types.Func, dataIdx int) bool {
	sig := exec.Type().(*types.Signature)
	var ts []types.Type
	if sig.Recv() != nil {
		ts = append(ts, sig.Recv().Type())
	}
	for i := 0; i < sig.Params().Len(); i++ {
		ts = append(ts, sig.Params().At(i).Type())
	}
	return dataIdx < len(ts) && types.IsInterface(ts[dataIdx])
}

// passesOn: the path returns the two results of call as they are: both of them unconditionally, or - written out
// with an explicit error check - (nil, its error) where the error is not nil and (its reader, nil) where it is.
// (That the call yields no reader together with an error, and no error together with a reader, is the callee's
// own obligation.)
func passesOn(lf *ir.Leaf, call *ir.Term) bool {
	if len(lf.Ret) != 2 {
		return false
	}
	r0 := &ir.Term{Op: ir.OExtract, N: 0, Args: []*ir.Term{call}}
	r1 := &ir.Term{Op: ir.OExtract, N: 1, Args: []*ir.Term{call}}
	isErr := ir.Bin("!=", r1, nilOf(errorType))
	switch {
	case lf.Ret[0].Key() == r0.Key() && lf.Ret[1].Key() == r1.Key():
		return true
	case hasGuard(lf, isErr) && isNilConst(lf.Ret[0]) && lf.Ret[1].Key() == r1.Key():
		return true
	case hasGuard(lf, ir.NotCond(isErr)) && lf.Ret[0].Key() == r0.Key() && isNilConst(lf.Ret[1]):
		return true
	}
	return false
}

// execOperands: the positions (receiver first) of the template text and of the data among executeTemplate's operands.
func (e *Env) execOperands(exec *types.Func) (textIdx, dataIdx int) {
	sig := exec.Type().(*types.Signature)
	var ts []types.Type
	if sig.Recv() != nil {
		ts = append(ts, sig.Recv().Type())
	}
	for i := 0; i < sig.Params().Len(); i++ {
		ts = append(ts, sig.Params().At(i).Type())
	}
	textIdx, dataIdx = 1, 0
	if len(ts) == 2 && isString(ts[0]) && !isString(ts[1]) {
		textIdx, dataIdx = 0, 1
	}
	return
}

// execCall: executeTemplate applied to the data and the text, whatever the order of its operands.
func (e *Env) execCall(exec *types.Func, data, text *ir.Term) *ir.Term {
	textIdx, dataIdx := e.execOperands(exec)
	args := make([]*ir.Term, 2)
	args[textIdx], args[dataIdx] = text, data
	return ir.Call(exec, args...)
}

// exportDelegates decides the other way of sharing the code of the two export methods: ExportWithString(text) is
// ExportWith(strings.NewReader(text)) - a reader whose full content is text (trusted, like io.Copy) - and
// ExportWith does the work itself: the reader's failure passed on, a nil report refused with ErrNullPointer,
// otherwise executeTemplate(receiver, full content). It reports false when ExportWithString has another form.
func (e *Env) exportDelegates(rule string, ews, ew, exec, gts *types.Func, recvNil *ir.Term, leavesOf func(*types.Func) []*ir.Leaf, wrapOf func(*ir.Term, string) bool) bool {
	c := e.C
	sls, err := ir.Leaves(e.P.SSAFunc(ews), ir.LeafOptions{Forward: true, Effects: true, Inline: e.inlineHelpers(exec, gts)})
	if err != nil || len(sls) != 1 || len(sls[0].Guards) != 0 || len(sls[0].Ret) != 2 {
		return false
	}
	r0, r1 := sls[0].Ret[0], sls[0].Ret[1]
	if r0.Op != ir.OExtract || r1.Op != ir.OExtract || r0.N != 0 || r1.N != 1 || r0.Args[0].Key() != r1.Args[0].Key() {
		return false
	}
	call := r0.Args[0]
	if call.Op != ir.OCall || call.Obj != types.Object(ew) || len(call.Args) != 2 || call.Args[0].Key() != ir.Param(0).Key() {
		return false
	}
	rd := call.Args[1]
	if !isCallOf(rd, "strings.NewReader") || len(rd.Args) != 1 || rd.Args[0].Key() != ir.Param(1).Key() {
		return false
	}
	c.Ok(rule, fname(ews), e.P.Pos(ews.Pos()), "ExportWith(strings.NewReader(text)) of the same report, text unmodified")
	gcall := ir.Call(gts, ir.Param(1))
	gerr := &ir.Term{Op: ir.OExtract, N: 1, Args: []*ir.Term{gcall}}
	gstr := &ir.Term{Op: ir.OExtract, N: 0, Args: []*ir.Term{gcall}}
	readOK := ir.Bin("==", gerr, nilOf(errorType))
	ecall := e.execCall(exec, ir.Param(0), gstr)
	for _, lf := range leavesOf(ew) {
		cons := e.pathName(fname(ew), lf)
		if len(lf.Ret) != 2 {
			continue
		}
		switch {
		case hasGuard(lf, ir.NotCond(readOK)):
			_, inner, isWrap := sentinelOf(lf.Ret[1])
			ok := isNilConst(lf.Ret[0]) && isWrap && inner != nil && inner.Key() == gerr.Key()
			c.Check(ok, rule, cons+" (reader failure)", e.P.Pos(lf.Pos), "(nil, errs.Wrap(err))", "the reader's failure is not passed on as (nil, errs.Wrap(err))")
		case hasGuard(lf, recvNil):
			// (refused before or after the read: a nil report yields no output either way; with a failing reader
			// the read's own error may win, as it does when ExportWith reads first and ExportWithString tests)
			ok := isNilConst(lf.Ret[0]) && wrapOf(lf.Ret[1], spec.Sentinels["nil-report"])
			c.Check(ok, rule, cons+" (nil report)", e.P.Pos(lf.Pos), "(nil, errs.Wrap(ErrNullPointer))", "a nil report is not reported as (nil, errs.Wrap(ErrNullPointer))")
		default:
			ok := hasGuard(lf, readOK) && hasGuard(lf, ir.NotCond(recvNil)) && passesOn(lf, ecall)
			c.Check(ok, rule, cons, e.P.Pos(lf.Pos), "executeTemplate(receiver, the reader's full, unmodified content) after the read succeeded and the nil-report guard", "exporting from a reader is not executeTemplate(receiver, full content of the reader) under a nil-report guard: "+clip(lf.String()))
		}
	}
	return true
}

// reportHelpers identifies the two unexported template helpers by role:
// exec = the package function every ExportWithString passes (receiver, text) to;
// read = the package function every ExportWith passes its io.Reader to.
func (e *Env) reportHelpers() (exec, read *types.Func) {
	pk := e.P.Lib("v3/report")
	if pk == nil {
		return nil, nil
	}
	// calls: sf (or the generic function it is an instance of) calls a function of the given package directly
	calls := func(sf *ssa.Function, pkgPath string, names ...string) bool {
		for _, f := range []*ssa.Function{sf, sf.Origin()} {
			if f == nil {
				continue
			}
			for _, b := range f.Blocks {
				for _, in := range b.Instrs {
					call, ok := in.(ssa.CallInstruction)
					if !ok || call.Common().StaticCallee() == nil {
						continue
					}
					co := call.Common().StaticCallee().Object()
					if co == nil || co.Pkg() == nil || co.Pkg().Path() != pkgPath {
						continue
					}
					if len(names) == 0 {
						return true
					}
					for _, n := range names {
						if co.Name() == n {
							return true
						}
					}
				}
			}
		}
		return false
	}
	// reaches: a function of the given package is called by sf or by the package's own functions it calls
	var reaches func(sf *ssa.Function, depth int, pkgPath string, names ...string) bool
	reaches = func(sf *ssa.Function, depth int, pkgPath string, names ...string) bool {
		if sf == nil || depth > 3 {
			return false
		}
		if calls(sf, pkgPath, names...) {
			return true
		}
		for _, f := range []*ssa.Function{sf, sf.Origin()} {
			if f == nil {
				continue
			}
			for _, b := range f.Blocks {
				for _, in := range b.Instrs {
					call, ok := in.(ssa.CallInstruction)
					if !ok || call.Common().StaticCallee() == nil {
						continue
					}
					cf := call.Common().StaticCallee()
					if co := cf.Object(); co != nil && co.Pkg() != nil && (co.Pkg() == pk.Types || load.IsInternal(co.Pkg().Path())) && reaches(cf, depth+1, pkgPath, names...) {
						return true
					}
				}
			}
		}
		return false
	}
	find := func(method string, want func(sig *types.Signature, sf *ssa.Function) bool) *types.Func {
		var found *types.Func
		for _, tn := range []string{"BaseReport", "TemporalReport", "EnvironmentalReport"} {
			T, _ := pk.Types.Scope().Lookup(tn).(*types.TypeName)
			if T == nil {
				return nil
			}
			m := load.MethodOf(T.Type(), method)
			if m == nil {
				return nil
			}
			// the helper is called by the method itself or through unexported helpers of the package (a shared
			// exportWith(rep, isNil, r) in front of it, a parse-and-execute step behind it): search the
			// package-internal call tree; of the functions that fit, the one nearest to the work is the helper
			var here *types.Func
			seen := map[*ssa.Function]bool{}
			level := []*ssa.Function{e.P.SSAFunc(m)}
			for depth := 0; depth < 5 && len(level) > 0; depth++ {
				var next []*ssa.Function
				var fit *types.Func
				for _, sf := range level {
					if sf == nil || seen[sf] {
						continue
					}
					seen[sf] = true
					for _, b := range sf.Blocks {
						for _, in := range b.Instrs {
							call, ok := in.(*ssa.Call)
							if !ok || call.Call.StaticCallee() == nil {
								continue
							}
							cf := call.Call.StaticCallee()
							callee, _ := cf.Object().(*types.Func)
							// (the plumbing may live in an internal package of the module shared by the report packages)
							if callee == nil || callee.Pkg() == nil || (callee.Pkg() != pk.Types && !load.IsInternal(callee.Pkg().Path())) {
								continue
							}
							if rv := callee.Type().(*types.Signature).Recv(); rv != nil {
								// ExportWithString written as ExportWith(strings.NewReader(text)) of the same report
								if callee == load.MethodOf(T.Type(), "ExportWith") && method == "ExportWithString" {
									next = append(next, cf)
									continue
								}
								// a method of an unexported type of the package (a string type holding the text) is a helper
								rt := rv.Type()
								if pt, ok := rt.(*types.Pointer); ok {
									rt = pt.Elem()
								}
								if named, ok := rt.(*types.Named); !ok || named.Obj().Exported() {
									continue
								}
							}
							if want(callee.Type().(*types.Signature), cf) {
								if fit != nil && fit != callee {
									return nil
								}
								fit = callee
							}
							if !callee.Exported() || callee.Type().(*types.Signature).Recv() != nil || callee.Pkg() != pk.Types {
								next = append(next, cf)
							}
						}
					}
				}
				if fit != nil {
					here = fit // a deeper level overrides a shallower one
				}
				level = next
			}
			if here == nil || (found != nil && found != here) {
				return nil
			}
			found = here
		}
		return found
	}
	// (a shared helper in front of them may have the same shape: the helper looked for is the one that does the work)
	exec = find("ExportWithString", func(sig *types.Signature, sf *ssa.Function) bool {
		n := sig.Params().Len()
		textOK := n == 2 && isString(sig.Params().At(1).Type())
		if sig.Recv() != nil {
			n++
			textOK = n == 2 && isString(sig.Recv().Type()) // the text is the receiver: (text).execute(data)
		}
		// it reports failures itself (errs.Wrap in its own body) and the template work happens in it or below it
		return n == 2 && textOK && sig.Results().Len() == 2 && reaches(sf, 0, "github.com/goark/errs", "Wrap") && reaches(sf, 0, "text/template")
	})
	read = find("ExportWith", func(sig *types.Signature, sf *ssa.Function) bool {
		return sig.Params().Len() == 1 && sig.Results().Len() == 2 && sig.Params().At(0).Type().String() == "io.Reader" && isString(sig.Results().At(0).Type()) && reaches(sf, 0, "github.com/goark/errs", "Wrap") && reaches(sf, 0, "io", "Copy", "ReadAll")
	})
	return
}

// onlyReverseLookups: every map range loop of fn has the SSA shape of
//
//	for k, v := range M { if v == X { return ... } }
//
// with X loop-invariant: the body does nothing but compare the value and
// return from the function on a match, so which entry is seen first only
// matters if two entries match (excluded by the injectivity of the tables).
func (e *Env) onlyReverseLookups(fn *ssa.Function) bool {
	n := 0
	for _, b := range fn.Blocks {
		for _, in := range b.Instrs {
			nx, ok := in.(*ssa.Next)
			if !ok {
				continue
			}
			rg, ok := nx.Iter.(*ssa.Range)
			if !ok {
				return false
			}
			if _, isMap := rg.X.Type().Underlying().(*types.Map); !isMap {
				continue
			}
			n++
			h := nx.Block()
			// header: t = next; ok = extract #0; if ok goto body else done
			iff, isIf := h.Instrs[len(h.Instrs)-1].(*ssa.If)
			if !isIf || len(h.Succs) != 2 {
				return false
			}
			okx, isEx := iff.Cond.(*ssa.Extract)
			if !isEx || okx.Tuple != ssa.Value(nx) || okx.Index != 0 {
				return false
			}
			body := h.Succs[0]
			if len(body.Preds) != 1 {
				return false
			}
			// body: k, v extracted, one comparison of v with a loop-invariant value, branch: match -> a block that returns, else -> header
			var val *ssa.Extract
			for _, bi := range body.Instrs[:len(body.Instrs)-1] {
				ex, isEx := bi.(*ssa.Extract)
				if isEx && ex.Tuple == ssa.Value(nx) {
					if ex.Index == 2 {
						val = ex
					}
					continue
				}
				if bo, isBin := bi.(*ssa.BinOp); isBin && bo.Op == token.EQL {
					continue
				}
				return false
			}
			bif, isIf := body.Instrs[len(body.Instrs)-1].(*ssa.If)
			if !isIf || val == nil {
				return false
			}
			cmp, isBin := bif.Cond.(*ssa.BinOp)
			if !isBin || cmp.Op != token.EQL {
				return false
			}
			var other ssa.Value
			switch {
			case cmp.X == ssa.Value(val):
				other = cmp.Y
			case cmp.Y == ssa.Value(val):
				other = cmp.X
			default:
				return false
			}
			if oi, isInstr := other.(ssa.Instruction); isInstr && oi.Block() != nil && h.Dominates(oi.Block()) {
				return false // compared value computed inside the loop
			}
			match, again := body.Succs[0], body.Succs[1]
			if again != h {
				return false
			}
			if _, isRet := match.Instrs[len(match.Instrs)-1].(*ssa.Return); !isRet || len(match.Preds) != 1 {
				return false
			}
			for _, mi := range match.Instrs[:len(match.Instrs)-1] {
				switch mi.(type) {
				case *ssa.Extract, *ssa.MakeInterface, *ssa.ChangeType, *ssa.Convert:
				default:
					return false
				}
			}
		}
	}
	return n > 0
}

// templateNames: what a template's {{ .Name }} selects on a report. text/template looks for a METHOD of that name
// first and for a field only if there is none; a method with a signature it cannot call is an execution error. So
// on each of the three report types no method (of the pointer type, promoted ones included) may carry the name of
// a field (own or promoted): the field - the value the report was built with - would no longer be reachable.
func (e *Env) templateNames(rule string) {
	c := e.C
	pk := e.P.Lib("v3/report")
	if pk == nil {
		return
	}
	for _, tn := range []string{"BaseReport", "TemporalReport", "EnvironmentalReport"} {
		T, _ := pk.Types.Scope().Lookup(tn).(*types.TypeName)
		if T == nil {
			c.Fail(rule, "v3/report."+tn, "", "report type not found")
			continue
		}
		fields := map[string]bool{}
		var walk func(t types.Type, depth int)
		walk = func(t types.Type, depth int) {
			if p, ok := t.Underlying().(*types.Pointer); ok {
				t = p.Elem()
			}
			st, ok := t.Underlying().(*types.Struct)
			if !ok || depth > 4 {
				return
			}
			for i := 0; i < st.NumFields(); i++ {
				f := st.Field(i)
				fields[f.Name()] = true
				if f.Embedded() {
					walk(f.Type(), depth+1)
				}
			}
		}
		walk(T.Type(), 0)
		ms := types.NewMethodSet(types.NewPointer(T.Type()))
		bad := ""
		for i := 0; i < ms.Len(); i++ {
			if name := ms.At(i).Obj().Name(); fields[name] {
				bad = name
			}
		}
		c.Check(bad == "", rule, "v3/report."+tn+" template names", e.P.Pos(T.Pos()), fmt.Sprintf("no method of *%s has the name of one of its %d (own or promoted) fields", tn, len(fields)), fmt.Sprintf("method %s of *%s has the name of a field: a template's {{ .%s }} resolves to the method, not to the value the report was built with", bad, tn, bad))
	}
}

// orderIndependentLoops: every map range loop of fn only (a) stores into a map the function allocated itself,
// under the key of the current entry (distinct entries, distinct cells: the result is the same in any order), or
// (b) appends to a slice that is handed to a sorting function before anything else sees it, and otherwise only
// reads and calls functions without visible writes; no return from inside the loop.
func (e *Env) orderIndependentLoops(fn *ssa.Function) (bool, string) {
	ef := e.F.Effects()
	n := 0
	for _, hb := range fn.Blocks {
		var nx *ssa.Next
		for _, in := range hb.Instrs {
			if x, ok := in.(*ssa.Next); ok {
				if rg, ok := x.Iter.(*ssa.Range); ok {
					if _, isMap := rg.X.Type().Underlying().(*types.Map); isMap {
						nx = x
					}
				}
			}
		}
		if nx == nil {
			continue
		}
		n++
		// natural loop of the header: blocks dominated by it that can reach a back edge
		inLoop := map[*ssa.BasicBlock]bool{hb: true}
		var work []*ssa.BasicBlock
		for _, p := range hb.Preds {
			if hb.Dominates(p) {
				work = append(work, p)
			}
		}
		for len(work) > 0 {
			b := work[len(work)-1]
			work = work[:len(work)-1]
			if inLoop[b] {
				continue
			}
			inLoop[b] = true
			work = append(work, b.Preds...)
		}
		var key ssa.Value
		var slicePhis []*ssa.Phi
		var sliceVars []*ssa.Alloc
		for b := range inLoop {
			for _, in := range b.Instrs {
				switch x := in.(type) {
				case *ssa.Extract:
					if x.Tuple == ssa.Value(nx) && x.Index == 1 {
						key = x
					}
				case *ssa.Phi:
					if _, isSlice := x.Type().Underlying().(*types.Slice); isSlice && b == hb {
						slicePhis = append(slicePhis, x)
					}
				}
			}
		}
		for b := range inLoop {
			for _, in := range b.Instrs {
				switch x := in.(type) {
				case *ssa.Store:
					al, isAlloc := x.Addr.(*ssa.Alloc)
					base := x.Addr
					for {
						if ia, ok := base.(*ssa.IndexAddr); ok {
							base = ia.X
						} else if fa, ok := base.(*ssa.FieldAddr); ok {
							base = fa.X
						} else {
							break
						}
					}
					if bal, ok := base.(*ssa.Alloc); ok && inLoop[bal.Block()] {
						continue // a temporary of this iteration (loop variable, argument array of append)
					}
					// out[k] = v into a slice or array the function allocated itself, at the entry's own key: every
					// entry writes its own cell
					if ia, ok := x.Addr.(*ssa.IndexAddr); ok && key != nil {
						ix := ia.Index
						for {
							if ct, ok := ix.(*ssa.ChangeType); ok {
								ix = ct.X
							} else if cv, ok := ix.(*ssa.Convert); ok {
								ix = cv.X
							} else {
								break
							}
						}
						if ix == key {
							rs := ef.Roots(ia.X)
							local := len(rs) > 0
							for _, r := range rs {
								if r.Kind != facts.RLocal {
									local = false
								}
							}
							if local {
								continue
							}
						}
					}
					switch {
					case isAlloc && inLoop[al.Block()]:
						// the per-iteration loop variable
					case isAlloc && isSliceType(al.Type().Underlying().(*types.Pointer).Elem()):
						sliceVars = append(sliceVars, al) // a slice variable kept in memory (captured by the less function)
					default:
						return false, fmt.Sprintf("store inside the loop at %s", e.P.Pos(in.Pos()))
					}
				case *ssa.Return, *ssa.Panic, *ssa.Send, *ssa.Go, *ssa.Defer:
					return false, fmt.Sprintf("%T inside the loop at %s", in, e.P.Pos(in.Pos()))
				case *ssa.MapUpdate:
					if key == nil || x.Key != key {
						return false, "a map cell other than the current entry's own key is written at " + e.P.Pos(x.Pos())
					}
					rs := ef.Roots(x.Map)
					if len(rs) == 0 {
						return false, "map written in the loop has no known origin"
					}
					for _, r := range rs {
						if r.Kind != facts.RLocal {
							return false, "the map written in the loop is not one the function allocated: " + r.String()
						}
					}
				case *ssa.Call:
					if bi, ok := x.Call.Value.(*ssa.Builtin); ok {
						switch bi.Name() {
						case "len", "cap", "append", "min", "max":
							continue
						}
						return false, "builtin " + bi.Name() + " inside the loop"
					}
					callee := x.Call.StaticCallee()
					if callee == nil {
						if x.Call.IsInvoke() {
							continue // interface calls are resolved and judged by the effect analysis of fn itself
						}
						return false, "dynamic call inside the loop at " + e.P.Pos(x.Pos())
					}
					if fe := ef.Funcs[callee]; fe != nil {
						if len(fe.Writes) > 0 || len(fe.Undecided) > 0 {
							return false, "call of " + callee.String() + ", which writes memory, inside the loop"
						}
					}
				}
			}
		}
		// slices built in the loop must be sorted before any other use outside the loop
		for _, al := range sliceVars {
			var sortCall *ssa.Call
			for _, ref := range *al.Referrers() {
				ld, ok := ref.(*ssa.UnOp)
				if !ok || inLoop[ld.Block()] || ld.Referrers() == nil {
					continue
				}
				uses := append([]ssa.Instruction{}, *ld.Referrers()...)
				vals := map[ssa.Value]bool{ld: true}
				for _, r2 := range *ld.Referrers() {
					if mi, ok := r2.(*ssa.MakeInterface); ok && mi.Referrers() != nil { // sort.Slice takes its slice as any
						vals[mi] = true
						uses = append(uses, *mi.Referrers()...)
					}
				}
				for _, r2 := range uses {
					if call, ok := r2.(*ssa.Call); ok && call.Call.StaticCallee() != nil && len(call.Call.Args) > 0 && vals[call.Call.Args[0]] && isSortFunc(call.Call.StaticCallee().String()) {
						sortCall = call
					}
				}
			}
			if sortCall == nil {
				return false, "the slice built in the loop (" + al.Comment + ") is not sorted before use"
			}
			for _, ref := range *al.Referrers() {
				b := ref.Block()
				if inLoop[b] {
					continue
				}
				if _, isClosure := ref.(*ssa.MakeClosure); isClosure {
					continue // captured by the comparison function handed to the sort
				}
				if b == sortCall.Block() || sortCall.Block().Dominates(b) {
					if b != sortCall.Block() || instrIndex(ref) <= instrIndex(sortCall) || true {
						continue
					}
				}
				if b.Dominates(hb) {
					continue // initialisation before the loop
				}
				return false, "the slice built in the loop (" + al.Comment + ") is used at " + e.P.Pos(ref.Pos()) + " before it is sorted"
			}
		}
		for _, p := range slicePhis {
			sorted := false
			var sortBlk *ssa.BasicBlock
			for _, ref := range *p.Referrers() {
				call, ok := ref.(*ssa.Call)
				if !ok || inLoop[call.Block()] || call.Call.StaticCallee() == nil || len(call.Call.Args) == 0 || call.Call.Args[0] != ssa.Value(p) {
					continue
				}
				if isSortFunc(call.Call.StaticCallee().String()) {
					sorted = true
					sortBlk = call.Block()
				}
			}
			if !sorted {
				return false, "the slice built in the loop (" + p.Comment + ") is not sorted before use"
			}
			for _, ref := range *p.Referrers() {
				b := ref.Block()
				if inLoop[b] || b == sortBlk {
					continue
				}
				if !sortBlk.Dominates(b) {
					return false, "the slice built in the loop (" + p.Comment + ") is used at " + e.P.Pos(ref.Pos()) + " before it is sorted"
				}
			}
		}
	}
	return n > 0, "no map range loop"
}

func isSliceType(t types.Type) bool {
	_, ok := t.Underlying().(*types.Slice)
	return ok
}

func isSortFunc(q string) bool {
	if i := strings.Index(q, "["); i >= 0 {
		q = q[:i]
	}
	switch q {
	case "sort.Slice", "sort.SliceStable", "sort.Ints", "sort.Strings", "sort.Float64s", "slices.Sort", "slices.SortFunc", "slices.SortStableFunc":
		return true
	}
	return false
}

func instrIndex(in ssa.Instruction) int {
	for i, x := range in.Block().Instrs {
		if x == in {
			return i
		}
	}
	return -1
}
