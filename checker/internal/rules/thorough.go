package rules

import "cvsslint/internal/report"

// Thorough adds the thorough-tier extras (self-check against mutants,
// cross-references). Filled in by selfcheck.go.
func Thorough(ctx *report.Ctx, prop, repo, verif string) {
	selfCheck(ctx, prop, repo, verif)
}
