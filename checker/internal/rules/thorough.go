package rules

import (
	"context"
	"os"
	"os/exec"
	"strings"
	"time"

	"cvsslint/internal/report"
)

// Thorough adds the thorough-tier extras: the self-check against mutants,
// neutral refactorings and seeded changes, and an informational
// cross-reference run of generic linters (their output decides nothing).
func Thorough(ctx *report.Ctx, prop, repo, verif string) {
	selfCheck(ctx, prop, repo, verif)
	crossReference(ctx, repo)
}

func crossReference(ctx *report.Ctx, repo string) {
	type res struct {
		Tool   string   `json:"tool"`
		Status string   `json:"status"`
		Lines  int      `json:"lines"`
		Head   []string `json:"head,omitempty"`
	}
	var out []res
	env := append(os.Environ(), "GOFLAGS=-mod=mod", "GOPROXY=off", "GOSUMDB=off", "GOWORK=off", "GOTOOLCHAIN=local")
	for _, t := range [][]string{{"go", "vet", "./..."}, {"staticcheck", "./..."}} {
		c, cancel := context.WithTimeout(context.Background(), 120*time.Second)
		cmd := exec.CommandContext(c, t[0], t[1:]...)
		cmd.Dir = repo
		cmd.Env = env
		b, err := cmd.CombinedOutput()
		cancel()
		r := res{Tool: strings.Join(t, " "), Status: "no diagnostics"}
		lines := []string{}
		for _, l := range strings.Split(strings.TrimSpace(string(b)), "\n") {
			if strings.TrimSpace(l) != "" {
				lines = append(lines, l)
			}
		}
		r.Lines = len(lines)
		if len(lines) > 5 {
			r.Head = lines[:5]
		} else {
			r.Head = lines
		}
		if err != nil && len(lines) == 0 {
			r.Status = "not run: " + err.Error()
		} else if len(lines) > 0 {
			r.Status = "diagnostics (informational; no generic lint gives a verdict on this property)"
		}
		out = append(out, r)
	}
	ctx.Extra["cross_reference"] = out
}
