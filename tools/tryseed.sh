#!/bin/bash
# usage: tryseed.sh <seed dir containing patch.diff and demo_test.go> <primary prop> 
# Confirms a seeded change in a scratch copy: builds, suite passes with it, demo fails with it and passes without it;
# then runs every check against the changed copy. Removes the copy.
set -u
export GOFLAGS="-mod=mod -trimpath" GOPROXY=off GOSUMDB=off GOTOOLCHAIN=local GOWORK=off
D=$(readlink -f "$1"); P=${2:-}
S=$(mktemp -d /tmp/cvss-seed.XXXXXX); trap 'rm -rf "$S"' EXIT
rsync -a --exclude .git /repo/ "$S/repo/"; mkdir -p "$S/verif/evidence"; cp /verif/known_findings.txt "$S/verif/"
place=$(head -1 "$D/demo_test.go" | sed -n 's#^// place in: *##p' | tr -d ' \r')
[ -z "$place" ] && { echo "NO-PLACE-LINE"; exit 3; }
tname=$(grep -o 'func Test[A-Za-z0-9_]*' "$D/demo_test.go" | head -1 | sed 's/func //')
cd "$S/repo"
cp "$D/demo_test.go" "$place/zz_seed_demo_test.go"
if go test -count=1 -run "^${tname}\$" "./$place" >"$S/demo0.out" 2>&1; then echo "demo without patch: PASS"; else echo "demo without patch: FAIL (bad seed)"; tail -5 "$S/demo0.out"; fi
rm "$place/zz_seed_demo_test.go"
if ! git apply --check "$D/patch.diff" 2>/dev/null && ! patch -p1 --dry-run -s < "$D/patch.diff" >/dev/null 2>&1; then echo "PATCH-DOES-NOT-APPLY"; exit 3; fi
patch -p1 -s < "$D/patch.diff" || { echo PATCH-FAILED; exit 3; }
if go build ./... >"$S/b.out" 2>&1 && go vet ./... >>"$S/b.out" 2>&1; then echo "build+vet with patch: ok"; else echo "build/vet with patch: FAIL"; head -5 "$S/b.out"; fi
if go test -count=1 ./... >"$S/t.out" 2>&1; then echo "suite with patch: PASS"; else echo "suite with patch: FAIL"; grep -m3 -- '--- FAIL' "$S/t.out"; fi
cp "$D/demo_test.go" "$place/zz_seed_demo_test.go"
if go test -count=1 -run "^${tname}\$" "./$place" >"$S/demo1.out" 2>&1; then echo "demo with patch: PASS (bad seed: does not demonstrate)"; else echo "demo with patch: FAIL (as required)"; fi
rm "$place/zz_seed_demo_test.go"
cd /verif
caught=""
for p in $(/verif/bin/cvsslint -list); do
  out=$(/verif/bin/cvsslint -prop "$p" -repo "$S/repo" -verif "$S/verif" 2>&1); r=$?
  if [ $r -ne 0 ]; then caught="$caught $p"; if [ "$p" = "$P" ] || [ -z "$P" ]; then echo "$out" | grep -E '^  (VIOLATION|UNDECIDED)' | head -3 | cut -c1-330; fi; fi
done
echo "checks raising an alarm:${caught:- NONE}"
if [ -n "$P" ]; then case " $caught " in *" $P "*) echo "PRIMARY $P: CAUGHT";; *) echo "PRIMARY $P: MISSED";; esac; fi
