import sys,subprocess,os,shutil
name,base,f,old,new=sys.argv[1:6]
a='/tmp/mk/_a'; b='/tmp/mk/_b'
for d in (a,b):
    if os.path.exists(d): shutil.rmtree(d)
subprocess.run(['rsync','-a','--exclude','.git','/repo/',a+'/'],check=True)
subprocess.run(['rsync','-a','/tmp/mk/'+base+'/',b+'/'],check=True)
p=b+'/'+f
s=open(p).read()
assert s.count(old)>=1,(name,old)
s=s.replace(old,new,1)
open(p,'w').write(s)
env=dict(os.environ,GOFLAGS='-mod=mod',GOPROXY='off',GOSUMDB='off',GOTOOLCHAIN='local')
r=subprocess.run(['go','build','./...'],cwd=b,env=env,capture_output=True,text=True)
if r.returncode!=0:
    print(name,'BUILD FAILED',r.stderr[:300]); sys.exit(1)
r=subprocess.run(['diff','-ruN','a','b'],cwd='/tmp/mk',capture_output=True,text=True) if False else subprocess.run(['diff','-ruN','_a','_b'],cwd='/tmp/mk',capture_output=True,text=True)
out=r.stdout.replace('--- _a/','--- a/').replace('+++ _b/','+++ b/')
open('/verif/mutants/'+name+'.patch','w').write(out)
t=subprocess.run(['go','test','-count=1','./...'],cwd=b,env=env,capture_output=True,text=True)
print(name,'tests', 'PASS' if t.returncode==0 else 'FAIL')
