#!/usr/bin/env python3
import json, sys, glob, jsonschema
man = json.load(open('/verif/MANIFEST.json'))
jsonschema.validate(man, json.load(open('/root/.vp/MANIFEST.schema.json')))
es = json.load(open('/root/.vp/EVIDENCE.schema.json'))
bad = 0
for c in man['checks']:
    p = c['evidence_file']
    try:
        ev = json.load(open(p)); jsonschema.validate(ev, es)
        if ev['level'] != c['level_claimed']['category']: print('LEVEL MISMATCH', p); bad += 1
    except Exception as ex:
        print('BAD', p, str(ex)[:200]); bad += 1
print('manifest ok;', len(man['checks']), 'checks;', bad, 'bad evidence files')
sys.exit(1 if bad else 0)
