#!/bin/bash
export GOFLAGS="-mod=mod -trimpath" GOPROXY=off GOSUMDB=off GOTOOLCHAIN=local GOWORK=off
D=$(readlink -f $1); id=$(basename $D); P=${id:0:3}
S=$(mktemp -d /tmp/cvss-seed.XXXXXX)
rsync -a --exclude .git /repo/ "$S/repo/"; mkdir -p "$S/verif/evidence"; cp /verif/known_findings.txt "$S/verif/"
(cd "$S/repo" && patch -p1 -s < "$D/patch.diff") || { echo "$id PATCH-FAILED"; rm -rf "$S"; exit; }
out=$(${CVSSLINT:-/verif/bin/cvsslint.new} -prop "$P" -repo "$S/repo" -verif "$S/verif" 2>&1); r=$?
if [ $r -eq 1 ]; then echo "$id caught: $(echo "$out" | grep -E '^  (VIOLATION|UNDECIDED)' | head -1 | cut -c1-160)"; else echo "$id MISSED (exit $r)"; fi
rm -rf "$S"
