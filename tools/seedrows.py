#!/usr/bin/env python3
"""usage: seedrows.py <seed id>...  - prints the DESIGN.md section-12 table rows for the given seeds (from meta.json and patch.diff)."""
import json, re, sys, os
AB = [("v3/metric/", "v3:"), ("v2/metric/", "v2:"), ("v3/report/", "rep:")]
for sid in sys.argv[1:]:
    d = os.path.join("/verif/seeded", sid)
    m = json.load(open(os.path.join(d, "meta.json")))
    files = []
    for l in open(os.path.join(d, "patch.diff"), errors="replace"):
        g = re.match(r"diff --git a/(\S+) b/", l)
        if g:
            f = g.group(1)
            for a, b in AB:
                if f.startswith(a):
                    f = b + f[len(a):]
            if f not in files:
                files.append(f)
    files.sort()
    fs = ", ".join(files[:3]) + (", ..." if len(files) > 3 else "")
    r = m.get("primary_check_first_report", "")
    g = re.match(r"(VIOLATION|UNDECIDED) (\S+)", r)
    rule = "`%s`%s" % (g.group(2), " (UNDECIDED)" if g.group(1) == "UNDECIDED" else "") if g else "?"
    print("| %s | %s | %s | %s |" % (sid, fs, rule, " ".join(m["checks_raising_an_alarm"])))
