#!/bin/bash
# usage: setup.sh tN <neutral patch basename without .patch> <props...>
T=$1; B=$2; shift 2
d=/tmp/seed23/$T; mkdir -p $d/a $d/b
cp /verif/mutants/$B.patch $d/base.patch
cp /verif/mutants/$B.notes.md $d/base-notes.md 2>/dev/null || echo "(no description)" > $d/base-notes.md
echo "mutants/$B.patch (a behaviour-preserving refactoring the checks are silent on) plus one slip" > $d/basename
python3 - "$d" "$@" <<'P'
import json,sys
d=sys.argv[1]; want=sys.argv[2:]
ps=[json.loads(l) for l in open('/verif/properties.jsonl')]
out=[p for p in ps if p['id'] in want]
for p in out:
    p.pop('added_in_round',None); p.pop('source',None)
json.dump(out,open(d+'/props.json','w'),indent=1)
P
sed "s/seed22/seed23/g; s/wt22-t1/wt23-$T/g; s#/t1/#/$T/#g; s/Seed22t1/Seed23$T/g" /tmp/seed22/t1/prompt.txt > $d/prompt.txt
git -C /repo worktree add --detach /tmp/wt23-$T >/dev/null 2>&1
(cd /tmp/wt23-$T && git apply --check $d/base.patch) && echo "$T ok" || echo "$T base does not apply"
