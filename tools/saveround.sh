#!/bin/bash
# usage: saveround20.sh tN : saves both variants of a round-20 task under ids <Cxx>am, an, ao, ... (next free)
T=$1; cd /verif
for k in a b; do
  d=/tmp/seed23/$T/$k
  [ -f $d/notes.md ] && [ -f $d/patch.diff ] && [ -f $d/demo_test.go ] || { echo "$T/$k: incomplete"; continue; }
  P=$(head -1 $d/notes.md | grep -o 'C[0-9][0-9]' | head -1)
  [ -n "$P" ] || { echo "$T/$k: no property id in notes"; continue; }
  id=""
  for suf in ba bb bc bd be bf bg bh; do if [ ! -d seeded/$P$suf ]; then id=$P$suf; break; fi; done
  python3 tools/saveseed.py $d $id 23 | tail -1
  if [ -d seeded/$id ]; then echo "base refactoring: $(cat /tmp/seed23/$T/basename 2>/dev/null)" >> seeded/$id/notes.md; fi
done
git -C /repo worktree remove --force /tmp/wt23-$T 2>/dev/null
