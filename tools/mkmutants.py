#!/usr/bin/env python3
"""Generates /verif/mutants/*.patch from (name, file, old, new) edits of /repo.
Each edit is applied to a pristine checkout in turn (git diff, then reverted).
neutral-* patches are behaviour-preserving refactorings: every check must stay silent on them."""
import subprocess, sys, os
R = "/repo"; OUT = "/verif/mutants"
M = []
def m(name, file, old, new, count=1): M.append((name, [(file, old, new, count)]))
def mm(name, edits): M.append((name, edits))

# ---- C01
m("C01-const-752", "v3/metric/base.go", "impact = 7.52*(impact-0.029)", "impact = 7.51*(impact-0.029)")
m("C01-exp-13", "v3/metric/base.go", "math.Pow(impact-0.02, 15.0)", "math.Pow(impact-0.02, 13.0)")
m("C01-swap-029-02", "v3/metric/base.go", "7.52*(impact-0.029) - 3.25*math.Pow(impact-0.02, 15.0)", "7.52*(impact-0.02) - 3.25*math.Pow(impact-0.029, 15.0)")
m("C01-drop-108", "v3/metric/base.go", "roundUp(math.Min(1.08*(impact+ease), 10))", "roundUp(math.Min((impact+ease), 10))")
m("C01-pr-scope-fixed", "v3/metric/base.go", "bm.PR.Value(bm.S)", "bm.PR.Value(ScopeUnchanged)")
m("C01-impact-lt0", "v3/metric/base.go", "if impact <= 0 {", "if impact < 0 {")
m("C01-no-min", "v3/metric/base.go", "return roundUp(math.Min(impact+ease, 10))", "return roundUp(impact + ease)")
m("C01-round-nearest", "v3/metric/base.go", "return roundUp(math.Min(impact+ease, 10))", "return math.Round(math.Min(impact+ease, 10)*10) / 10")
m("C01-ci-swap-weight", "v3/metric/base.go", "(1-bm.C.Value())*(1-bm.I.Value())*(1-bm.A.Value())", "(1-bm.C.Value())*(1-bm.C.Value())*(1-bm.A.Value())")
# ---- C02
m("C02-rl-t-097", "v3/metric/remediation-level.go", "RemediationLevelTemporaryFix: 0.96", "RemediationLevelTemporaryFix: 0.97")
m("C02-default-e-high", "v3/metric/temporal.go", "E:     ExploitabilityNotDefined,", "E:     ExploitabilityHigh,")
m("C02-drop-rc", "v3/metric/temporal.go", "tm.E.Value() * tm.RL.Value() * tm.RC.Value())", "tm.E.Value() * tm.RL.Value() * tm.RL.Value())")
# ---- C03
m("C03-cap-09", "v3/metric/environmental.go", ", 0.915)", ", 0.9)")
m("C03-poly-swap", "v3/metric/environmental.go", "if em.Ver == V3_1 {", "if em.Ver != V3_1 {")
m("C03-mpr-nd-scope", "v3/metric/environmental.go", "em.MPR.Value(em.MS, em.S, em.PR)", "em.MPR.Value(ModifiedScopeNotDefined, em.S, em.PR)")
m("C03-single-roundup", "v3/metric/environmental.go", "return roundUp(roundUp(math.Min((ModifiedImpact+ModifiedExploitability), 10)) * em.E.Value() * em.RL.Value() * em.RC.Value())", "return roundUp(math.Min((ModifiedImpact+ModifiedExploitability), 10) * em.E.Value() * em.RL.Value() * em.RC.Value())")
m("C03-ir-mc-pairing", "v3/metric/environmental.go", "(1-em.IR.Value()*em.MI.Value(em.I))", "(1-em.IR.Value()*em.MC.Value(em.C))")
m("C03-9731", "v3/metric/environmental.go", "ModifiedImpactSubScore*0.9731-0.02, 13)", "ModifiedImpactSubScore*0.9371-0.02, 13)")
m("C03-mc-table-edit", "v3/metric/modified-confidentiality.go", "ModifiedConfidentialityImpactLow:        0.22,", "ModifiedConfidentialityImpactLow:        0.21,")
# ---- C04
m("C04-1041", "v2/metric/base.go", "roundTo2Decimal(10.41 * (1 - (1-m.C.Value())", "roundTo2Decimal(10.4 * (1 - (1-m.C.Value())")
m("C04-fimpact-const", "v2/metric/base.go", "fimpact := 1.176", "fimpact := 1.175")
m("C04-temporal-unrounded", "v2/metric/temporal.go", "return roundTo1Decimal(baseScore * m.E.Value() * m.RL.Value() * m.RC.Value())", "return roundTo2Decimal(baseScore * m.E.Value() * m.RL.Value() * m.RC.Value())")
m("C04-extra-round2", "v2/metric/base.go", "return roundTo1Decimal(((0.6 * impact) + (0.4 * exploitability) - 1.5) * fimpact)", "return roundTo1Decimal(roundTo2Decimal((0.6*impact)+(0.4*exploitability)-1.5) * fimpact)")
m("C04-e-poc", "v2/metric/metrict-e.go", "ExploitabilityProofOfConcept: 0.9,", "ExploitabilityProofOfConcept: 0.95,")
# ---- C05
m("C05-fimpact-original", "v2/metric/environmental.go", "baseScore = m.Base.score(adjustedImpact)", "baseScore = m.Base.score(adjustedImpact)\n\t\tif m.C.Value()+m.I.Value()+m.A.Value() == 0 {\n\t\t\tbaseScore = 0\n\t\t}")
m("C05-no-min10", "v2/metric/environmental.go", "adjustedImpact := math.Min(10.0, roundTo2Decimal(", "adjustedImpact := math.Max(0.0, roundTo2Decimal(")
m("C05-temporal-from-base", "v2/metric/environmental.go", "adjustedTemporal = m.Temporal.score(baseScore)", "adjustedTemporal = m.Temporal.score(m.Base.Score())")
m("C05-cdp-lm", "v2/metric/metrice-cdp.go", "CollateralDamagePotentialLowMedium:  0.3,", "CollateralDamagePotentialLowMedium:  0.35,")
m("C05-td-inside", "v2/metric/environmental.go", "return roundTo1Decimal((adjustedTemporal + (10-adjustedTemporal)*m.CDP.Value()) * m.TD.Value())", "return roundTo1Decimal(adjustedTemporal*m.TD.Value() + (10-adjustedTemporal)*m.CDP.Value())")

# ---- C06
m("C06-sev-le4", "v3/metric/misc.go", "case score > 0 && score < 4.0:", "case score > 0 && score <= 4.0:")
m("C06-sev-gt9", "v3/metric/misc.go", "case score >= 9.0:", "case score > 9.0:")
m("C06-v2-sev-7", "v2/metric/severity.go", "case score >= 4.0 && score < 7.0:", "case score >= 4.0 && score < 7.5:")
m("C06-temporal-sev-base", "v3/metric/temporal.go", "return severity(tm.Score())", "return severity(tm.Base.Score())")
m("C06-env-sev-temporal", "v2/metric/environmental.go", "return severity(m.Score())", "return severity(m.Temporal.Score())")
m("C06-mul-01", "v2/metric/misc.go", "return math.Round(input*10) / 10", "return math.Round(input*10) * 0.1")
m("C06-roundup-noguard", "v3/metric/misc.go", "\tif int(intInput)%10000 == 0 {\n\t\treturn intInput / 100000\n\t}\n", "\tif int(intInput)%1000 == 0 {\n\t\treturn intInput / 100000\n\t}\n")
m("C06-raw-return", "v3/metric/base.go", "\tif impact <= 0 {\n\t\treturn 0.0\n\t}\n\n\tease", "\tif impact <= 0 {\n\t\treturn impact\n\t}\n\n\tease")
m("C06-format-g", "v3/report/report-temporal.go", "strconv.FormatFloat(temporal.Score(), 'f', -1, 64)", "strconv.FormatFloat(temporal.Score(), 'f', 2, 64)")
# ---- C13
m("C13-x-09", "v3/metric/report-confidence.go", "ReportConfidenceNotDefined: 1,", "ReportConfidenceNotDefined: 0.9,")
m("C13-temporal-102", "v2/metric/metrict-rl.go", "RemediationLevelUnavailable:  1,", "RemediationLevelUnavailable:  1.02,")
m("C13-td-n", "v2/metric/metrice-td.go", "TargetDistributionNon:        0,", "TargetDistributionNon:        0.05,")
m("C13-v2-empty-rounds", "v2/metric/temporal.go", "\tif m.IsEmpty() {\n\t\treturn bs\n\t}", "\tif m.IsEmpty() {\n\t\treturn roundTo1Decimal(bs * 0.99)\n\t}")
m("C13-cr-nd", "v3/metric/confidentiality-requirement.go", "ConfidentialityRequirementNotDefined: 1,", "ConfidentialityRequirementNotDefined: 1.5,")
# ---- C17
m("C17-cname-integrity", "v3/report/report-base.go", "CName:           names.ConfidentialityImpact(opts.lang),", "CName:           names.IntegrityImpact(opts.lang),")
m("C17-temporal-sev-base", "v3/report/report-temporal.go", "names.SeverityValueOf(temporal.Severity(), opts.lang)", "names.SeverityValueOf(temporal.BaseMetrics().Severity(), opts.lang)")
m("C17-lang-not-forwarded", "v3/report/report-environmental.go", "NewTemporal(environmental.TemporalMetrics(), os...)", "NewTemporal(environmental.TemporalMetrics())")
m("C17-vector-lower", "v3/report/report-temporal.go", "vec, _ := temporal.Encode()", "vec, _ := temporal.BaseMetrics().Encode()")
m("C17-mi-shows-ma", "v3/report/report-environmental.go", "names.MIValueOf(environmental.MI, opts.lang)", "names.MIValueOf(metric.ModifiedIntegrityImpact(environmental.MA), opts.lang)")
m("C17-default-lang", "v3/report/options.go", "opts := &options{lang: language.English}", "opts := &options{lang: language.Japanese}")
m("C17-skip-first-option", "v3/report/options.go", "for _, o := range os {", "for _, o := range os[:len(os)/2] {")
m("C17-same-title", "v3/report/names/modified-integrity-impact.go", "\"Modified Integrity Impact\"", "\"Modified Confidentiality Impact \"")
# ---- neutral refactorings
m("neutral-c01-locals", "v3/metric/base.go", "\tease := 8.22 * bm.AV.Value() * bm.AC.Value() * bm.PR.Value(bm.S) * bm.UI.Value()\n", "\tav, ac := bm.AV.Value(), bm.AC.Value()\n\tease := bm.UI.Value() * (8.22 * av * ac) * bm.PR.Value(bm.S)\n")
m("neutral-c01-else-chain", "v3/metric/base.go", "\tif changed {\n\t\treturn roundUp(math.Min(1.08*(impact+ease), 10))\n\t}\n\treturn roundUp(math.Min(impact+ease, 10))", "\tvar total float64\n\tif !changed {\n\t\ttotal = ease + impact\n\t} else {\n\t\ttotal = (impact + ease) * 1.08\n\t}\n\treturn roundUp(math.Min(10, total))")
m("neutral-c03-hoist", "v3/metric/environmental.go", "\tchanges := em.MS.IsChanged(em.S)\n", "\ttemporal := em.E.Value() * em.RL.Value() * em.RC.Value()\n\t_ = temporal\n\tchanges := em.MS.IsChanged(em.S)\n")
m("neutral-c04-temp", "v2/metric/temporal.go", "\tbs := m.Base.Score()\n\tif m.IsEmpty() {\n\t\treturn bs\n\t}\n\treturn m.score(bs)", "\tif !m.IsEmpty() {\n\t\treturn m.score(m.Base.Score())\n\t}\n\treturn m.Base.Score()")
m("neutral-c20-switch-string", "v3/metric/scope.go", "\tif s, ok := scopeMap[sc]; ok {\n\t\treturn s\n\t}\n\treturn \"\"", "\ts, ok := scopeMap[sc]\n\tif !ok {\n\t\treturn \"\"\n\t}\n\treturn s")
m("neutral-c20-reorder-table", "v3/metric/attack-vector.go", "\tAttackVectorPhysical: 0.20,\n\tAttackVectorLocal:    0.55,\n", "\tAttackVectorLocal:    55.0 / 100,\n\tAttackVectorPhysical: 0.2,\n")

def run(*a, **k): return subprocess.run(a, cwd=R, capture_output=True, text=True, **k)
only = sys.argv[1:]
for name, edits in M:
    if only and not any(name.startswith(o) for o in only): continue
    assert run("git", "status", "--porcelain").stdout.strip() == "", "repo not clean"
    ok = True
    for file, old, new, count in edits:
        p = os.path.join(R, file); s = open(p).read()
        if s.count(old) < 1: print("NO MATCH", name, file); ok = False; break
        open(p, "w").write(s.replace(old, new, count))
    if ok:
        d = run("git", "diff").stdout
        open(os.path.join(OUT, name + ".patch"), "w").write(d)
    run("git", "checkout", "--", ".")
print(len(M), "mutants")
