#!/usr/bin/env python3
"""Generates /verif/mutants/*.patch from (name, file, old, new) edits of /repo.
Each edit is applied to a pristine checkout in turn (git diff, then reverted).
neutral-* patches are behaviour-preserving refactorings: every check must stay silent on them."""
import subprocess, sys, os
R = "/repo"; OUT = "/verif/mutants"
M = []
def m(name, file, old, new, count=1): M.append((name, [(file, old, new, count)]))
def mm(name, edits): M.append((name, edits))

# ---- C01
m("C01-const-752", "v3/metric/base.go", "impact = 7.52*(impact-0.029)", "impact = 7.51*(impact-0.029)")
m("C01-exp-13", "v3/metric/base.go", "math.Pow(impact-0.02, 15.0)", "math.Pow(impact-0.02, 13.0)")
m("C01-swap-029-02", "v3/metric/base.go", "7.52*(impact-0.029) - 3.25*math.Pow(impact-0.02, 15.0)", "7.52*(impact-0.02) - 3.25*math.Pow(impact-0.029, 15.0)")
m("C01-drop-108", "v3/metric/base.go", "roundUp(math.Min(1.08*(impact+ease), 10))", "roundUp(math.Min((impact+ease), 10))")
m("C01-pr-scope-fixed", "v3/metric/base.go", "bm.PR.Value(bm.S)", "bm.PR.Value(ScopeUnchanged)")
m("C01-impact-lt0", "v3/metric/base.go", "if impact <= 0 {", "if impact < 0 {")
m("C01-no-min", "v3/metric/base.go", "return roundUp(math.Min(impact+ease, 10))", "return roundUp(impact + ease)")
m("C01-round-nearest", "v3/metric/base.go", "return roundUp(math.Min(impact+ease, 10))", "return math.Round(math.Min(impact+ease, 10)*10) / 10")
m("C01-ci-swap-weight", "v3/metric/base.go", "(1-bm.C.Value())*(1-bm.I.Value())*(1-bm.A.Value())", "(1-bm.C.Value())*(1-bm.C.Value())*(1-bm.A.Value())")
m("C01-roundup-precision", "v3/metric/misc.go", "\tintInput := math.Round(input * 100000)\n\n\tif int(intInput)%10000 == 0 {\n\t\treturn intInput / 100000\n\t}\n\n\treturn (math.Floor(intInput/10000) + 1) / 10.0", "\tintInput := math.Round(input * 1000)\n\n\tif int(intInput)%100 == 0 {\n\t\treturn intInput / 1000\n\t}\n\n\treturn (math.Floor(intInput/100) + 1) / 10.0")
m("C01-roundup-trunc", "v3/metric/misc.go", "\tintInput := math.Round(input * 100000)", "\tintInput := math.Trunc(input * 100000)")
# ---- C02
m("C02-rl-t-097", "v3/metric/remediation-level.go", "RemediationLevelTemporaryFix: 0.96", "RemediationLevelTemporaryFix: 0.97")
m("C02-default-e-high", "v3/metric/temporal.go", "E:     ExploitabilityNotDefined,", "E:     ExploitabilityHigh,")
m("C02-drop-rc", "v3/metric/temporal.go", "tm.E.Value() * tm.RL.Value() * tm.RC.Value())", "tm.E.Value() * tm.RL.Value() * tm.RL.Value())")
# ---- C03
m("C03-cap-09", "v3/metric/environmental.go", ", 0.915)", ", 0.9)")
m("C03-poly-swap", "v3/metric/environmental.go", "if em.Ver == V3_1 {", "if em.Ver != V3_1 {")
m("C03-mpr-nd-scope", "v3/metric/environmental.go", "em.MPR.Value(em.MS, em.S, em.PR)", "em.MPR.Value(ModifiedScopeNotDefined, em.S, em.PR)")
m("C03-single-roundup", "v3/metric/environmental.go", "return roundUp(roundUp(math.Min((ModifiedImpact+ModifiedExploitability), 10)) * em.E.Value() * em.RL.Value() * em.RC.Value())", "return roundUp(math.Min((ModifiedImpact+ModifiedExploitability), 10) * em.E.Value() * em.RL.Value() * em.RC.Value())")
m("C03-ir-mc-pairing", "v3/metric/environmental.go", "(1-em.IR.Value()*em.MI.Value(em.I))", "(1-em.IR.Value()*em.MC.Value(em.C))")
m("C03-9731", "v3/metric/environmental.go", "ModifiedImpactSubScore*0.9731-0.02, 13)", "ModifiedImpactSubScore*0.9371-0.02, 13)")
m("C03-mc-table-edit", "v3/metric/modified-confidentiality.go", "ModifiedConfidentialityImpactLow:        0.22,", "ModifiedConfidentialityImpactLow:        0.21,")
# ---- C04
m("C04-1041", "v2/metric/base.go", "roundTo2Decimal(10.41 * (1 - (1-m.C.Value())", "roundTo2Decimal(10.4 * (1 - (1-m.C.Value())")
m("C04-fimpact-const", "v2/metric/base.go", "fimpact := 1.176", "fimpact := 1.175")
m("C04-temporal-unrounded", "v2/metric/temporal.go", "return roundTo1Decimal(baseScore * m.E.Value() * m.RL.Value() * m.RC.Value())", "return roundTo2Decimal(baseScore * m.E.Value() * m.RL.Value() * m.RC.Value())")
m("C04-extra-round2", "v2/metric/base.go", "return roundTo1Decimal(((0.6 * impact) + (0.4 * exploitability) - 1.5) * fimpact)", "return roundTo1Decimal(roundTo2Decimal((0.6*impact)+(0.4*exploitability)-1.5) * fimpact)")
m("C04-e-poc", "v2/metric/metrict-e.go", "ExploitabilityProofOfConcept: 0.9,", "ExploitabilityProofOfConcept: 0.95,")
# ---- C05
m("C05-fimpact-original", "v2/metric/environmental.go", "baseScore = m.Base.score(adjustedImpact)", "baseScore = m.Base.score(adjustedImpact)\n\t\tif m.C.Value()+m.I.Value()+m.A.Value() == 0 {\n\t\t\tbaseScore = 0\n\t\t}")
m("C05-no-min10", "v2/metric/environmental.go", "adjustedImpact := math.Min(10.0, roundTo2Decimal(", "adjustedImpact := math.Max(0.0, roundTo2Decimal(")
m("C05-temporal-from-base", "v2/metric/environmental.go", "adjustedTemporal = m.Temporal.score(baseScore)", "adjustedTemporal = m.Temporal.score(m.Base.Score())")
m("C05-cdp-lm", "v2/metric/metrice-cdp.go", "CollateralDamagePotentialLowMedium:  0.3,", "CollateralDamagePotentialLowMedium:  0.35,")
m("C05-td-inside", "v2/metric/environmental.go", "return roundTo1Decimal((adjustedTemporal + (10-adjustedTemporal)*m.CDP.Value()) * m.TD.Value())", "return roundTo1Decimal(adjustedTemporal*m.TD.Value() + (10-adjustedTemporal)*m.CDP.Value())")

# ---- C06
m("C06-sev-le4", "v3/metric/misc.go", "case score > 0 && score < 4.0:", "case score > 0 && score <= 4.0:")
m("C06-sev-gt9", "v3/metric/misc.go", "case score >= 9.0:", "case score > 9.0:")
m("C06-v2-sev-7", "v2/metric/severity.go", "case score >= 4.0 && score < 7.0:", "case score >= 4.0 && score < 7.5:")
m("C06-temporal-sev-base", "v3/metric/temporal.go", "return severity(tm.Score())", "return severity(tm.Base.Score())")
m("C06-env-sev-temporal", "v2/metric/environmental.go", "return severity(m.Score())", "return severity(m.Temporal.Score())")
m("C06-mul-01", "v2/metric/misc.go", "return math.Round(input*10) / 10", "return math.Round(input*10) * 0.1")
m("C06-roundup-noguard", "v3/metric/misc.go", "\tif int(intInput)%10000 == 0 {\n\t\treturn intInput / 100000\n\t}\n", "\tif int(intInput)%1000 == 0 {\n\t\treturn intInput / 100000\n\t}\n")
m("C06-raw-return", "v3/metric/base.go", "\tif impact <= 0 {\n\t\treturn 0.0\n\t}\n\n\tease", "\tif impact <= 0 {\n\t\treturn impact\n\t}\n\n\tease")
m("C06-format-g", "v3/report/report-temporal.go", "strconv.FormatFloat(temporal.Score(), 'f', -1, 64)", "strconv.FormatFloat(temporal.Score(), 'f', 2, 64)")
m("C07-mark-before-duplicate-test", "v3/metric/base.go", "\tif bm.names[name] {\n\t\treturn errs.Wrap(cvsserr.ErrSameMetric, errs.WithContext(\"metric\", str))\n\t}", "\tseen := bm.names[name]\n\tbm.names[name] = true\n\tif bm.names[name] && !seen && len(name) > 2 {\n\t\treturn errs.Wrap(cvsserr.ErrSameMetric, errs.WithContext(\"metric\", str))\n\t}")
# ---- C13
m("C13-x-09", "v3/metric/report-confidence.go", "ReportConfidenceNotDefined: 1,", "ReportConfidenceNotDefined: 0.9,")
m("C13-temporal-102", "v2/metric/metrict-rl.go", "RemediationLevelUnavailable:  1,", "RemediationLevelUnavailable:  1.02,")
m("C13-td-n", "v2/metric/metrice-td.go", "TargetDistributionNon:        0,", "TargetDistributionNon:        0.05,")
m("C13-v2-empty-rounds", "v2/metric/temporal.go", "\tif m.IsEmpty() {\n\t\treturn bs\n\t}", "\tif m.IsEmpty() {\n\t\treturn roundTo1Decimal(bs * 0.99)\n\t}")
m("C13-cr-nd", "v3/metric/confidentiality-requirement.go", "ConfidentialityRequirementNotDefined: 1,", "ConfidentialityRequirementNotDefined: 1.5,")
# ---- C17
m("C17-cname-integrity", "v3/report/report-base.go", "CName:           names.ConfidentialityImpact(opts.lang),", "CName:           names.IntegrityImpact(opts.lang),")
m("C17-temporal-sev-base", "v3/report/report-temporal.go", "names.SeverityValueOf(temporal.Severity(), opts.lang)", "names.SeverityValueOf(temporal.BaseMetrics().Severity(), opts.lang)")
m("C17-lang-not-forwarded", "v3/report/report-environmental.go", "NewTemporal(environmental.TemporalMetrics(), os...)", "NewTemporal(environmental.TemporalMetrics())")
m("C17-vector-lower", "v3/report/report-temporal.go", "vec, _ := temporal.Encode()", "vec, _ := temporal.BaseMetrics().Encode()")
m("C17-mi-shows-ma", "v3/report/report-environmental.go", "names.MIValueOf(environmental.MI, opts.lang)", "names.MIValueOf(metric.ModifiedIntegrityImpact(environmental.MA), opts.lang)")
m("C17-default-lang", "v3/report/options.go", "opts := &options{lang: language.English}", "opts := &options{lang: language.Japanese}")
m("C17-skip-first-option", "v3/report/options.go", "for _, o := range os {", "for _, o := range os[:len(os)/2] {")
m("C17-same-title", "v3/report/names/modified-integrity-impact.go", "\"Modified Integrity Impact\"", "\"Modified Confidentiality Impact \"")

# ---- C07
m("C07-arm-early-return", "v3/metric/base.go", "\tcase metricUI: //User Interaction\n\t\tbm.UI = GetUserInteraction(m[1])\n\t\tif bm.UI == UserInteractionUnknown {\n\t\t\treturn errs.Wrap(cvsserr.ErrInvalidValue, errs.WithContext(\"metric\", str))\n\t\t}\n", "\tcase metricUI: //User Interaction\n\t\tbm.UI = GetUserInteraction(m[1])\n\t\tif bm.UI == UserInteractionUnknown {\n\t\t\treturn errs.Wrap(cvsserr.ErrInvalidValue, errs.WithContext(\"metric\", str))\n\t\t}\n\t\treturn nil\n")
m("C07-no-dup-test-temporal", "v3/metric/temporal.go", "\tif tm.names[name] {\n\t\treturn errs.Wrap(cvsserr.ErrSameMetric, errs.WithContext(\"metric\", str))\n\t}\n", "")
m("C07-trimspace", "v3/metric/base.go", "\tvalues := strings.Split(vector, \"/\")\n\t//CVSS version", "\tvalues := strings.Split(strings.TrimSpace(vector), \"/\")\n\t//CVSS version")
mm("C07-equalfold", [("v3/metric/scope.go", "\t\tif s == v {", "\t\tif strings.EqualFold(s, v) {", 1), ("v3/metric/scope.go", "package metric\n", "package metric\n\nimport \"strings\"\n", 1)])
m("C07-len-lt2", "v3/metric/environmental.go", "\tif len(m) != 2 || len(m[0]) == 0 || len(m[1]) == 0 {", "\tif len(m) < 2 || len(m[0]) == 0 || len(m[1]) == 0 {")
m("C07-skip-last-token", "v3/metric/temporal.go", "for _, value := range values[1:] {", "for _, value := range values[1:len(values):len(values)][:len(values)-1] {")
m("C07-temporal-lists-cr", "v3/metric/temporal.go", "\tdefault:\n\t\treturn errs.Wrap(cvsserr.ErrNotSupportMetric, errs.WithContext(\"metric\", str))\n\t}\n\ttm.names[name] = true", "\tcase \"CR\":\n\tdefault:\n\t\treturn errs.Wrap(cvsserr.ErrNotSupportMetric, errs.WithContext(\"metric\", str))\n\t}\n\ttm.names[name] = true")
m("C07-lowercase-alias", "v3/metric/attack-complexity.go", "func GetAttackComplexity(s string) AttackComplexity {\n", "func GetAttackComplexity(s string) AttackComplexity {\n\tif s == \"l\" {\n\t\treturn AttackComplexityLow\n\t}\n")
m("C07-version-30only", "v3/metric/version.go", "\tif v[0] != nameCVSS {", "\tif v[0] != nameCVSS && v[0] != \"cvss\" {")
m("C07-no-geterror", "v3/metric/temporal.go", "\tif err := tm.GetError(); err != nil {\n\t\treturn nil, err\n\t}\n\treturn tm, nil", "\tif err := tm.Base.GetError(); err != nil {\n\t\treturn nil, err\n\t}\n\treturn tm, nil")
m("C07-lasterr-reset", "v3/metric/environmental.go", "\t\t\tlastErr = err\n\t\t}\n\t}\n\tif lastErr != nil {\n\t\treturn nil, lastErr\n\t}\n\tif err := em.GetError()", "\t\t\tlastErr = err\n\t\t} else {\n\t\t\tlastErr = nil\n\t\t}\n\t}\n\tif lastErr != nil {\n\t\treturn nil, lastErr\n\t}\n\tif err := em.GetError()")
m("C07-geterror-forgets-ui", "v3/metric/base.go", "bm.PR.IsUnknown(), bm.UI.IsUnknown(), bm.S.IsUnknown()", "bm.PR.IsUnknown(), bm.S.IsUnknown()")
# ---- C08
m("C08-compare-base-encode", "v2/metric/temporal.go", "\tenc, err := m.Encode()\n\tif err != nil {\n\t\treturn nil, errs.Wrap(err, errs.WithContext(\"vector\", vector))\n\t}\n\tif vector != enc {", "\tenc, err := m.Encode()\n\tif err != nil {\n\t\treturn nil, errs.Wrap(err, errs.WithContext(\"vector\", vector))\n\t}\n\tif !strings.HasPrefix(vector, enc) {")
m("C08-partial-group", "v2/metric/temporal.go", "\tcase !m.E.IsValid(), !m.RL.IsValid(), !m.RC.IsValid():", "\tcase !m.E.IsValid() && !m.RL.IsValid() && !m.RC.IsValid():")
m("C08-encode-order", "v2/metric/environmental.go", "\tif m.names[metricCDP] {\n\t\tr.WriteString(fmt.Sprintf(\"/%s:%v\", metricCDP, m.CDP)) // Collateral Damage Potential\n\t}\n\tif m.names[metricTD] {\n\t\tr.WriteString(fmt.Sprintf(\"/%s:%v\", metricTD, m.TD)) // Target Distribution\n\t}\n", "\tif m.names[metricTD] {\n\t\tr.WriteString(fmt.Sprintf(\"/%s:%v\", metricTD, m.TD)) // Target Distribution\n\t}\n\tif m.names[metricCDP] {\n\t\tr.WriteString(fmt.Sprintf(\"/%s:%v\", metricCDP, m.CDP)) // Collateral Damage Potential\n\t}\n")
m("C08-no-misorder-check", "v2/metric/base.go", "\tif vector != enc {\n\t\treturn nil, errs.Wrap(cvsserr.ErrMisordered, errs.WithContext(\"vector\", vector))\n\t}\n", "\tif len(vector) != len(enc) {\n\t\treturn nil, errs.Wrap(cvsserr.ErrMisordered, errs.WithContext(\"vector\", vector))\n\t}\n")
# ---- C09
mm("C09-swap-mi-ma-consts", [("v3/metric/environmental.go", "\tmetricMI  = \"MI\"\n\tmetricMA  = \"MA\"", "\tmetricMI  = \"MA\"\n\tmetricMA  = \"MI\"", 1)])
m("C09-arm-resets-other", "v3/metric/environmental.go", "\t\tem.MS = GetModifiedScope(m[1])\n", "\t\tem.MS = GetModifiedScope(m[1])\n\t\tem.MPR = ModifiedPrivilegesRequiredNotDefined\n")
m("C09-get-name-part", "v2/metric/metric-au.go", "func GetAuthentication(s string) Authentication {\n", "func GetAuthentication(s string) Authentication {\n\tif s == \"NONE\" {\n\t\ts = \"N\"\n\t}\n")
m("C09-encode-consults-names", "v3/metric/temporal.go", "\tr.WriteString(fmt.Sprintf(\"/%v:%v\", metricE, tm.E))   //Exploitability\n", "\tif tm.names[metricE] {\n\t\tr.WriteString(fmt.Sprintf(\"/%v:%v\", metricE, tm.E)) //Exploitability\n\t}\n")
m("C09-order-dependent-arm", "v3/metric/base.go", "\t\tbm.PR = GetPrivilegesRequired(m[1])\n", "\t\tbm.PR = GetPrivilegesRequired(m[1])\n\t\tif bm.S == ScopeChanged && bm.PR == PrivilegesRequiredHigh {\n\t\t\tbm.PR = PrivilegesRequiredLow\n\t\t}\n")
m("C09-v2-default-nd", "v2/metric/environmental.go", "\t\tTD:       TargetDistributionInvalid,", "\t\tTD:       TargetDistributionNotDefined,")
# ---- C10
m("C10-rl-rc-order", "v3/metric/temporal.go", "\tr.WriteString(fmt.Sprintf(\"/%v:%v\", metricRL, tm.RL)) //Remediation Level\n\tr.WriteString(fmt.Sprintf(\"/%v:%v\", metricRC, tm.RC)) //Report Confidence\n", "\tr.WriteString(fmt.Sprintf(\"/%v:%v\", metricRC, tm.RC)) //Report Confidence\n\tr.WriteString(fmt.Sprintf(\"/%v:%v\", metricRL, tm.RL)) //Remediation Level\n")
m("C10-mc-prints-mi", "v3/metric/environmental.go", "fmt.Sprintf(\"/%v:%v\", metricMC, em.MC)", "fmt.Sprintf(\"/%v:%v\", metricMC, em.MI)")
m("C10-string-lower", "v3/metric/environmental.go", "func (em *Environmental) String() string {\n\ts, _ := em.Encode()", "func (em *Environmental) String() string {\n\ts, _ := em.Temporal.Encode()")
m("C10-encode-err-lower", "v2/metric/temporal.go", "\treturn r.String(), m.GetError()\n}\n\n// String is stringer method.\nfunc (m *Temporal)", "\treturn r.String(), m.Base.GetError()\n}\n\n// String is stringer method.\nfunc (m *Temporal)")
m("C10-x-printed-empty", "v3/metric/modified-scope.go", "ModifiedScopeNotDefined: \"X\",", "ModifiedScopeNotDefined: \"ND\",")
# ---- C11
m("C11-invalid-vector-for-value", "v3/metric/base.go", "\t\tif bm.S == ScopeUnknown {\n\t\t\treturn errs.Wrap(cvsserr.ErrInvalidValue,", "\t\tif bm.S == ScopeUnknown {\n\t\t\treturn errs.Wrap(cvsserr.ErrInvalidVector,")
m("C11-withcause-two-sentinels", "v2/metric/base.go", "\t\treturn nil, errs.Wrap(cvsserr.ErrMisordered, errs.WithContext(\"vector\", vector))", "\t\treturn nil, errs.Wrap(cvsserr.ErrMisordered, errs.WithCause(cvsserr.ErrInvalidVector), errs.WithContext(\"vector\", vector))")
m("C11-errorf-no-w", "v3/metric/version.go", "\tif len(v) != 2 {\n\t\treturn VUnknown, errs.Wrap(cvsserr.ErrInvalidVector, errs.WithContext(\"vector\", vec))", "\tif len(v) != 2 {\n\t\treturn VUnknown, errs.New(\"invalid prefix \" + vec)")
m("C11-dup-after-value", "v3/metric/temporal.go", "\tcase metricE: //Exploitability\n\t\ttm.E = GetExploitability(m[1])\n\t\tif tm.E == ExploitabilityInvalid {\n\t\t\treturn errs.Wrap(cvsserr.ErrInvalidValue,", "\tcase metricE: //Exploitability\n\t\ttm.E = GetExploitability(m[1])\n\t\tif tm.E == ExploitabilityInvalid {\n\t\t\treturn errs.Wrap(cvsserr.ErrSameMetric,")
m("C11-swallow-lower-error", "v3/metric/environmental.go", "\tif err := em.Temporal.decodeOne(str); err != nil {\n\t\tif !errs.Is(err, cvsserr.ErrNotSupportMetric) {\n\t\t\treturn errs.Wrap(err, errs.WithContext(\"metric\", str))\n\t\t}", "\tif err := em.Temporal.decodeOne(str); err != nil {\n\t\tif !errs.Is(err, cvsserr.ErrNotSupportMetric) && !errs.Is(err, cvsserr.ErrSameMetric) {\n\t\t\treturn errs.Wrap(err, errs.WithContext(\"metric\", str))\n\t\t}")
m("C11-v2-group-sentinel", "v2/metric/environmental.go", "\t\treturn errs.Wrap(cvsserr.ErrNoEnvironmentalMetrics)\n\tdefault:", "\t\treturn errs.Wrap(cvsserr.ErrNoTemporalMetrics)\n\tdefault:")
# ---- C12
m("C12-isempty-no-nilguard", "v2/metric/temporal.go", "func (m *Temporal) IsEmpty() bool {\n\tif m == nil {\n\t\treturn true\n\t}\n", "func (m *Temporal) IsEmpty() bool {\n")
m("C12-accessor-no-nilguard", "v3/metric/environmental.go", "func (em *Environmental) TemporalMetrics() *Temporal {\n\tif em == nil {\n\t\treturn nil\n\t}\n", "func (em *Environmental) TemporalMetrics() *Temporal {\n")
m("C12-score-no-gate", "v3/metric/temporal.go", "func (tm *Temporal) Score() float64 {\n\tif err := tm.GetError(); err != nil {\n\t\treturn 0.0\n\t}\n", "func (tm *Temporal) Score() float64 {\n\tif tm == nil {\n\t\treturn 0.0\n\t}\n")
m("C12-return-obj-and-err", "v2/metric/base.go", "\tif lastErr != nil {\n\t\treturn nil, lastErr\n\t}", "\tif lastErr != nil {\n\t\treturn m, lastErr\n\t}")
m("C12-getversion-index", "v3/metric/version.go", "\tif len(v) != 2 {\n", "\tif len(v) > 2 {\n")
m("C12-nil-names", "v3/metric/temporal.go", "\t\tRC:    ReportConfidenceNotDefined,\n\t\tnames: map[string]bool{},", "\t\tRC:    ReportConfidenceNotDefined,")
m("C12-encode-nil-deref", "v2/metric/environmental.go", "func (m *Environmental) Encode() (string, error) {\n\tif m == nil {\n\t\treturn \"\", errs.Wrap(cvsserr.ErrNoBaseMetrics)\n\t}\n", "func (m *Environmental) Encode() (string, error) {\n")
# ---- C14
m("C14-basemetrics-fresh", "v3/metric/environmental.go", "func (em *Environmental) BaseMetrics() *Base {\n\tif em == nil {\n\t\treturn nil\n\t}\n\treturn em.Base", "func (em *Environmental) BaseMetrics() *Base {\n\tif em == nil {\n\t\treturn nil\n\t}\n\tb := *em.Base\n\treturn &b")
m("C14-higher-handles-pr", "v3/metric/temporal.go", "\tswitch name {\n\tcase metricE: //Exploitability", "\tswitch name {\n\tcase metricPR:\n\t\ttm.PR = GetPrivilegesRequired(m[1])\n\tcase metricE: //Exploitability")
m("C14-temporalmetrics-rebuild", "v2/metric/environmental.go", "func (m *Environmental) TemporalMetrics() *Temporal {\n\tif m == nil {\n\t\treturn nil\n\t}\n\treturn m.Temporal", "func (m *Environmental) TemporalMetrics() *Temporal {\n\tif m == nil {\n\t\treturn nil\n\t}\n\treturn &Temporal{Base: m.Base, names: map[string]bool{}}")
m("C14-no-delegation", "v2/metric/environmental.go", "\tif err := m.Temporal.decodeOne(str); err != nil {", "\tif err := m.Temporal.Base.decodeOne(str); err != nil {")

# ---- C15
mm("C15-memo-score", [("v3/metric/base.go", "\tnames map[string]bool\n}\n\n// NewBase", "\tnames map[string]bool\n\tmemo  float64\n}\n\n// NewBase", 1), ("v3/metric/base.go", "\tif changed {\n\t\treturn roundUp(math.Min(1.08*(impact+ease), 10))\n\t}\n\treturn roundUp(math.Min(impact+ease, 10))", "\tif changed {\n\t\tbm.memo = roundUp(math.Min(1.08*(impact+ease), 10))\n\t\treturn bm.memo\n\t}\n\treturn roundUp(math.Min(impact+ease, 10))", 1)])
mm("C15-lazy-reverse-table", [("v3/metric/scope.go", "// GetScope returns result of Scope metric\nfunc GetScope(s string) Scope {\n", "var scopeRev map[string]Scope\n\n// GetScope returns result of Scope metric\nfunc GetScope(s string) Scope {\n\tif scopeRev == nil {\n\t\tscopeRev = map[string]Scope{}\n\t\tfor k, v := range scopeMap {\n\t\t\tscopeRev[v] = k\n\t\t}\n\t}\n\tif k, ok := scopeRev[s]; ok {\n\t\treturn k\n\t}\n", 1)])
mm("C15-package-level-names", [("v2/metric/base.go", "\t\tA:     AvailabilityImpactUnknown,\n\t\tnames: map[string]bool{},", "\t\tA:     AvailabilityImpactUnknown,\n\t\tnames: sharedNames,", 1), ("v2/metric/base.go", "// NewMetrics returns Metrics instance", "var sharedNames = map[string]bool{}\n\n// NewMetrics returns Metrics instance", 1)])
m("C15-encode-normalises", "v3/metric/temporal.go", "\tbs, _ := tm.Base.Encode()\n", "\tbs, _ := tm.Base.Encode()\n\tif !tm.E.IsValid() {\n\t\ttm.E = ExploitabilityNotDefined\n\t}\n")
m("C15-dup-code-order", "v2/metric/metrict-rc.go", "ReportConfidenceUncorroborated: \"UR\",", "ReportConfidenceUncorroborated: \"UC\",")
mm("C15-time-dependent", [("v3/metric/misc.go", "import \"math\"", "import (\n\t\"math\"\n\t\"time\"\n)", 1), ("v3/metric/misc.go", "\tintInput := math.Round(input * 100000)\n", "\tintInput := math.Round(input * 100000)\n\tif time.Now().Year() > 2100 {\n\t\tintInput++\n\t}\n", 1)])
m("C15-geterror-marks", "v2/metric/temporal.go", "\tif m.IsEmpty() {\n\t\treturn nil\n\t}\n\tswitch true {\n\tcase !m.E.IsValid()", "\tif m.IsEmpty() {\n\t\tm.names[\"checked\"] = false\n\t\treturn nil\n\t}\n\tswitch true {\n\tcase !m.E.IsValid()")
m("C15-report-mutates-metric", "v3/report/report-base.go", "\tvec, _ := base.Encode()\n", "\tvec, _ := base.Encode()\n\tif base.Ver == metric.VUnknown {\n\t\tbase.Ver = metric.V3_1\n\t}\n")
# ---- C16
mm("C16-shared-template", [("v3/report/templete.go", "func executeTemplate(data interface{}, tempStr string) (io.Reader, error) {\n\tt, err := template.New(\"Repost\").Parse(tempStr)", "var sharedTmpl = template.New(\"Repost\")\n\nfunc executeTemplate(data interface{}, tempStr string) (io.Reader, error) {\n\tt, err := sharedTmpl.Parse(tempStr)", 1)])
mm("C16-shared-buffer", [("v3/report/templete.go", "\tbuf := &bytes.Buffer{}\n\tif err := t.Execute(buf, data)", "\tbuf := scratch\n\tbuf.Reset()\n\tif err := t.Execute(buf, data)", 1), ("v3/report/templete.go", "func executeTemplate(", "var scratch = &bytes.Buffer{}\n\nfunc executeTemplate(", 1)])
mm("C16-mutex-cache", [("v3/metric/attack-vector.go", "package metric\n", "package metric\n\nimport \"sync\"\n\nvar (\n\tavMu    sync.Mutex\n\tavCache = map[string]AttackVector{}\n)\n", 1), ("v3/metric/attack-vector.go", "func GetAttackVector(s string) AttackVector {\n", "func GetAttackVector(s string) AttackVector {\n\tavMu.Lock()\n\tif v, ok := avCache[s]; ok {\n\t\tavMu.Unlock()\n\t\treturn v\n\t}\n\tavMu.Unlock()\n", 1)])
m("C16-goroutine", "v3/report/report-temporal.go", "\topts := newOptions(os...)\n\tvec, _ := temporal.Encode()", "\topts := newOptions(os...)\n\tdone := make(chan string, 1)\n\tgo func() { s, _ := temporal.Encode(); done <- s }()\n\tvec := <-done")
# ---- C19
m("C19-buf-with-error", "v3/report/templete.go", "\tif err := t.Execute(buf, data); err != nil {\n\t\treturn nil, errs.Wrap", "\tif err := t.Execute(buf, data); err != nil {\n\t\treturn buf, errs.Wrap")
mm("C19-trimspace", [("v3/report/report-temporal.go", "\treturn executeTemplate(rep, str)", "\treturn executeTemplate(rep, strings.TrimSpace(str))", 1), ("v3/report/report-temporal.go", "\t\"strconv\"\n", "\t\"strconv\"\n\t\"strings\"\n", 1)])
m("C19-wrap-loses-sentinel", "v3/report/templete.go", "\tif err != nil {\n\t\treturn nil, errs.Wrap(cvsserr.ErrInvalidTemplate, errs.WithCause(err), errs.WithContext(\"templete\", tempStr))\n\t}\n\tbuf", "\tif err != nil {\n\t\treturn nil, errs.Wrap(err, errs.WithContext(\"templete\", tempStr))\n\t}\n\tbuf")
m("C19-no-nil-guard-env", "v3/report/report-environmental.go", "\tif rep == nil {\n\t\treturn nil, errs.Wrap(cvsserr.ErrNullPointer)\n\t}\n\treturn executeTemplate(rep, str)", "\tif rep == nil && str == \"\" {\n\t\treturn nil, errs.Wrap(cvsserr.ErrNullPointer)\n\t}\n\treturn executeTemplate(rep, str)")
m("C19-nil-reader-unchecked", "v3/report/templete.go", "\tif r == nil {\n\t\treturn \"\", errs.Wrap(cvsserr.ErrInvalidTemplate)\n\t}\n", "")
m("C19-funcs", "v3/report/templete.go", "template.New(\"Repost\").Parse(tempStr)", "template.New(\"Repost\").Option(\"missingkey=zero\").Parse(tempStr)")
m("C19-base-data", "v3/report/report-environmental.go", "\treturn executeTemplate(rep, str)", "\treturn executeTemplate(rep.TemporalReport, str)")
m("C19-limitreader", "v3/report/templete.go", "io.Copy(tmpdata, r)", "io.Copy(tmpdata, io.LimitReader(r, 4096))")
# ---- neutral refactorings
m("neutral-c01-locals", "v3/metric/base.go", "\tease := 8.22 * bm.AV.Value() * bm.AC.Value() * bm.PR.Value(bm.S) * bm.UI.Value()\n", "\tav, ac := bm.AV.Value(), bm.AC.Value()\n\tease := bm.UI.Value() * (8.22 * av * ac) * bm.PR.Value(bm.S)\n")
m("neutral-c01-else-chain", "v3/metric/base.go", "\tif changed {\n\t\treturn roundUp(math.Min(1.08*(impact+ease), 10))\n\t}\n\treturn roundUp(math.Min(impact+ease, 10))", "\tvar total float64\n\tif !changed {\n\t\ttotal = ease + impact\n\t} else {\n\t\ttotal = (impact + ease) * 1.08\n\t}\n\treturn roundUp(math.Min(10, total))")
m("neutral-c03-hoist", "v3/metric/environmental.go", "\tchanges := em.MS.IsChanged(em.S)\n", "\ttemporal := em.E.Value() * em.RL.Value() * em.RC.Value()\n\t_ = temporal\n\tchanges := em.MS.IsChanged(em.S)\n")
m("neutral-c04-temp", "v2/metric/temporal.go", "\tbs := m.Base.Score()\n\tif m.IsEmpty() {\n\t\treturn bs\n\t}\n\treturn m.score(bs)", "\tif !m.IsEmpty() {\n\t\treturn m.score(m.Base.Score())\n\t}\n\treturn m.Base.Score()")
m("neutral-c20-switch-string", "v3/metric/scope.go", "\tif s, ok := scopeMap[sc]; ok {\n\t\treturn s\n\t}\n\treturn \"\"", "\ts, ok := scopeMap[sc]\n\tif !ok {\n\t\treturn \"\"\n\t}\n\treturn s")
m("neutral-c20-reorder-table", "v3/metric/attack-vector.go", "\tAttackVectorPhysical: 0.20,\n\tAttackVectorLocal:    0.55,\n", "\tAttackVectorLocal:    55.0 / 100,\n\tAttackVectorPhysical: 0.2,\n")


m("neutral-decodeone-reorder-arms", "v3/metric/base.go", "\tcase metricAV: //Attack Vector\n\t\tbm.AV = GetAttackVector(m[1])\n\t\tif bm.AV == AttackVectorUnknown {\n\t\t\treturn errs.Wrap(cvsserr.ErrInvalidValue, errs.WithContext(\"metric\", str))\n\t\t}\n\tcase metricAC: //Attack Complexity\n\t\tbm.AC = GetAttackComplexity(m[1])\n\t\tif bm.AC == AttackComplexityUnknown {\n\t\t\treturn errs.Wrap(cvsserr.ErrInvalidValue, errs.WithContext(\"metric\", str))\n\t\t}\n", "\tcase metricAC: //Attack Complexity\n\t\tbm.AC = GetAttackComplexity(m[1])\n\t\tif bm.AC == AttackComplexityUnknown {\n\t\t\treturn errs.Wrap(cvsserr.ErrInvalidValue, errs.WithContext(\"metric\", str))\n\t\t}\n\tcase metricAV: //Attack Vector\n\t\tv := GetAttackVector(m[1])\n\t\tbm.AV = v\n\t\tif v == AttackVectorUnknown {\n\t\t\treturn errs.Wrap(cvsserr.ErrInvalidValue, errs.WithContext(\"metric\", str))\n\t\t}\n")
m("neutral-decodeone-ifchain", "v2/metric/temporal.go", "\tswitch name {\n\tcase metricE: // Exploitability\n\t\tm.E = GetExploitability(elm[1])\n\t\tif m.E == ExploitabilityInvalid {\n\t\t\treturn errs.Wrap(cvsserr.ErrInvalidValue, errs.WithContext(\"metric\", str))\n\t\t}\n\tcase metricRL: // RemediationLevel\n\t\tm.RL = GetRemediationLevel(elm[1])\n\t\tif m.RL == RemediationLevelInvalid {\n\t\t\treturn errs.Wrap(cvsserr.ErrInvalidValue, errs.WithContext(\"metric\", str))\n\t\t}\n\tcase metricRC: // RemediationLevel\n\t\tm.RC = GetReportConfidence(elm[1])\n\t\tif m.RC == ReportConfidenceInvalid {\n\t\t\treturn errs.Wrap(cvsserr.ErrInvalidValue, errs.WithContext(\"metric\", str))\n\t\t}\n\tdefault:\n\t\treturn errs.Wrap(cvsserr.ErrNotSupportMetric, errs.WithContext(\"vector\", str))\n\t}\n", "\tif name == metricE {\n\t\tm.E = GetExploitability(elm[1])\n\t\tif m.E == ExploitabilityInvalid {\n\t\t\treturn errs.Wrap(cvsserr.ErrInvalidValue, errs.WithContext(\"metric\", str))\n\t\t}\n\t} else if name == metricRL {\n\t\tm.RL = GetRemediationLevel(elm[1])\n\t\tif m.RL == RemediationLevelInvalid {\n\t\t\treturn errs.Wrap(cvsserr.ErrInvalidValue, errs.WithContext(\"metric\", str))\n\t\t}\n\t} else if name == metricRC {\n\t\tm.RC = GetReportConfidence(elm[1])\n\t\tif m.RC == ReportConfidenceInvalid {\n\t\t\treturn errs.Wrap(cvsserr.ErrInvalidValue, errs.WithContext(\"metric\", str))\n\t\t}\n\t} else {\n\t\treturn errs.Wrap(cvsserr.ErrNotSupportMetric, errs.WithContext(\"vector\", str))\n\t}\n")
mm("neutral-decode-rename", [("v3/metric/temporal.go", "\tvar lastErr error\n\tfor _, value := range values[1:] {\n\t\tif err := tm.decodeOne(value); err != nil {\n\t\t\tif !errs.Is(err, cvsserr.ErrNotSupportMetric) {\n\t\t\t\treturn nil, errs.Wrap(err, errs.WithContext(\"vector\", vector))\n\t\t\t}\n\t\t\tlastErr = err\n\t\t}\n\t}\n\tif lastErr != nil {\n\t\treturn nil, lastErr\n\t}", "\tvar deferred error\n\ttoks := values[1:]\n\tfor _, tok := range toks {\n\t\terr := tm.decodeOne(tok)\n\t\tif err == nil {\n\t\t\tcontinue\n\t\t}\n\t\tif !errs.Is(err, cvsserr.ErrNotSupportMetric) {\n\t\t\treturn nil, errs.Wrap(err, errs.WithContext(\"vector\", vector))\n\t\t}\n\t\tdeferred = err\n\t}\n\tif deferred != nil {\n\t\treturn nil, deferred\n\t}", 1)])
m("neutral-geterror-ifs", "v3/metric/temporal.go", "\tswitch true {\n\tcase !tm.E.IsValid(), !tm.RL.IsValid(), !tm.RC.IsValid():\n\t\treturn errs.Wrap(cvsserr.ErrInvalidValue)\n\tdefault:\n\t\treturn nil\n\t}", "\tif !tm.E.IsValid() || !tm.RL.IsValid() || !tm.RC.IsValid() {\n\t\treturn errs.Wrap(cvsserr.ErrInvalidValue)\n\t}\n\treturn nil")
m("neutral-names-two-stmt", "v3/report/names/attack-vector.go", "\tif m, ok := avNamesMap[av]; ok {\n\t\treturn m.getNameInLang(lang)\n\t}\n\treturn unknownValueNameMap.getNameInLang(lang)", "\tm, ok := avNamesMap[av]\n\tif !ok {\n\t\treturn unknownValueNameMap.getNameInLang(lang)\n\t}\n\treturn m.getNameInLang(lang)")
m("neutral-report-lang-local", "v3/report/report-base.go", "\tvec, _ := base.Encode()\n\treturn &BaseReport{\n\t\tVersion:         base.Ver.String(),", "\tvec, _ := base.Encode()\n\tver := base.Ver.String()\n\treturn &BaseReport{\n\t\tVersion:         ver,")
m("neutral-encode-loop-free", "v2/metric/base.go", "\tr := []string{}\n\tif m.names[metricAV] {", "\tr := make([]string, 0, 6)\n\tif m.names[metricAV] {")
m("neutral-accessor-form", "v3/metric/temporal.go", "func (tm *Temporal) BaseMetrics() *Base {\n\tif tm == nil {\n\t\treturn nil\n\t}\n\treturn tm.Base\n}", "func (tm *Temporal) BaseMetrics() *Base {\n\tif tm != nil {\n\t\treturn tm.Base\n\t}\n\treturn nil\n}")
m("neutral-template-vars", "v3/report/templete.go", "\tt, err := template.New(\"Repost\").Parse(tempStr)\n\tif err != nil {", "\ttpl := template.New(\"report\")\n\tt, err := tpl.Parse(tempStr)\n\tif err != nil {")

def run(*a, **k): return subprocess.run(a, cwd=R, capture_output=True, text=True, **k)
only = sys.argv[1:]
for name, edits in M:
    if only and not any(name.startswith(o) for o in only): continue
    assert run("git", "status", "--porcelain").stdout.strip() == "", "repo not clean"
    ok = True
    for file, old, new, count in edits:
        p = os.path.join(R, file); s = open(p).read()
        if s.count(old) < 1: print("NO MATCH", name, file); ok = False; break
        open(p, "w").write(s.replace(old, new, count))
    if ok:
        d = run("git", "diff").stdout
        open(os.path.join(OUT, name + ".patch"), "w").write(d)
    run("git", "checkout", "--", ".")
print(len(M), "mutants")

