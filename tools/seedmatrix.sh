#!/bin/bash
# usage: seedmatrix.sh <seeddir>...  : for each seed, every check that alarms with its first diagnostic line
export GOFLAGS="-mod=mod -trimpath" GOPROXY=off GOSUMDB=off GOTOOLCHAIN=local GOWORK=off
for D in "$@"; do D=$(readlink -f "$D")
  S=$(mktemp -d /tmp/cvss-seed.XXXXXX)
  rsync -a --exclude .git /repo/ "$S/repo/"; mkdir -p "$S/verif/evidence"; cp /verif/known_findings.txt "$S/verif/"
  (cd "$S/repo" && patch -p1 -s < "$D/patch.diff") || { echo "$D PATCH-FAILED"; rm -rf "$S"; continue; }
  echo "##### $D"
  for p in $(/verif/bin/cvsslint -list); do
    out=$(/verif/bin/cvsslint -prop "$p" -repo "$S/repo" -verif "$S/verif" 2>&1); r=$?
    if [ $r -ne 0 ]; then echo "  [$p] $(echo "$out" | grep -E '^  (VIOLATION|UNDECIDED)' | head -1 | cut -c1-${MAXCOLS:-230})"; fi
  done
  rm -rf "$S"
done
