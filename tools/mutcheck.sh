#!/bin/bash
# usage: mutcheck.sh <binary> <patch> : the mutant must be reported by the check named in its file name
BIN=$1; P=$2; n=$(basename $P .patch); prop=${n%%-*}
S=$(mktemp -d /tmp/cvss-mut.XXXXXX)
rsync -a --exclude .git /repo/ "$S/repo/"; mkdir -p "$S/verif/evidence"; cp /verif/known_findings.txt "$S/verif/"
if ! (cd "$S/repo" && patch -p1 -s -f < "$P" >/dev/null 2>&1); then echo "$n PATCH-FAILED"; rm -rf "$S"; exit; fi
out=$($BIN -prop "$prop" -repo "$S/repo" -verif "$S/verif" 2>&1); r=$?
if [ $r -eq 1 ]; then echo "$n caught"; else echo "$n MISSED (exit $r)"; fi
rm -rf "$S"
