#!/usr/bin/env python3
"""usage: saveseed.py <src dir with patch.diff demo_test.go notes.md> <id, e.g. C05e> <round>
Confirms the seeded change with tools/tryseed.sh (scratch copy outside /repo and /verif) and, only if it is a
valid seed (suite passes with it, demonstration passes without it and fails with it), stores it as
/verif/seeded/<id>/ with a meta.json recording which checks raise an alarm."""
import json, os, re, shutil, subprocess, sys

src, sid, rnd = sys.argv[1], sys.argv[2], int(sys.argv[3])
prop = sid[:3]
props = {}
for line in open('/verif/properties.jsonl'):
    line = line.strip()
    if line:
        p = json.loads(line)
        props[p['id']] = p
out = subprocess.run(['/verif/tools/tryseed.sh', src, prop], capture_output=True, text=True).stdout
need = ['demo without patch: PASS', 'build+vet with patch: ok', 'suite with patch: PASS', 'demo with patch: FAIL (as required)']
bad = [n for n in need if n not in out]
if bad:
    print(sid, 'NOT A VALID SEED:', bad)
    print(out)
    sys.exit(1)
m = re.search(r'checks raising an alarm:(.*)', out)
caught = m.group(1).split() if m else []
if caught == ['NONE']:
    caught = []
first = ''
for l in out.splitlines():
    if l.startswith('  VIOLATION') or l.startswith('  UNDECIDED'):
        first = l.strip()[:200]
        break
dst = '/verif/seeded/' + sid
os.makedirs(dst, exist_ok=True)
for f in ['patch.diff', 'demo_test.go', 'notes.md']:
    if os.path.exists(os.path.join(src, f)):
        shutil.copy(os.path.join(src, f), os.path.join(dst, f))
demo = open(os.path.join(dst, 'demo_test.go')).read()
place = re.search(r'^// place in: *(\S+)', demo, re.M).group(1)
test = re.search(r'func (Test[A-Za-z0-9_]*)', demo).group(1)
notes = ''
if os.path.exists(os.path.join(dst, 'notes.md')):
    notes = ' '.join(open(os.path.join(dst, 'notes.md')).read().split())[:600]
meta = {
    'id': sid,
    'round': rnd,
    'breaks_property': prop,
    'property_title': props[prop].get('title', ''),
    'origin': 'independent sub-agent given only the property text and a scratch worktree of /repo (nothing from /verif)',
    'demonstration': {'file': 'demo_test.go', 'place_in': place, 'test': test},
    'needs_to_manifest': 'see notes.md (written by the sub-agent): ' + notes,
    'confirmed_by': 'tools/tryseed.sh in a scratch copy of /repo outside /repo and /verif: go build + go vet ok with the patch; full existing suite passes with the patch; demonstration passes without the patch and fails with it',
    'checks_raising_an_alarm': caught,
    'primary_check_first_report': first,
    'ran': ['tools/tryseed.sh seeded/%s %s' % (sid, prop)],
}
json.dump(meta, open(os.path.join(dst, 'meta.json'), 'w'), indent=1)
print(sid, 'saved; caught by', caught, '| primary', 'CAUGHT' if prop in caught else 'MISSED')
