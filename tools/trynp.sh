#!/bin/bash
# usage: trynp.sh <binary> "<props>" <patch>...
BIN=$1; PROPS=$2; shift; shift
for P in "$@"; do
  S=$(mktemp -d /tmp/cvss-neut.XXXXXX)
  rsync -a --exclude .git /repo/ "$S/repo/"; mkdir -p "$S/verif/evidence"; cp /verif/known_findings.txt "$S/verif/"
  if ! (cd "$S/repo" && patch -p1 -s < "$P"); then echo "##### $P PATCH-FAILED"; rm -rf "$S"; continue; fi
  echo "##### $(basename $P)"
  for p in $PROPS; do
    out=$($BIN -prop "$p" -repo "$S/repo" -verif "$S/verif" 2>&1); r=$?
    if [ $r -ne 0 ]; then echo "  [$p] $(echo "$out" | grep -E '^  (VIOLATION|UNDECIDED)' | head -1 | cut -c1-260)"; fi
  done
  rm -rf "$S"
done
