#!/bin/bash
# usage: trymut.sh <patch.diff> [-t] <prop>...   (-t: also build and run the repo's tests on the mutated copy)
# Applies the patch to a scratch copy of /repo's working tree (outside /repo and /verif),
# runs the named checks against the copy and removes it.
set -u
export GOFLAGS="-mod=mod -trimpath" GOPROXY=off GOSUMDB=off GOTOOLCHAIN=local GOWORK=off
patch=$(readlink -f "$1"); shift
runtests=0
if [ "${1:-}" = "-t" ]; then runtests=1; shift; fi
S=$(mktemp -d /tmp/cvss-scratch.XXXXXX)
trap 'rm -rf "$S"' EXIT
rsync -a --exclude .git /repo/ "$S/repo/"
mkdir -p "$S/verif/evidence"; cp /verif/known_findings.txt "$S/verif/"
if ! (cd "$S/repo" && patch -p1 -s < "$patch"); then echo "PATCH-FAILED $patch"; exit 3; fi
if [ $runtests = 1 ]; then
  if (cd "$S/repo" && go build ./... 2>&1 | head -5 && go vet ./... >/dev/null 2>&1; go test -count=1 ./... > "$S/test.out" 2>&1); then echo "   tests: PASS"; else echo "   tests: FAIL ($(grep -c -- '--- FAIL' "$S/test.out") failing, e.g. $(grep -m1 -- '--- FAIL' "$S/test.out"))"; fi
fi
rc=0
for p in "$@"; do
  out=$(/verif/bin/cvsslint -prop "$p" -repo "$S/repo" -verif "$S/verif" 2>&1); r=$?
  echo "[$p exit=$r] $(echo "$out" | grep -E '^VIOLATION|^ok ' | head -1)"
  echo "$out" | grep -E '^  (VIOLATION|UNDECIDED)' | head -${MAXLINES:-4} | cut -c1-${MAXCOLS:-400}
  [ $r -ne 0 ] && rc=1
done
exit $rc
