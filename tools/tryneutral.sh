#!/bin/bash
# usage: tryneutral.sh <dir with patch.diff>... : applies each behaviour-preserving patch to a scratch copy,
# checks build+suite, and lists every check that raises an alarm (each such line is a false alarm).
export GOFLAGS="-mod=mod -trimpath" GOPROXY=off GOSUMDB=off GOTOOLCHAIN=local GOWORK=off
for D in "$@"; do D=$(readlink -f "$D")
  S=$(mktemp -d /tmp/cvss-neut.XXXXXX)
  rsync -a --exclude .git /repo/ "$S/repo/"; mkdir -p "$S/verif/evidence"; cp /verif/known_findings.txt "$S/verif/"
  if ! (cd "$S/repo" && patch -p1 -s < "$D/patch.diff"); then echo "##### $D PATCH-FAILED"; rm -rf "$S"; continue; fi
  st="suite ok"; (cd "$S/repo" && go build ./... >/dev/null 2>&1 && go vet ./... >/dev/null 2>&1 && go test -count=1 ./... >/dev/null 2>&1) || st="SUITE/BUILD FAILS"
  echo "##### $D ($st)"
  for p in $(/verif/bin/cvsslint -list); do
    out=$(/verif/bin/cvsslint -prop "$p" -repo "$S/repo" -verif "$S/verif" 2>&1); r=$?
    if [ $r -ne 0 ]; then echo "  [$p] $(echo "$out" | grep -E '^  (VIOLATION|UNDECIDED)' | head -2 | cut -c1-${MAXCOLS:-260})"; fi
  done
  rm -rf "$S"
done
