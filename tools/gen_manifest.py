#!/usr/bin/env python3
"""Regenerates /verif/MANIFEST.json from the table below and the list of
properties the checker binary implements (bin/cvsslint -list)."""
import json, subprocess, os, sys
V = os.path.dirname(os.path.dirname(os.path.abspath(__file__)))
impl = subprocess.run([os.path.join(V, "bin/cvsslint"), "-list"], capture_output=True, text=True).stdout.split()
META = json.load(open(os.path.join(V, "tools/manifest_meta.json")))
checks, na = [], []
ids = [json.loads(l)["id"] for l in open(os.path.join(V, "properties.jsonl"))]
for pid in ids:
    m = META[pid]
    if pid in impl and not m.get("not_applicable"):
        checks.append({
            "property_id": pid,
            "quick_cmd": f"bin/cvsslint -prop {pid} -tier quick",
            "thorough_cmd": f"bin/cvsslint -prop {pid} -tier thorough",
            "evidence_file": f"/verif/evidence/{pid}.json",
            "replay_cmd_template": "bin/cvsslint -explain {path}",
            "engine": "cvsslint",
            "level_claimed": {"category": m["level"], "text": m["text"], "design_ref": m["design_ref"]},
            "level_note": m["note"],
            "technique": m["technique"],
        })
    else:
        na.append({"property_id": pid, "reason": m.get("na_reason", "no static rule set for this property is built yet in this revision of /verif (static analysis is the only technique in scope); see DESIGN.md")})
man = {
    "version": 1,
    "setup_cmd": "cd /verif/checker && GOFLAGS=-mod=mod GOPROXY=off GOSUMDB=off GOTOOLCHAIN=local GOWORK=off go build -o /verif/bin/cvsslint ./cmd/cvsslint",
    "hooks": {
        "guard": "verif",
        "enable": "none needed: the checker reads /repo's source; no instrumentation is compiled into go-cvss (a build tag 'verif' is reserved and unused)",
        "baseline_off_cmd": "cd /repo && GOFLAGS=-mod=mod GOPROXY=off go test -json -vet=off -count=1 -timeout 25m ./...",
        "source_commits": [],
        "add_only": True,
    },
    "engines": [{"name": "cvsslint", "path": "/verif/checker", "serves_properties": [c["property_id"] for c in checks],
                 "kind_free_text": "repository-specific static analyser (go/packages + go/types + go/ssa, x/tools v0.29.0): table model, leaf-function summaries, SSA term extraction, dominance/guard rules, write-effect analysis"}],
    "checks": checks,
    "not_applicable": na,
    "notes": "All checks are static: they type-check /repo's current working tree on every run and never execute go-cvss code. Known findings: /verif/known_findings.txt. Design: /verif/DESIGN.md.",
}
json.dump(man, open(os.path.join(V, "MANIFEST.json"), "w"), indent=1)
print("checks:", [c["property_id"] for c in checks]); print("not_applicable:", [n["property_id"] for n in na])
